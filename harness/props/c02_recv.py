"""C02: tie between coq/model/PacketRecv.v (exec_packetrecv) and QuicConnection.receive_datagram.

A case puts a REAL QuicConnection (harness/sim pair, real TLS handshake) into one of four kinds of state

  post      after the complete handshake (client or server as receiver), after a prefix of key updates / data of both sides
  cfirst    a client that has only sent its first flight (Initial keys only, FIRSTFLIGHT, peer CID not latched)
  smid      a server that has sent its first flight (Initial + Handshake keys; the real client is muted after it has
            produced its Finished, which is available as a genuine packet)
  cunconf   a client whose handshake is complete but not confirmed (Handshake + 1-RTT keys, Initial discarded)

and then hands it a sequence of single-packet datagrams built by a key-holding puppet (the peer's secrets from the key log,
Initial keys from the DCID), WITHOUT transmitting in between:

  pkt       authentic packet of a chosen epoch: packet number relative to the receiver's expected_packet_number (old,
            duplicate, next, future, outside the decoding window), encoding length 1-4, reserved bits, spin bit, for 1-RTT the
            key GENERATION it is sealed under (previous / current / next / next+1) and the key phase bit (right or wrong for
            that generation), source CID, payload (PING / PADDING / STREAM / unknown frame / HANDSHAKE_DONE)
  flip      such a packet with one bit flipped (first byte, packet number field, body, tag)
  forge     random bytes behind a well-formed header, either key phase bit
  wrongkey  sealed with the keys of the OTHER direction
  garbage   a packet of an epoch for which nobody has keys (0-RTT; Handshake / 1-RTT before the handshake)
  genuine   a packet the real peer produced (server's ServerHello / handshake flight, client's Finished)
  pump      datagrams_to_send() at the end (did a client send a Handshake packet? -> Initial epoch discarded)

After EVERY packet the abstraction of the connection -- keys present per epoch, generation (found by comparing the secret with
the key-update chain) and key phase of both 1-RTT directions, update-requested flag, per space expected / largest packet number,
largest time, ack queue, ack timer, discarded; _crypto_retransmitted; left FIRSTFLIGHT; close code; idle timer; peer CID
(latched? which); _remote_initial_source_connection_id; spin bit and _spin_highest_pn; number of payloads handed to
_payload_received and of _loss.reschedule_data calls (counting shims in the instance dictionary) -- is compared with the model's
state, and the qlog record of the call (nothing / packet_dropped + trigger / packet_received, closed or not) with the model's
verdict.  Nothing on the implementation side is computed with the model.  The model's inputs describe the packet as the puppet
BUILT it (epoch, authentic?, generation, phase bit, first byte, full packet number, encoding length, source CID, what its frames
do: ack-eliciting / error code / keys installed / Handshake epoch discarded) plus the environment (_idle_timeout(), time).

Independent oracle (no model): a packet the puppet knows to be inauthentic (flip / forge / wrongkey) must leave the complete
attribute digest of the connection (c02_twin.conn_digest: every attribute, recursively) unchanged and produce no event; the only
exception is the documented one-shot key_unavailable probe of a client (docs/C02.md "False alarms")."""
import collections
import json
import random

from . import c02_twin as T

DT = 0.125
NONE_T = -1000000000
NOTIME = -999999999
V1, V2 = 0x00000001, 0x6B3343CF
EPOCHS = ["initial", "0rtt", "handshake", "1rtt"]
MAXGEN = 12
SKIP_ATTRS = ("bytes_received",)     # anti-amplification credit of a path that is not validated yet: grows with every datagram by design (RFC 9000 8.1)

_MEMO = collections.OrderedDict()


class Skip(Exception):
    pass


def _tls():
    from aioquic import tls
    return tls


def _epoch_enum(name):
    tls = _tls()
    return {"initial": tls.Epoch.INITIAL, "0rtt": tls.Epoch.ZERO_RTT, "handshake": tls.Epoch.HANDSHAKE, "1rtt": tls.Epoch.ONE_RTT}[name]


class World:
    """One real connection in a prepared state + the puppet's knowledge."""

    def __init__(self, case, aq_suite):
        import logging
        from sim import Pair, Puppet
        logging.getLogger("quic").setLevel(logging.CRITICAL)
        self.case = case
        cs = [aq_suite(case["suite"])]
        self.version = V1 if case["version"] == 1 else V2
        self.pair = p = Pair("c02recv-%s" % (case["seed"],), client_config={"cipher_suites": cs}, server_config={"cipher_suites": cs},
                             versions=[self.version], observe=True)
        st = case["state"]
        tls = _tls()
        self.genuine = []
        if st == "post":
            if not p.handshake():
                raise Skip("handshake did not complete")
            p.run_until_idle(max_time=20.0, quiet=1.0)
            self.R = p.endpoint(case["receiver"])
            self.P = p.peer_of(self.R)
            self.sid = {}
            for o in case.get("prefix", []):
                self._prefix_op(o)
        elif st == "cfirst":
            p.connect()
            self.R, self.P = p.client, p.server
            # the server's answer, produced by a twin pair with the same seed (deterministic): the first pair's client stays untouched
            q = Pair("c02recv-%s" % (case["seed"],), client_config={"cipher_suites": cs}, server_config={"cipher_suites": cs},
                     versions=[self.version], observe=True)
            q.connect()
            n = 0
            while (q.server.conn is None or not q.server.sent) and n < 20:
                q.step()
                n += 1
            if q.server.conn is None or not q.server.sent:
                raise Skip("no server flight")
            if q.client.sent[0][1] != p.client.sent[0][1]:
                raise Skip("twin pair is not deterministic")
            self.twin = q
            self.genuine = [pk for pk in q.observer.packets if pk.direction == "s2c" and pk.decrypted and pk.type in ("initial", "handshake")]
            self.keylogs = [q.client, q.server, p.client]
        elif st in ("smid", "cunconf"):
            p.connect()
            n = 0
            while (p.server.conn is None or not p.server.sent) and n < 20:
                p.step()
                n += 1
            if p.server.conn is None or not p.server.sent:
                raise Skip("no server flight")
            if st == "smid":
                self.R, self.P = p.server, p.client
                p.network.muted.add("client")
                n = 0
                while not p.client.conn._handshake_complete and n < 20:
                    p.step()
                    n += 1
                if not p.client.conn._handshake_complete or len(p.client.sent) < 2:
                    raise Skip("client did not complete")
                p.observer.refresh_keys()
                for _, data, _ in p.client.sent[1:]:
                    self.genuine += [pk for pk in p.observer.feed(data, "c2s", p.clock.now, -1, True, "client") if pk.decrypted and pk.type in ("initial", "handshake")]
            else:
                self.R, self.P = p.client, p.server
                n = 0
                while not p.client.conn._handshake_complete and n < 20:
                    p.step()
                    n += 1
                if not p.client.conn._handshake_complete:
                    raise Skip("client did not complete")
                p.network.muted.add("server")
                p.network.isolated.add("server")
        else:
            raise ValueError(st)
        if not hasattr(self, "keylogs"):
            self.keylogs = [p.client, p.server]
        self.conn = self.R.conn
        self.peer_side = "server" if self.R.name == "client" else "client"
        self.puppet = Puppet(p, self.peer_side)
        if st == "cfirst":
            self.hs_puppet = Puppet(self.twin, "server")
        self.base = p.clock.now
        self.k = 0
        self.cids = {}
        self.scids = [bytes([0xA0 + i]) * 8 for i in range(3)]
        real_scid = None
        if self.P.conn is not None:
            real_scid = self.P.conn.host_cid
        elif st == "cfirst":
            real_scid = self.twin.server.conn.host_cid
        if real_scid is not None:
            self.scids[0] = real_scid
        self.delivered = [0]
        self.resched = [0]
        self._install_shims()
        self.built = []
        self.rng = random.Random(case.get("irng", 0))

    # -- preparation
    def _prefix_op(self, name):
        who, what = name.split(".")
        ep = self.R if who == "R" else self.P
        if what == "data":
            if ep.name not in self.sid:
                self.sid[ep.name] = ep.get_next_available_stream_id()
            ep.send_stream_data(self.sid[ep.name], b"prefix-data|" * 5)
        elif what == "ku":
            ep.request_key_update()
            ep.send_ping(77)
        elif what == "ping":
            ep.send_ping(78)
        self.pair.pump(ep)
        self.pair.run_until_idle(max_time=20.0, quiet=1.0)

    def _install_shims(self):
        conn, cls = self.conn, type(self.conn)
        delivered, resched = self.delivered, self.resched

        def payload_received(*a, **kw):
            delivered[0] += 1
            return cls._payload_received(conn, *a, **kw)
        conn._payload_received = payload_received
        loss = conn._loss
        lcls = type(loss)

        def reschedule_data(*a, **kw):
            resched[0] += 1
            return lcls.reschedule_data(loss, *a, **kw)
        loss.reschedule_data = reschedule_data

    # -- keys
    def _secret0(self, side, epoch="1rtt"):
        from sim.wire import parse_keylog
        for ep in self.keylogs:
            log = ep.secrets_log
            text = log.getvalue() if hasattr(log, "getvalue") else str(log)
            for s, e, _, secret in parse_keylog(text):
                if s == side and e == epoch:
                    return secret
        return None

    def chain(self, side):
        """[(secret_g, sealing context of generation g)] for 1-RTT packets SENT by `side` (hp key of generation 0 throughout)"""
        key = ("chain", side)
        if key not in self.__dict__:
            from aioquic.quic.crypto import CryptoContext, next_key_phase
            s0 = self._secret0(side)
            if s0 is None:
                return None
            suite = self._suite_enum()
            c = CryptoContext()
            c.setup(cipher_suite=suite, secret=s0, version=self.version)
            hp0 = c.hp
            out = []
            for g in range(MAXGEN):
                cc = CryptoContext(key_phase=g % 2)
                cc.setup(cipher_suite=suite, secret=c.secret, version=self.version)
                cc.hp = hp0
                out.append((c.secret, cc))
                c = next_key_phase(c)
            self.__dict__[key] = out
        return self.__dict__[key]

    def _suite_enum(self):
        tls = _tls()
        return getattr(tls.CipherSuite, self.case["suite"])

    def gen_of(self, side, secret):
        ch = self.chain(side)
        if secret is None or ch is None:
            return -2
        for g, (s, _) in enumerate(ch):
            if s == secret:
                return g
        return -1

    # -- abstraction of the implementation state
    def cid(self, b):
        if b is None:
            return -1
        return self.cids.setdefault(bytes(b), len(self.cids))

    def ms(self, t, none=NOTIME):
        return none if t is None else int(round((t - self.base) * 1000))

    def alpha(self):
        tls = _tls()
        c = self.conn
        ini = c._cryptos_initial.get(c._version)
        keys = [int(bool(ini and ini.recv.is_valid()))] + [int(c._cryptos[e].recv.is_valid()) for e in (tls.Epoch.ZERO_RTT, tls.Epoch.HANDSHAKE, tls.Epoch.ONE_RTT)]
        out = [int(c._is_client)] + keys
        pr = c._cryptos[tls.Epoch.ONE_RTT]
        if keys[3]:
            out += [self.gen_of(self.peer_side, pr.recv.secret), pr.recv.key_phase, self.gen_of(self.R.name, pr.send.secret), pr.send.key_phase,
                    int(pr._update_key_requested)]
        else:
            out += [0, 0, 0, 0, 0]
        for e in (tls.Epoch.INITIAL, tls.Epoch.HANDSHAKE, tls.Epoch.ONE_RTT):
            sp = c._spaces[e]
            rs = [(r.start, r.stop) for r in sp.ack_queue]
            out += [sp.expected_packet_number, sp.largest_received_packet, self.ms(sp.largest_received_time), self.ms(sp.ack_at, NONE_T), int(sp.discarded), len(rs)]
            for a, b in rs:
                out += [a, b]
        from aioquic.quic.connection import END_STATES, QuicConnectionState
        closed = c._close_pending or c._state in END_STATES
        code = -1
        if closed:
            code = int(c._close_event.error_code) if c._close_event is not None else -3
        out += [int(c._crypto_retransmitted), int(c._state != QuicConnectionState.FIRSTFLIGHT), code, self.ms(c._close_at),
                int(c._peer_cid.sequence_number is not None), self.cid(c._peer_cid.cid), self.cid(c._remote_initial_source_connection_id),
                int(c._spin_bit), c._spin_highest_pn]
        return out

    # -- packet construction
    def _pad(self, payload, n=8):
        return payload + bytes(max(0, n - len(payload)))

    def payload(self, kind, epoch):
        """-> (bytes, elic, err, fx) as the puppet knows them; fx depends on the hidden handshake state of the receiver"""
        from sim import F
        c = self.conn
        long_ = epoch != "1rtt"
        if kind == "ping":
            return self._pad(b"\x01"), 1, -1, 0
        if kind == "padding":
            return bytes(8), 0, -1, 0
        if kind == "unknown":
            return self._pad(b"\x21"), 0, 7, 0
        if kind == "stream":
            sid = 0 if not c._is_client else 1
            return self._pad(F.stream(sid, 0, b"tie")), 1, (10 if long_ else -1), 0
        if kind == "hsdone":
            if long_ or not c._is_client:
                return self._pad(b"\x1e"), 0, 10, 0
            return self._pad(b"\x1e"), 1, -1, (0 if c._handshake_confirmed else 1)
        raise ValueError(kind)

    def expected(self, epoch):
        tls = _tls()
        e = _epoch_enum(epoch)
        return self.conn._spaces[tls.Epoch.ONE_RTT if e == tls.Epoch.ZERO_RTT else e].expected_packet_number

    def pick_pn(self, epoch, spec):
        E = self.expected(epoch)
        if "abs" in spec:
            return max(0, spec["abs"])
        return max(0, E + spec.get("dpn", 0))

    def build(self, epoch, spec):
        """authentic packet -> dict(data, epoch, auth, gen, phase, first, pn, pnl, scid, pn_off, elic, err, fx) or None"""
        pn = self.pick_pn(epoch, spec)
        pnl = spec.get("pnl", 2)
        res = spec.get("res", 0)
        kind = spec.get("pay", "ping")
        payload, elic, err, fx = self.payload(kind, epoch)
        dcid = self.conn.host_cid
        if epoch == "1rtt":
            ch = self.chain(self.peer_side)
            if ch is None:
                return None
            pr = self.conn._cryptos[_epoch_enum("1rtt")]
            cur = self.gen_of(self.peer_side, pr.recv.secret) if pr.recv.is_valid() else 0
            g = min(MAXGEN - 1, max(0, cur + spec.get("gen", 0)))
            phase = g % 2 if spec.get("ph") is None else spec["ph"]
            spin = spec.get("spin", 0)
            first = 0x40 | (spin << 5) | ((res & 3) << 3) | (phase << 2) | (pnl - 1)
            hdr = bytes([first]) + dcid + (pn & ((1 << (8 * pnl)) - 1)).to_bytes(pnl, "big")
            data = ch[g][1].encrypt_packet(hdr, payload, pn)
            return dict(data=data, epoch=3, auth=1, gen=g, phase=phase, first=first, pn=pn, pnl=pnl, scid=-1, pn_off=1 + len(dcid),
                        elic=elic, err=err, fx=fx)
        scid = self.scids[spec.get("scid", 0) % len(self.scids)]
        pup = self.hs_puppet if (epoch == "handshake" and hasattr(self, "hs_puppet")) else self.puppet
        pad = 1180 if (epoch == "initial" and not self.conn._is_client) else None
        try:
            data = pup.build_packet(epoch, payload, pn=pn, dcid=dcid, scid=scid, pn_len=pnl, reserved_bits=res, version=self.version,
                                    pad_payload_to=pad, token=b"")
        except ValueError:
            return None
        from aioquic.buffer import Buffer
        from aioquic.quic.packet import pull_quic_header
        buf = Buffer(data=data)
        pull_quic_header(buf, host_cid_length=len(dcid))
        pn_off = buf.tell()
        table = {"initial": 0, "0rtt": 1, "handshake": 2} if self.version == V1 else {"initial": 1, "0rtt": 2, "handshake": 3}
        first = 0xC0 | (table[epoch] << 4) | ((res & 3) << 2) | (pnl - 1)
        return dict(data=data, epoch=EPOCHS.index(epoch), auth=1, gen=0, phase=0, first=first, pn=pn, pnl=pnl, scid=self.cid(scid), pn_off=pn_off,
                    elic=elic, err=err, fx=fx)

    def garbage(self, epoch, ph=0, n=40):
        """well-formed header, random body: nobody's keys"""
        from sim.puppet import varint
        dcid = self.conn.host_cid
        body = bytes(self.rng.randrange(256) for _ in range(n))
        if epoch == "1rtt":
            first = 0x40 | (ph << 2) | 1
            data = bytes([first]) + dcid + body
            return dict(data=data, epoch=3, auth=0, gen=0, phase=ph, first=first, pn=0, pnl=2, scid=-1, pn_off=1 + len(dcid), elic=0, err=-1, fx=0)
        table = {"initial": 0, "0rtt": 1, "handshake": 2} if self.version == V1 else {"initial": 1, "0rtt": 2, "handshake": 3}
        first = 0xC0 | (table[epoch] << 4) | 1
        scid = self.scids[1]
        if epoch == "initial" and not self.conn._is_client:
            body += bytes(1200)
        hdr = bytes([first]) + self.version.to_bytes(4, "big") + bytes([len(dcid)]) + dcid + bytes([len(scid)]) + scid
        if epoch == "initial":
            hdr += b"\x00"
        hdr += varint(len(body), 2)
        return dict(data=hdr + body, epoch=EPOCHS.index(epoch), auth=0, gen=0, phase=0, first=first, pn=0, pnl=2, scid=self.cid(scid), pn_off=len(hdr),
                    elic=0, err=-1, fx=0)

    def wrongkey(self, spec):
        """a 1-RTT packet sealed with the receiver's OWN sending keys (the other direction)"""
        ch = self.chain(self.R.name)
        if ch is None:
            return None
        dcid = self.conn.host_cid
        pn = self.pick_pn("1rtt", spec)
        ph = spec.get("ph") or 0
        first = 0x40 | (ph << 2) | 1
        hdr = bytes([first]) + dcid + (pn & 0xFFFF).to_bytes(2, "big")
        cc = ch[min(MAXGEN - 1, max(0, spec.get("gen", 0)))][1]
        from aioquic.quic.crypto import CryptoContext
        c2 = CryptoContext(key_phase=ph)
        c2.aead, c2.hp = cc.aead, self.chain(self.peer_side)[0][1].hp       # header protection of the right direction: only the AEAD is foreign
        data = c2.encrypt_packet(hdr, self._pad(b"\x01"), pn)
        return dict(data=data, epoch=3, auth=0, gen=0, phase=ph, first=first, pn=pn, pnl=2, scid=-1, pn_off=1 + len(dcid), elic=1, err=-1, fx=0)

    def genuine_pkt(self, i):
        if not self.genuine:
            return None
        pk = self.genuine[i % len(self.genuine)]
        names = pk.frame_names()
        c = self.conn
        tls = _tls()
        elic = int(any(n not in ("ACK", "PADDING", "CONNECTION_CLOSE") for n in names))
        fx = 0
        if "CRYPTO" in names:
            if pk.type == "initial" and c._is_client and not c._cryptos[tls.Epoch.HANDSHAKE].recv.is_valid():
                fx |= 2                                         # ServerHello: handshake keys
            if pk.type == "handshake" and not c._handshake_complete:
                fx |= 4                                         # Finished: 1-RTT (receive) keys
                if not c._is_client:
                    fx |= 1                                     # a server's handshake is then confirmed: Handshake epoch discarded
        err = -1
        if fx & 4 and c._is_client and c._remote_initial_source_connection_id not in (None, bytes(pk.scid)):
            # the server's transport parameters name ITS source CID; a client that took another one from an earlier (puppet) Initial
            # refuses them before any 1-RTT key exists (TRANSPORT_PARAMETER_ERROR)
            err, fx = 8, 0
        data = pk.raw
        if pk.type == "initial" and not c._is_client and len(data) < 1200:
            return None                                         # cannot be delivered alone to a server
        return dict(data=data, epoch=EPOCHS.index(pk.type), auth=1, gen=0, phase=0, first=pk.header[0], pn=pk.pn, pnl=pk.pn_length, scid=self.cid(pk.scid),
                    pn_off=len(pk.header) - pk.pn_length, elic=elic, err=err, fx=fx)

    def make(self, op):
        kind = op[0]
        if kind == "pkt":
            return self.build(op[1], op[2]), False
        if kind == "flip":
            b = self.build(op[1], op[2])
            if b is None:
                return None, True
            d = bytearray(b["data"])
            where, bit = op[3], op[4]
            if where == "first":
                pos, bit = 0, bit % (6 if op[1] == "1rtt" else 4)
            elif where == "pn":
                pos = b["pn_off"] + bit % b["pnl"]
            elif where == "tag":
                pos = len(d) - 1 - (bit * 5) % 16
            else:
                pos = b["pn_off"] + b["pnl"] + (bit * 7) % max(1, len(d) - 16 - b["pn_off"] - b["pnl"])
            d[pos] ^= 1 << (bit % 8)
            b = dict(b, data=bytes(d), auth=0)
            return b, True
        if kind == "forge":
            return self.garbage(op[1], ph=op[2], n=op[3]), True
        if kind == "garbage":
            return self.garbage(op[1]), None
        if kind == "wrongkey":
            return self.wrongkey(op[1]), True
        if kind == "genuine":
            return self.genuine_pkt(op[1]), False
        raise ValueError(kind)

    # -- one step
    def deliver(self, b, inauthentic):
        """-> (impl tokens, model tokens, problems)"""
        conn, R = self.conn, self.R
        self.k += 1
        self.pair.clock.advance_to(self.base + self.k * DT)
        now_ms = int(round(self.k * DT * 1000))
        q = T._qev(R)
        nq, nev = len(q), len(R.events)
        before = T.conn_digest(conn, also_skip=SKIP_ATTRS) if inauthentic else None
        retx0 = conn._crypto_retransmitted
        d0 = self.delivered[0]
        R.receive_datagram(b["data"], self.P.addr)
        new = list(q)[nq:]
        drops = [e["data"].get("trigger") for e in new if e["name"] == "transport:packet_dropped"]
        recvd = [e for e in new if e["name"] == "transport:packet_received"]
        from aioquic.quic.connection import END_STATES
        closed = conn._close_pending or conn._state in END_STATES
        if not new:
            verdict = 0
        elif len(drops) + len(recvd) != 1:
            verdict = 90 + len(drops) + len(recvd)
        elif drops:
            verdict = {"key_unavailable": 1, "payload_decrypt_error": 2}.get(drops[0], 70)
        else:
            verdict = 4 if not closed else (5 if self.delivered[0] > d0 else 3)
        idle_ms = int(round(conn._idle_timeout() * 1000))
        impl = [verdict] + self.alpha() + [self.delivered[0], self.resched[0]]
        model = [1, b["epoch"], b["auth"], b["gen"], b["phase"], b["first"], b["pn"], b["pnl"], b["scid"], b["elic"], b["err"], b["fx"], idle_ms, now_ms]
        problems = []
        after = T.conn_digest(conn, also_skip=SKIP_ATTRS) if inauthentic else None
        ev = []
        while True:                                  # events are drained after every packet, so the next digest starts clean
            e = R.next_event()
            if e is None:
                break
            ev.append(type(e).__name__)
        if inauthentic:
            if recvd:
                problems.append(("accepted", "an inauthentic packet was accepted (qlog packet_received)"))
            if ev:
                problems.append(("event", "events after an inauthentic packet: %s" % ev))
            if before != after:
                probe = drops == ["key_unavailable"] and conn._is_client and not retx0 and conn._crypto_retransmitted
                if not probe:
                    problems.append(("connection-state", "connection state changed by an inauthentic packet (%s): %s"
                                     % (drops or "no drop record", "; ".join(T.digest_diff(before, after)))))
        return impl, model, problems, (drops[0] if drops else ("received" if recvd else "ignored"))

    def deliver_many(self, bs):
        """several packets in ONE datagram -> (impl tokens, model tokens, what-list): a verdict per packet, the state after the last"""
        conn, R = self.conn, self.R
        self.k += 1
        self.pair.clock.advance_to(self.base + self.k * DT)
        now_ms = int(round(self.k * DT * 1000))
        q = T._qev(R)
        nq = len(q)
        d0 = self.delivered[0]
        R.receive_datagram(b"".join(b["data"] for b in bs), self.P.addr)
        recs = [e for e in list(q)[nq:] if e["name"] in ("transport:packet_dropped", "transport:packet_received")]
        from aioquic.quic.connection import END_STATES
        closed = conn._close_pending or conn._state in END_STATES
        n_recv = sum(1 for e in recs if e["name"] == "transport:packet_received")
        verdicts, whats = [], []
        for i, e in enumerate(recs):
            if e["name"] == "transport:packet_dropped":
                trig = e["data"].get("trigger")
                verdicts.append({"key_unavailable": 1, "payload_decrypt_error": 2}.get(trig, 70))
                whats.append(trig)
            else:
                last = i == len(recs) - 1
                verdicts.append(4 if not (closed and last) else (5 if self.delivered[0] - d0 == n_recv else 3))
                whats.append("received")
        while len(verdicts) < len(bs):                     # nothing was logged for them: the call had returned before
            verdicts.append(0)
            whats.append("ignored")
        verdicts = verdicts[:len(bs)] if len(verdicts) == len(bs) else verdicts + [99]
        while True:
            if R.next_event() is None:
                break
        idle_ms = int(round(conn._idle_timeout() * 1000))
        impl = verdicts[:-1] + [verdicts[-1]] + self.alpha() + [self.delivered[0], self.resched[0]]
        model = []
        for j, b in enumerate(bs):
            model += [3 if j < len(bs) - 1 else 1, b["epoch"], b["auth"], b["gen"], b["phase"], b["first"], b["pn"], b["pnl"], b["scid"], b["elic"], b["err"],
                      b["fx"], idle_ms, now_ms]
        return impl, model, whats

    def pump(self):
        out = self.R.datagrams_to_send()
        sent_hs = any(_has_handshake(data) for data, _ in out)
        tls = _tls()
        c = self.conn
        ini = c._cryptos_initial.get(c._version)
        impl = [int(bool(ini and ini.recv.is_valid())), int(c._spaces[tls.Epoch.INITIAL].discarded),
                int(c._cryptos[tls.Epoch.HANDSHAKE].recv.is_valid()), int(c._spaces[tls.Epoch.HANDSHAKE].discarded)]
        return sent_hs, impl


def _has_handshake(data):
    """does the datagram contain a Handshake packet (walk the coalesced long-header packets)"""
    from aioquic.buffer import Buffer
    from aioquic.quic.packet import QuicPacketType, pull_quic_header
    buf = Buffer(data=data)
    while not buf.eof():
        start = buf.tell()
        try:
            h = pull_quic_header(buf, host_cid_length=8)
        except ValueError:
            return False
        if h.packet_type == QuicPacketType.HANDSHAKE:
            return True
        if h.packet_type == QuicPacketType.ONE_RTT:
            return False
        end = start + h.packet_length
        if end <= buf.tell() or end > buf.capacity:
            return False
        buf.seek(end)
    return False


def _run(w, ops, skip_inauthentic=False):
    """deliver the ops to the world's connection.  skip_inauthentic: the packets the puppet knows to be inauthentic are built (so
    that every later packet is bit-identical) but NOT delivered; their time slot stays empty."""
    impl, hist, problems, events = [], [], [], []
    model = list(w.alpha())
    probe = False
    for op in ops:
        if op[0] == "pump":
            sent_hs, toks = w.pump()
            if sent_hs:
                model += [2]
                impl += toks
                hist.append("pump:handshake-sent")
            else:
                hist.append("pump:nothing")
            break
        if op[0] == "co":
            subs = []
            for so in op[1]:
                b, inauth = w.make(so)
                if b is None:
                    hist.append("%s:unbuildable" % so[0])
                else:
                    subs.append((so, b, inauth))
            subs = [x for x in subs if x[1]["epoch"] != 3] + [x for x in subs if x[1]["epoch"] == 3][:1]     # a short header ends the datagram
            any_in = any(x[2] for x in subs)
            if skip_inauthentic:
                subs = [x for x in subs if not x[2]]
            if not subs:
                w.k += 1
                w.pair.clock.advance_to(w.base + w.k * DT)
                continue
            retx0 = w.conn._crypto_retransmitted
            i, m, whats = w.deliver_many([x[1] for x in subs])
            if any_in and w.conn._crypto_retransmitted != retx0:
                probe = True
            impl += i
            model += m
            hist.append("coalesced-%d" % len(subs))
            for (so, b, _), what in zip(subs, whats):
                hist.append("co:%s/%s/%s" % (so[0], EPOCHS[b["epoch"]], what))
            continue
        b, inauth = w.make(op)
        if b is None:
            hist.append("%s:unbuildable" % op[0])
            continue
        if skip_inauthentic and inauth:
            w.k += 1
            w.pair.clock.advance_to(w.base + w.k * DT)
            continue
        retx0 = w.conn._crypto_retransmitted
        i, m, pr, what = w.deliver(b, bool(inauth))
        if inauth and w.conn._crypto_retransmitted != retx0:
            probe = True
        impl += i
        model += m
        problems += [(r, "op %s: %s" % (op, t)) for r, t in pr]
        hist.append("%s/%s/%s" % (op[0], EPOCHS[b["epoch"]], what))
    return impl, model, problems, hist, probe


def _final(w):
    return {"state": w.alpha() + [w.delivered[0], w.resched[0]],
            "protection": T.crypto_digest(w.conn, deep=True, ident=False),
            "connection": T.digest(w.conn, False, ident=False, skip=T.SKIP_LOG | frozenset(SKIP_ATTRS))}


def trace(C, case):
    """-> (impl tokens, model tokens, problems [(rule, text)], histogram keys)"""
    key = json.dumps(case, sort_keys=True)
    if key in _MEMO:
        return _MEMO[key]
    import sim  # noqa: F401
    try:
        w = World(case, C._aq_suite)
    except Skip as e:
        res = (["skipped"], None, [], ["skipped:%s" % e])
        _MEMO[key] = res
        return res
    impl, model, problems, hist, probe = _run(w, case["ops"])
    # no LATER effect, on the implementation alone: the same connection, the same packets at the same times, WITHOUT the
    # inauthentic ones -> the same final state (abstraction, protection objects by behaviour, every attribute by value)
    n_in = sum(1 for o in case["ops"] for x in (o[1] if o[0] == "co" else [o]) if x[0] in ("flip", "forge", "wrongkey"))
    if n_in and not problems and not case.get("no_control"):
        if probe:
            hist.append("control:skipped-client-probe")
        else:
            w2 = World(case, C._aq_suite)
            _run(w2, case["ops"], skip_inauthentic=True)
            fa, fb = _final(w), _final(w2)
            hist.append("control:compared")
            for part in ("state", "protection", "connection"):
                if fa[part] != fb[part]:
                    diff = T.digest_diff(fb[part], fa[part]) if part != "state" else ["abstraction %s -> %s" % (fb[part], fa[part])]
                    problems.append(("later-effect", "the final %s differs from the run in which the %d inauthentic packet(s) were not delivered: %s"
                                     % (part, n_in, "; ".join(diff)[:900])))
                    break
    res = (impl, model, problems, hist)
    _MEMO[key] = res
    while len(_MEMO) > 64:
        _MEMO.popitem(last=False)
    return res


def impl(C, case):
    return trace(C, case)[0]


def encode(C, case):
    m = trace(C, case)[1]
    return m if m is not None else [0]


def oracle(C, case):
    pr = trace(C, case)[2]
    if pr:
        return ("%s [state %s, receiver %s, %s v%d]" % (pr[0][1], case["state"], case.get("receiver"), case["suite"], case["version"]),
                {"site": "receive_datagram", "rule": "packetrecv-" + pr[0][0]})
    return None


# ------------------------------------------------------------------------------------ cases
PAYS_SHORT = ["ping", "ping", "padding", "stream", "unknown", "hsdone"]
PAYS_LONG = ["ping", "ping", "padding", "unknown", "stream", "hsdone"]


def _spec(rng, epoch, plain=False):
    s = {}
    r = rng.random()
    if plain or r < 0.45:
        s["dpn"] = rng.choice([0, 1, 1, 2, 3])
    elif r < 0.6:
        s["dpn"] = -rng.choice([1, 2, 3, 5])                         # old / duplicate
    elif r < 0.7:
        s["dpn"] = rng.choice([5, 17, 100])                          # future, inside the window of a 2-byte encoding
    elif r < 0.85:
        s["pnl"] = 1
        s["dpn"] = rng.choice([126, 127, 128, 129, 200, -127, -128, -129, -300])     # around the edge of the 1-byte window
    else:
        s["pnl"] = rng.choice([1, 2, 3, 4])
        s["dpn"] = rng.choice([0, 1, 40000, -40000, 70000])
    if "pnl" not in s:
        s["pnl"] = rng.choice([1, 2, 2, 2, 3, 4])
    if not plain and rng.random() < 0.05:
        s["res"] = rng.choice([1, 2, 3])
    r = rng.random()
    s["pay"] = "ping" if plain or r < 0.55 else "padding" if r < 0.75 else "stream" if r < 0.87 and epoch == "1rtt" else \
        "hsdone" if r < 0.93 else rng.choice(["unknown", "stream"])
    if epoch == "1rtt":
        s["spin"] = rng.randrange(2)
        if not plain and rng.random() < 0.35:
            s["gen"] = rng.choice([-1, 1, 1, 2])
        if not plain and rng.random() < 0.2:
            s["ph"] = rng.randrange(2)
    else:
        s["scid"] = rng.randrange(3)
    return s


def _op(rng, epochs):
    epoch = rng.choice(epochs)
    r = rng.random()
    if epoch == "0rtt":
        return ["garbage", "0rtt"]
    if r < 0.5:
        return ["pkt", epoch, _spec(rng, epoch)]
    if r < 0.72:
        return ["flip", epoch, _spec(rng, epoch, plain=True), rng.choice(["first", "pn", "body", "tag"]), rng.randrange(8)]
    if r < 0.82:
        return ["forge", epoch, rng.randrange(2), rng.randrange(30, 90)]
    if r < 0.9 and epoch == "1rtt":
        return ["wrongkey", {"dpn": rng.choice([0, 1]), "ph": rng.randrange(2), "gen": rng.randrange(2)}]
    if r < 0.95:
        return ["garbage", epoch]
    return ["pkt", epoch, _spec(rng, epoch, plain=True)]


def gen_cases(C, rng, n, thorough=False):
    cases = []
    suites = C.SUITE_NAMES
    i = 0

    def base(state, receiver):
        nonlocal i
        i += 1
        return {"recv": True, "state": state, "receiver": receiver, "seed": rng.randrange(1 << 30), "version": 1 + i % 2, "suite": suites[i % 3],
                "irng": rng.randrange(1 << 30)}
    prefixes = [[], ["P.ku"], ["R.ku"], ["P.ku", "R.ku"], ["R.ku", "P.ku", "P.data"], ["P.data", "R.data"], ["P.ku", "P.ku"]]
    # fixed skeletons first: every state, every kind of packet at least once
    for recv in ("client", "server"):
        for pf in prefixes[:5]:
            c = base("post", recv)
            c["prefix"] = pf
            c["ops"] = [["pkt", "1rtt", {"dpn": 1, "pay": "ping", "spin": 1}], ["flip", "1rtt", {"dpn": 1}, "first", 2], ["forge", "1rtt", 1, 40],
                        ["pkt", "1rtt", {"dpn": 1, "gen": 1}], ["pkt", "1rtt", {"dpn": -1}], ["wrongkey", {"dpn": 0, "ph": 0}],
                        ["pkt", "1rtt", {"dpn": 1, "gen": -1}], ["pkt", "initial", {"dpn": 0}], ["pkt", "handshake", {"dpn": 0}], ["garbage", "0rtt"],
                        ["pkt", "1rtt", {"dpn": 300, "pnl": 1}], ["pkt", "1rtt", {"dpn": 2, "res": 1}], ["pkt", "1rtt", {"dpn": 1}]]
            cases.append(c)
    c = base("cfirst", "client")
    c["ops"] = [["garbage", "handshake"], ["garbage", "1rtt"], ["garbage", "0rtt"], ["flip", "initial", {"dpn": 0, "scid": 1}, "body", 3],
                ["pkt", "initial", {"dpn": 0, "scid": 1, "pay": "ping"}], ["pkt", "initial", {"dpn": 1, "scid": 2, "pay": "padding"}],
                ["genuine", 0], ["genuine", 1], ["genuine", 0], ["pump"]]
    cases.append(c)
    c = base("cfirst", "client")
    c["ops"] = [["genuine", 1], ["genuine", 0], ["flip", "handshake", {"dpn": 1}, "tag", 1], ["genuine", 1], ["pkt", "handshake", {"dpn": 1}], ["pump"]]
    cases.append(c)
    c = base("smid", "server")
    c["ops"] = [["pkt", "initial", {"dpn": 1, "scid": 1}], ["flip", "initial", {"dpn": 1}, "first", 1], ["forge", "handshake", 0, 50], ["garbage", "1rtt"],
                ["pkt", "handshake", {"dpn": 0, "scid": 2}], ["pkt", "initial", {"dpn": 1}], ["flip", "initial", {"dpn": 1}, "body", 2],
                ["genuine", 1], ["genuine", 1], ["pkt", "handshake", {"dpn": 1}], ["pkt", "1rtt", {"dpn": 0}], ["pkt", "1rtt", {"dpn": 1, "gen": 1}]]
    cases.append(c)
    c = base("cunconf", "client")
    c["ops"] = [["pkt", "handshake", {"dpn": 1}], ["flip", "handshake", {"dpn": 1}, "pn", 0], ["pkt", "1rtt", {"dpn": 0, "pay": "ping"}],
                ["pkt", "initial", {"dpn": 0}], ["pkt", "1rtt", {"dpn": 1, "pay": "hsdone"}], ["pkt", "handshake", {"dpn": 1}],
                ["forge", "handshake", 0, 60], ["pkt", "1rtt", {"dpn": 1, "pay": "hsdone"}], ["pump"]]
    cases.append(c)
    # coalesced datagrams: an inauthentic packet in front must not keep the genuine rest from being processed (`continue`), a
    # reserved-bits close ends the datagram (`return`)
    c = base("smid", "server")
    c["ops"] = [["co", [["flip", "initial", {"dpn": 1}, "tag", 0], ["pkt", "handshake", {"dpn": 0}], ["garbage", "1rtt"]]],
                ["co", [["garbage", "0rtt"], ["pkt", "initial", {"dpn": 1}], ["pkt", "handshake", {"dpn": 1, "res": 2}], ["pkt", "handshake", {"dpn": 2}]]],
                ["pkt", "handshake", {"dpn": 1}]]
    cases.append(c)
    for recv in ("client", "server"):
        c = base("post", recv)
        c["prefix"] = ["P.ku"]
        c["ops"] = [["co", [["pkt", "handshake", {"dpn": 0}], ["forge", "initial", 0, 40], ["pkt", "1rtt", {"dpn": 1, "gen": 1}]]],
                    ["co", [["garbage", "0rtt"], ["flip", "1rtt", {"dpn": 1}, "body", 5]]], ["pkt", "1rtt", {"dpn": 1}]]
        cases.append(c)
    # the MAX_ACK_RANGES rule: 40 packets leaving gaps
    c = base("post", "server")
    c["prefix"] = []
    c["ops"] = [["pkt", "1rtt", {"dpn": 2, "pay": "padding" if j < 34 else "ping"}] for j in range(38)]     # armed only once 32 ranges are queued
    cases.append(c)
    # random
    while len(cases) < n:
        r = rng.random()
        if r < 0.6:
            c = base("post", rng.choice(["client", "server"]))
            c["prefix"] = rng.choice(prefixes)
            eps = ["1rtt"] * 8 + ["initial", "handshake", "0rtt"]
        elif r < 0.74:
            c = base("cfirst", "client")
            eps = ["initial"] * 5 + ["handshake", "handshake", "1rtt", "0rtt"]
        elif r < 0.88:
            c = base("smid", "server")
            eps = ["initial"] * 3 + ["handshake"] * 4 + ["1rtt", "0rtt"]
        else:
            c = base("cunconf", "client")
            eps = ["handshake"] * 3 + ["1rtt"] * 5 + ["initial", "0rtt"]
        ops = [_op(rng, eps) for _ in range(rng.randint(3, 14))]
        if c["state"] in ("cfirst", "smid"):
            for _ in range(rng.randrange(4)):
                ops.insert(rng.randrange(len(ops) + 1), ["genuine", rng.randrange(3)])
        j = 0
        while j < len(ops) - 1:                                            # some neighbours travel in one datagram
            if rng.random() < 0.18:
                m = rng.choice([2, 2, 3])
                ops[j:j + m] = [["co", ops[j:j + m]]]
            j += 1
        if c["state"] in ("cfirst", "cunconf") and rng.random() < 0.5:
            ops.append(["pump"])
        c["ops"] = ops
        cases.append(c)
    return cases


def opname(o):
    return o[0] if o[0] in ("pump", "wrongkey", "genuine", "co") else "%s-%s" % (o[0], o[1])


def nontrivial(case, out):
    return out != ["skipped"] and len(out) > 10
