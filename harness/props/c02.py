"""C02  Only authentic packets are accepted; altered packets change nothing.

Ties (re-run on every check):
 (a) differential: aioquic's CryptoPair / _crypto.c against harness/props/c02_ref.py (an independent RFC
     9001/9369 implementation on `cryptography` primitives) over suite x version x key phase x pn length
     x payload size x expected pn; RFC 9001 A / RFC 9369 A vectors as fixed corpus;
 (b) the Coq models coq/model/{PacketNumber,Protect}.v run through the extracted driver on the same
     tuples, mask / AEAD answers supplied as tables computed with `cryptography`, compared token by
     token with _crypto.c / crypto.py / decode_packet_number;
 (c) connection-level oracle: live in-process client/server pairs; every packet of every flight
     (handshake, data, key update, Retry) is unprotected and re-protected bit-exactly by the
     reference (wire observer), every byte (quick: one random mask per byte; thorough / selected
     scenarios: all 8 single-bit flips) is altered and fed to the receiver in the state in which it
     is about to receive the genuine packet: no event, no output, no visible state change, then the
     genuine packet must be accepted; finally a packet protected by the reference is accepted by
     the real endpoint;
 (d) key phases (coq/model/KeyPhase.v, exec_keyphase): two real CryptoPairs back to back run the model's events (local update
     request, send, delivery of any earlier packet, injected inauthentic packets) -- verdicts and (generation, phase, pending
     flag) of both pairs token by token; a rejected packet must leave the pair's complete attribute digest unchanged, and a pair's
     digest must equal that of a pair brought to the same abstract state by local updates alone (the model's state is ALL the
     state there is) -- harness/props/c02_keyphase.py;
 (e) no LATER effect (harness/props/c02_twin.py): paired deterministic runs on harness/sim with and without one inauthentic
     packet; the whole continuation (key updates of both sides in both orders over several generations, connection-id changes,
     data) must be identical on the wire, in the events and in the accept/drop record; complete state digests of the packet
     protection objects (every altered copy) and of the whole connection (every packet once the handshake is confirmed)."""
import collections
import datetime
import io
import random
import ssl
import time

from vlib import core, corr
from . import c02_ref as R
from . import c02_twin as T
from . import c02_keyphase as K
from . import c02_keyderive as KD
from . import c02_recv as RV

GENERATORS = ["c02_pure", "c02_keys", "c02_recv"]

DEPENDS = ["PacketNumber", "Protect", "KeyPhase", "PnGen", "PacketNumberProofs", "ProtectProofs", "KeyPhaseProofs", "Base", "Tok", "C02",
           "C02Keys", "KeyDerive", "KeyDeriveProofs", "KeyPhaseSec", "KeyPhaseSecProofs", "PacketRecv", "PacketRecvProofs", "C02Recv", "RangeSet"]
TRUSTED_BASE = [
    "extraction (ExtrOcamlBasic only; Z kept as the extracted inductive) + coq/extract/driver.ml for running the models",
    "harness/props/c02.py + c02_ref.py (independent RFC 9001/9369 implementation; decides what 'agree' means) and the "
    "`cryptography` package primitives (AES-GCM, ChaCha20-Poly1305, AES-ECB, ChaCha20, HMAC) used as oracles",
    "tools/gen/c02_pure.py (Python-ast -> Gallina translator for decode_packet_number; fails closed)",
    "harness/sim (Pair, deterministic os.urandom / key generation / virtual time) for the paired runs; c02_twin.digest walks instance "
    "dictionaries (an object keeping state outside its __dict__ -- C extension, module global -- is only seen through behaviour: "
    "AEAD/HeaderProtection by a probe encryption, everything else by the paired-run continuation)",
    "modelled, not verified: crypto.py's key-phase handling (CryptoContext.decrypt_packet's choice of keys, next_key_phase, "
    "apply_key_phase, CryptoPair.update_key/_update_key/key_phase) as coq/model/KeyPhase.v with key material abstracted to its generation",
    "modelled, not verified: _crypto.c AEAD nonce / HeaderProtection_apply / _remove and crypto.py "
    "CryptoContext.encrypt_packet / decrypt_packet as Gallina functions; OpenSSL is outside",
    "modelled, not verified: tls.py hkdf_label / hkdf_expand_label / hkdf_extract and crypto.py derive_key_iv_hp / CryptoContext.setup / "
    "next_key_phase / apply_key_phase / CryptoPair.setup_initial, packet.py's Retry key selection as coq/model/KeyDerive.v over an HMAC "
    "oracle (HMAC, SHA-2 and `cryptography`'s HKDFExpand are outside; the keyderive suite compares the model, fed with `cryptography` HMAC "
    "answers for the reference's queries, with the real functions on every run); coq/model/KeyPhaseSec.v = KeyPhase.v with key material",
    "tools/gen/c02_keys.py: reads labels, salts, lengths, code points and Retry keys from the current source (ast) and refuses when "
    "the shape of a derivation function differs from the pinned one; trusted to read correctly (cross-checked by the keyderive suite)",
    "modelled, not verified: receive_datagram's decisions around decryption as coq/model/PacketRecv.v (executed against real connections "
    "by the packetrecv suite after every packet; _payload_received is an abstract function whose outcome -- ack-eliciting, error code, keys "
    "installed, Handshake epoch discarded -- the harness supplies from what the puppet put into the packet and the receiver's handshake "
    "flags; not modelled: migration / network paths, the server's very first datagram, qlog)",
    "tools/gen/c02_recv.py: normal form (logging stripped) of the statements of receive_datagram after header parsing compared with the "
    "pinned forms; trusted to read the source correctly (cross-checked by the packetrecv suite)",
    "harness/props/c02_recv.py: reads private attributes of the connection (labelled peeks: _cryptos, _spaces, _peer_cid, _spin_bit, "
    "_close_event ...), counts _payload_received / reschedule_data calls through wrappers stored in the instance dictionaries, builds "
    "packets with aioquic's own CryptoContext.encrypt_packet keyed from the key log (the sealing itself is covered by the protect suite)",
    "harness/props/c02_keyderive.py: key / iv / hp of a real CryptoContext are identified by behaviour (probe sealed by ctx.aead, mask "
    "of ctx.hp) because the C objects have no accessors",
]
ASSUMPTIONS = [
    "H-AEAD (Section hypotheses of altered_rejected / retry_tag_binds): open k n a c = Some p <-> c = seal k n a p "
    "(ideal AEAD; the real forgery probability is 2^-128, not 0)",
    "key_generations_in_step / genuine_packet_verdict / fresh_packet_accepted: an endpoint requests a key update only while it is not "
    "ahead of its peer (RFC 9001 6.1; aioquic leaves that to the application) and injected packets are inauthentic (ideal AEAD)",
    "the header-protection mask is an arbitrary function of the hp key and the 16-byte sample (Section variable)",
    "H-HMAC (premises hmac_ideal / hmac_len of derived_secrets_separated, initial_keys_depend_on_dcid_and_version, "
    "key_generations_have_distinct_secrets and chain_premises): HMAC truncated to >= 96 bits has no collisions between keys of equal "
    "length (equal outputs => same hash, key, message) and the digest has digest_size bytes; the real collision probability is ~2^-96 "
    "per pair, not 0",
    "chain_premises (sealed_generation_opens_only_itself, secrets_refine_generations, genuine_packet_verdict_secrets): known cipher suite, "
    "first 1-RTT secrets of digest length, and neither key-update chain ever returns to its first secret",
    "hp_roundtrip is stated for packets whose sample lies inside the packet (pn length + ciphertext >= 20) and "
    "total length <= 1500: outside that _crypto.c reads/writes out of bounds (property C04)",
]

MOD64 = 1 << 64
# QuicNetworkPath.bytes_received counts every datagram on a not yet validated path, authentic or not (RFC 9000 8.1: the
# anti-amplification credit is defined that way); the only attribute excluded from the whole-connection digest besides the logs
HANDSHAKE_SKIP = ("bytes_received",)
PN_MAX = 1 << 62

# Findings of this check on the pinned tree.  They belong in the shared known_findings.json (see
# docs/C02.md "NEEDS"); until then they are registered here so that the known-finding path of
# vlib.core (KNOWN-FINDING line, evidence.known_findings_hit) is used for them and for nothing else.
LOCAL_KNOWN = [
    {"id": "C02-F1-v2-key-update-label", "property": "C02", "status": "open",
     "what": "crypto.py next_key_phase derives the next 1-RTT secret with label 'quic ku' also for QUIC version 2 "
             "(RFC 9369 3.3.2 / A.5 require 'quicv2 ku'): key-updated v2 packets are not recoverable by an RFC implementation",
     "match": {"site": "next_key_phase", "rule": "v2-ku-label"}},
    {"id": "C02-F2-truncated-pn-signed", "property": "C02", "status": "open",
     "what": "_crypto.c HeaderProtection_remove returns the uint32 truncated packet number through Py_BuildValue format 'i' "
             "(signed): 4-byte packet numbers with bit 31 set decode to the wrong full number when expected >= 2^32 "
             "(or > 2^31 below them) and the genuine packet is dropped",
     "match": {"site": "HeaderProtection_remove", "rule": "pn32-sign"}},
    {"id": "C02-F3-first-packet-assert", "property": "C02", "status": "open",
     "what": "receive_datagram raises AssertionError('first packet must be INITIAL') for a server in FIRSTFLIGHT when an "
             "altered Initial (length/type bits) makes a non-Initial packet the next one parsed (same defect as C05 F2)",
     "match": {"exception": "AssertionError", "site": "receive_datagram:first packet must be INITIAL"}},
]

SUITE_NAMES = ["AES_128_GCM_SHA256", "AES_256_GCM_SHA384", "CHACHA20_POLY1305_SHA256"]
SECRETS = [bytes((i * 37 + j * 11 + 5) % 256 for j in range(48)) for i in range(3)]


def _ver(v):
    return R.V1 if v == 1 else R.V2


def _aq_suite(name):
    from aioquic.tls import CipherSuite
    return getattr(CipherSuite, name)


def _secret(case):
    n = 48 if case["suite"] == "AES_256_GCM_SHA384" else 32
    return SECRETS[case["secret"]][:n]


_REFKEYS = {}


def ref_keys(suite, version, secret_idx, phase, as_implemented=False):
    """Keys of the reference for a key phase.  as_implemented: next-phase secrets derived with the
    label the implementation uses ('quic ku' for both versions) -- only for the model tables and for
    classifying a deviation."""
    k = (suite, version, secret_idx, phase, as_implemented)
    if k not in _REFKEYS:
        n = 48 if suite == "AES_256_GCM_SHA384" else 32
        keys = R.Keys(suite, SECRETS[secret_idx][:n], _ver(version))
        for _ in range(phase):
            keys = keys.next(label=probe()["v2_ku_label"] if as_implemented else None)
        _REFKEYS[k] = keys
    return _REFKEYS[k]


_PROBE = {}


def probe():
    """Which of the two known deviations the tree under check has.  The Coq model and the model-side
    key tables mirror the code AS IT IS (BUILDING.md); the two places where the pinned tree deviates
    from the RFCs are switchable so that the correspondence stays meaningful on a tree in which they
    are fixed.  The property oracles never use this: they always compare with the RFC behaviour."""
    if not _PROBE:
        from aioquic.quic.crypto import CryptoPair, next_key_phase
        k = R.Keys(SUITE_NAMES[0], SECRETS[0][:32], R.V2)
        p = CryptoPair()
        p.recv.setup(cipher_suite=_aq_suite(SUITE_NAMES[0]), secret=SECRETS[0][:32], version=R.V2)
        _PROBE["v2_ku_label"] = b"quic ku" if next_key_phase(p.recv).secret == k.next(label=b"quic ku").secret else None
        hdr = bytes([0x43]) + bytes(8) + bytes.fromhex("80000005")
        pkt = R.protect(k, hdr, bytes(30), 0x80000005)
        _PROBE["signed_pn"] = p.recv.hp.remove(pkt, 9)[1] < 0
    return _PROBE


def aq_pair(case, phase):
    """A fresh aioquic CryptoPair (send = recv = same secret) advanced to key phase `phase`."""
    from aioquic.quic.crypto import CryptoPair
    p = CryptoPair()
    cs = _aq_suite(case["suite"])
    p.send.setup(cipher_suite=cs, secret=_secret(case), version=_ver(case["version"]))
    p.recv.setup(cipher_suite=cs, secret=_secret(case), version=_ver(case["version"]))
    for _ in range(phase):
        p.update_key()
        p.encrypt_packet(bytes([0x40 | ((p.send.key_phase ^ 1) << 2)]) + bytes(8) + b"\x00", bytes(20), 0)
    return p


def case_bytes(case):
    """-> (plain header incl. truncated pn, payload), deterministic in the case."""
    rng = random.Random(case["seed"])
    pnl = case["pnl"]
    if case["long"]:
        first = 0xC0 | (rng.randrange(4) << 4) | (rng.randrange(4) << 2) | (pnl - 1)
    else:
        first = 0x40 | (rng.randrange(2) << 5) | (rng.randrange(4) << 3) | ((case["sphase"] & 1) << 2) | (pnl - 1)
    hdr = bytes([first]) + bytes(rng.randrange(256) for _ in range(case["hlen"] - 1))
    hdr += (case["pn"] % (1 << (8 * pnl))).to_bytes(pnl, "big")
    payload = bytes(rng.randrange(256) for _ in range(case["plen"]))
    return hdr, payload


def genuine_packet(case):
    hdr, payload = case_bytes(case)
    pkt = R.protect(ref_keys(case["suite"], case["version"], case["secret"], case["sphase"]), hdr, payload, case["pn"])
    if case.get("corrupt"):
        pos, m = case["corrupt"]
        b = bytearray(pkt)
        b[pos % len(b)] ^= m
        pkt = bytes(b)
    return pkt


# ------------------------------------------------------------------------------------ tokens
def tl(b):
    return [len(b)] + list(b)


def tab(entries):
    t = [len(entries)]
    for k, v in entries:
        t += [len(k)] + list(k) + [len(v)] + list(v)
    return t


def mask_tab(keys, data, lo, hi):
    out = []
    for o in range(max(0, lo), hi + 1):
        s = data[o:o + 16]
        if len(s) == 16:
            out.append((list(s), list(keys.mask(s))))
    return tab(out)


def akey(kid, nonce, ad, d):
    return [kid] + tl(nonce) + tl(ad) + tl(d)


def as_c_int(v):
    return v - (1 << 32) if v >= (1 << 31) else v


def code_decode(t, nbits, e):
    """Transliteration of the code's arithmetic, used ONLY to decide which AEAD answers to put in the
    table handed to the model (the answers themselves come from `cryptography`)."""
    w = 1 << nbits
    c = (e & ~(w - 1)) | t
    if c <= e - w // 2 and c < (1 << 62) - w:
        return c + w
    if c > e + w // 2 and c >= w:
        return c - w
    return c


def pt_encode(case):
    kind = case["kind"]
    suite, ver, si = case["suite"], case["version"], case["secret"]
    if kind == "apply":
        hdr, payload = case_bytes(case)
        keys = ref_keys(suite, ver, si, 0)
        return [1] + tl(hdr) + tl(payload) + mask_tab(keys, payload, 0, 4)
    if kind == "remove":
        pkt = genuine_packet(case)
        keys = ref_keys(suite, ver, si, 0)
        return [2 if probe()["signed_pn"] else 12] + tl(pkt) + [case["hlen"]] + mask_tab(keys, pkt, case["hlen"], case["hlen"] + 8)
    if kind == "nonce":
        keys = ref_keys(suite, ver, si, 0)
        return [3] + tl(keys.iv) + [case["pn"]]
    if kind == "enc":
        hdr, payload = case_bytes(case)
        keys = ref_keys(suite, ver, si, case["sphase"], as_implemented=True)
        t = [4] + tl(hdr) + tl(payload) + [case["pn"]] + tl(keys.iv)
        if len(payload) > 1500:
            return t + [0, 0]
        ct = keys.seal(case["pn"], hdr, payload)
        return t + mask_tab(keys, ct, 0, 4) + tab([(akey(0, keys.nonce(case["pn"]), hdr, payload), list(ct))])
    if kind == "dec":
        pkt = genuine_packet(case)
        off = case["hlen"]
        cur = ref_keys(suite, ver, si, case["rphase"], as_implemented=True)
        nxt = ref_keys(suite, ver, si, case["rphase"] + 1, as_implemented=True)
        # independent unmasking to know header / candidates (values only feed the oracle tables)
        mask = cur.mask(pkt[off + 4:off + 20])
        first = pkt[0] ^ (mask[0] & (0x0F if pkt[0] & 0x80 else 0x1F))
        pnl = (first & 3) + 1
        pnb = bytes(pkt[off + i] ^ mask[1 + i] for i in range(pnl))
        hdr = bytes([first]) + pkt[1:off] + pnb
        t_raw = int.from_bytes(pnb, "big")
        cands = {R.decode_pn(t_raw, 8 * pnl, case["expected"]), code_decode(t_raw, 8 * pnl, case["expected"]),
                 code_decode(as_c_int(t_raw), 8 * pnl, case["expected"]), case["pn"]}
        ct = pkt[off + pnl:]
        entries = []
        for kid, keys in ((0, cur), (1, nxt)):
            for c in sorted(cands):
                nonce = bytes(a ^ b for a, b in zip(keys.iv, (c % MOD64).to_bytes(12, "big")))
                p = keys.open_raw(nonce, hdr, ct)
                entries.append((akey(kid, nonce, hdr, ct), [] if p is None else [1] + list(p)))
        return ([5 if probe()["signed_pn"] else 15] + tl(pkt) + [off, case["expected"], case["rphase"] & 1] + tl(cur.iv) + tl(nxt.iv)
                + mask_tab(cur, pkt, off, off + 8) + tab(entries))
    raise ValueError(kind)


def pt_impl(case):
    from aioquic.quic.crypto import CryptoError
    kind = case["kind"]
    if kind == "apply":
        hdr, payload = case_bytes(case)
        return tl(aq_pair(case, 0).send.hp.apply(hdr, payload))
    if kind == "remove":
        h, t = aq_pair(case, 0).recv.hp.remove(genuine_packet(case), case["hlen"])
        return tl(h) + [t]
    if kind == "nonce":
        # the nonce _crypto.c used is not observable; it is identified through the primitive: the
        # ciphertext of AEAD.encrypt must equal `cryptography`'s ciphertext under IV xor pn (mod 2^64)
        hdr, payload = case_bytes(case)
        keys = ref_keys(case["suite"], case["version"], case["secret"], 0)
        ct = aq_pair(case, 0).send.aead.encrypt(payload, hdr, case["pn"] % MOD64)
        nonce = bytes(a ^ b for a, b in zip(keys.iv, (case["pn"] % MOD64).to_bytes(12, "big")))
        if keys.aead.encrypt(nonce, payload, hdr) != ct:
            return ["nonce-of-_crypto.c-differs-from-iv-xor-pn"]
        return tl(nonce)
    if kind == "enc":
        hdr, payload = case_bytes(case)
        try:
            return [1] + tl(aq_pair(case, case["sphase"]).encrypt_packet(hdr, payload, case["pn"]))
        except CryptoError:
            return [0]
    if kind == "dec":
        try:
            pair = aq_pair(case, case["rphase"])
            before = pair.recv.key_phase
            h, p, pn = pair.decrypt_packet(genuine_packet(case), case["hlen"], case["expected"])
            return [1] + tl(h) + tl(p) + [pn, int(pair.recv.key_phase != before)]
        except CryptoError:
            return [0]
    raise ValueError(kind)


def in_window(case):
    h = 1 << (8 * case["pnl"] - 1)
    return case["expected"] - h < case["pn"] <= case["expected"] + h


def pt_oracle_raw(case):
    """The property statement on the implementation, independent of the Coq model: packets protected
    by aioquic are what the reference produces and are opened bit-exactly by it, and vice versa;
    altered packets are rejected."""
    from aioquic.quic.crypto import CryptoError
    kind = case["kind"]
    suite, ver, si = case["suite"], case["version"], case["secret"]
    if kind in ("apply", "remove", "nonce"):
        if kind == "nonce":
            out = pt_impl(case)
            if out and isinstance(out[0], str):
                return ("AEAD nonce is not IV xor packet number", {"site": "AEAD_encrypt", "rule": "nonce"})
        return None
    hdr, payload = case_bytes(case)
    if len(hdr) + len(payload) + 16 > 1500:
        return None  # beyond datagram limits (CryptoError / C04 territory)
    if kind == "enc":
        try:
            pkt = aq_pair(case, case["sphase"]).encrypt_packet(hdr, payload, case["pn"])
        except CryptoError as e:
            return ("encrypt_packet raised CryptoError within limits: %s" % e, {"site": "encrypt_packet", "rule": "raise"})
        keys = ref_keys(suite, ver, si, case["sphase"])
        if pkt == R.protect(keys, hdr, payload, case["pn"]):
            try:
                h, p, pn, _ = R.unprotect(keys, pkt, case["hlen"], case["pn"], key_phase=case["sphase"] & 1)
            except R.AuthError:
                return ("reference cannot open its own packet", {"site": "c02_ref", "rule": "self"})
            if (h, p, pn) != (hdr, payload, case["pn"]):
                return ("reference round trip differs", {"site": "c02_ref", "rule": "self"})
            return None
        alt = ref_keys(suite, ver, si, case["sphase"], as_implemented=True)
        if ver == 2 and case["sphase"] > 0 and pkt == R.protect(alt, hdr, payload, case["pn"]):
            return ("v2 packet in key phase %d is protected with keys from label 'quic ku', not 'quicv2 ku'" % case["sphase"],
                    {"site": "next_key_phase", "rule": "v2-ku-label"})
        return ("packet protected by aioquic differs from the reference protection", {"site": "encrypt_packet", "rule": "differential"})
    if kind == "dec":
        pkt = genuine_packet(case)
        cur = ref_keys(suite, ver, si, case["rphase"])
        nxt = ref_keys(suite, ver, si, case["rphase"] + 1)
        try:
            exp = R.unprotect(cur, pkt, case["hlen"], case["expected"], next_keys=nxt, key_phase=case["rphase"] & 1)
            exp = (exp[0], exp[1], exp[2])
        except R.AuthError:
            exp = None
        # what the property demands
        genuine = not case.get("corrupt") and (case["long"] or case["sphase"] in (case["rphase"], case["rphase"] + 1))
        if genuine and in_window(case) and exp != (hdr, payload, case["pn"]):
            return ("reference does not recover a genuine in-window packet", {"site": "c02_ref", "rule": "self"})
        if case.get("corrupt") and exp is not None:
            return ("reference accepted an altered packet", {"site": "c02_ref", "rule": "self"})
        try:
            got = aq_pair(case, case["rphase"]).decrypt_packet(pkt, case["hlen"], case["expected"])
        except CryptoError:
            got = None
        if got == exp:
            return None
        if case.get("corrupt") and got is not None:
            return ("altered packet accepted by decrypt_packet", {"site": "decrypt_packet", "rule": "altered-accepted"})
        # classify known deviations
        uses_next = (not case["long"]) and (case["rphase"] > 0 or case["sphase"] != case["rphase"])
        if ver == 2 and uses_next:
            a_cur = ref_keys(suite, ver, si, case["rphase"], as_implemented=True)
            a_nxt = ref_keys(suite, ver, si, case["rphase"] + 1, as_implemented=True)
            a_pkt = pkt
            try:
                alt = R.unprotect(a_cur, a_pkt, case["hlen"], case["expected"], next_keys=a_nxt, key_phase=case["rphase"] & 1)[:3]
            except R.AuthError:
                alt = None
            if alt == got:
                return ("v2 key-updated packet: aioquic uses keys from label 'quic ku' (reference/RFC 9369: 'quicv2 ku')",
                        {"site": "next_key_phase", "rule": "v2-ku-label"})
        if case["pnl"] == 4:
            signed = lambda t, n, e: code_decode(as_c_int(t) if n == 32 else t, n, e)
            try:
                alt = R.unprotect(cur, pkt, case["hlen"], case["expected"], next_keys=nxt, key_phase=case["rphase"] & 1, decode=signed)[:3]
            except R.AuthError:
                alt = None
            if alt == got:
                return ("4-byte truncated pn 0x%x reaches decode_packet_number as a negative C int: expanded to %s instead of the closest "
                        "candidate %s (expected %d); %s" % (case["pn"] % (1 << 32), got[2] if got else "a non-matching number",
                                                             R.decode_pn(case["pn"] % (1 << 32), 32, case["expected"]), case["expected"],
                                                             "genuine packet dropped" if got is None else "packet outside the window accepted"),
                        {"site": "HeaderProtection_remove", "rule": "pn32-sign"})
        return ("decrypt_packet result differs from the reference: aioquic %s, reference %s"
                % ("rejects" if got is None else "accepts pn %d" % got[2], "rejects" if exp is None else "accepts pn %d" % exp[2]),
                {"site": "decrypt_packet", "rule": "differential"})
    return None


class Known:
    """Routes oracle failures that match a registered finding through ctx.violation (known-finding
    path) and hides only those from the suite's failure counter."""

    def __init__(self, ctx):
        self.ctx = ctx
        self.hits = collections.Counter()

    def is_known(self, sig):
        return any(k.get("property") == self.ctx.pid and k.get("status") == "open" and core._sig_match(k.get("match", {}), sig)
                   for k in self.ctx.known)

    def filter(self, res, case, kind="impl-violation"):
        if res and self.is_known(res[1]):
            self.hits[res[1].get("rule") or res[1].get("site")] += 1
            self.ctx.violation(kind, res[0], case, signature=res[1])
            return None
        return res


# ------------------------------------------------------------------------------------ generators
def pt_gen(rng, n, thorough=False):
    cases = []
    sizes = [0, 1, 2, 3, 4, 5, 16, 17, 31, 64, 100]
    for i in range(n):
        kind = ["apply", "remove", "nonce", "enc", "dec", "enc", "dec", "dec"][i % 8]
        pnl = rng.randint(1, 4)
        long_ = rng.random() < 0.4
        hlen = rng.choice([1, 2, 5, 9, 9, 9, 19, 21, 30, 47]) if not long_ else rng.choice([7, 18, 18, 26, 40, 47])
        r = rng.random()
        maxp = 1500 - 16 - hlen - pnl
        if r < 0.6:
            plen = rng.choice(sizes)
        elif r < 0.85:
            plen = rng.randint(0, 300)
        elif r < 0.95:
            plen = rng.randint(300, maxp)
        else:
            plen = maxp - rng.randint(0, 2)
        plen = max(plen, 4 - pnl)
        if kind in ("apply",):
            plen = max(plen, 20 - pnl)  # raw hp.apply is given the ciphertext: sample must exist
        w = 1 << (8 * pnl)
        # expected pn: boundary tables + random magnitudes
        e = rng.choice([0, 1, 2, 255, 256, w // 2 - 1, w // 2, w // 2 + 1, w - 1, w, w + 1, 3 * w + 7, (1 << 31) + 5,
                        (1 << 32) - 1, 1 << 32, (1 << 32) + (1 << 31) + 5, 1 << 40, PN_MAX - w - 1, PN_MAX - w, PN_MAX - 2,
                        PN_MAX - 1, rng.randrange(PN_MAX), rng.randrange(1 << 20), rng.randrange(1 << 34)])
        e = min(max(e, 0), PN_MAX - 1)
        h = w // 2
        q = rng.random()
        if q < 0.7:
            pn = e + rng.choice([0, 0, 1, -1, 2, h, h - 1, -(h - 1), rng.randint(-(h - 1), h)])
        elif q < 0.85:
            pn = e + rng.choice([-h, h + 1, -h - 1, w, -w, 3 * w])  # outside the window
        else:
            pn = rng.randrange(PN_MAX)
        pn = min(max(pn, 0), PN_MAX - 1)
        c = {"kind": kind, "suite": rng.choice(SUITE_NAMES), "version": rng.choice([1, 2]), "secret": rng.randrange(len(SECRETS)),
             "sphase": 0, "long": long_, "hlen": hlen, "pnl": pnl, "plen": plen, "pn": pn, "expected": e,
             "seed": rng.randrange(1 << 30)}
        if kind == "nonce":
            c["pn"] = rng.choice([pn, pn, rng.randrange(MOD64), MOD64 - 1, PN_MAX, -1, -rng.randrange(1, 1 << 33)])
            c["plen"] = min(c["plen"], 64)
        if kind == "enc":
            c["sphase"] = rng.choice([0, 0, 1, 1, 2]) if not long_ else 0
            if rng.random() < 0.02:
                c["plen"] = rng.randint(1501, 1510)
                c["hlen"] = 1
        if kind == "dec":
            c["rphase"] = rng.choice([0, 0, 1, 2]) if not long_ else 0
            c["sphase"] = c["rphase"] + (rng.choice([0, 0, 1]) if not long_ else 0)
            if rng.random() < 0.25:
                tot = hlen + pnl + c["plen"] + 16
                c["corrupt"] = [rng.randrange(tot), rng.choice([1, 2, 4, 8, 16, 32, 64, 128, rng.randrange(1, 256)])]
            elif rng.random() < 0.05 and not long_:
                c["sphase"] = c["rphase"] + 2   # a packet two phases ahead: not decryptable
        cases.append(c)
    return cases


def pt_nontrivial(case, out):
    return case["kind"] in ("enc", "dec") and len(out) > 1 or case["kind"] in ("apply", "remove", "nonce")


# ---- packet number suite
def pn_encode(c):
    return [c["t"], c["n"], c["e"]]


def pn_impl(c):
    from aioquic.quic.packet import decode_packet_number
    return [decode_packet_number(c["t"], c["n"], c["e"])]


def pn_oracle(c):
    """RFC 9000 A.3 as a property: among all candidates in [0, 2^62) with the transmitted low bits the
    closest to expected, the larger one on a tie (brute force over the neighbouring candidates)."""
    from aioquic.quic.packet import decode_packet_number
    t, n, e = c["t"], c["n"], c["e"]
    if n not in (8, 16, 24, 32) or not (0 <= e < PN_MAX) or not (0 <= t < (1 << n)):
        return None
    r = decode_packet_number(t, n, e)
    w = 1 << n
    if not (0 <= r < PN_MAX) or r % w != t:
        return ("decoded packet number %d is not a packet number with low bits 0x%x" % (r, t), {"site": "decode_packet_number", "rule": "residue"})
    base = e - e % w + t
    for k in range(-3, 4):
        cand = base + k * w
        if 0 <= cand < PN_MAX and (abs(cand - e) < abs(r - e) or (abs(cand - e) == abs(r - e) and cand > r)):
            return ("decoded %d but candidate %d is closer to expected %d" % (r, cand, e), {"site": "decode_packet_number", "rule": "closest"})
    if r != R.decode_pn(t, n, e):
        return ("reference decodes %d, aioquic %d" % (R.decode_pn(t, n, e), r), {"site": "decode_packet_number", "rule": "differential"})
    return None


def pn_gen(rng, n):
    cases = []
    for _ in range(n):
        nb = rng.choice([8, 16, 24, 32])
        w = 1 << nb
        e = rng.choice([rng.randrange(PN_MAX), rng.randrange(4 * w), PN_MAX - 1 - rng.randrange(3 * w), rng.randrange(1 << 33),
                        w * rng.randrange(1, 1000) + rng.choice([0, 1, w // 2 - 1, w // 2, w // 2 + 1, w - 1])])
        e = min(max(e, 0), PN_MAX - 1)
        t = rng.choice([rng.randrange(w), (e + rng.choice([0, 1, -1, w // 2, w // 2 + 1, w // 2 - 1, -(w // 2), -(w // 2) - 1])) % w, 0, w - 1])
        cases.append({"t": t, "n": nb, "e": e})
    for _ in range(n // 20):   # outside the stated domain: only model == code is compared
        cases.append({"t": rng.choice([-1, -rng.randrange(1 << 33), rng.randrange(1 << 40)]), "n": rng.choice([0, 1, 7, 8, 32, 33, 62, 64]),
                      "e": rng.choice([rng.randrange(PN_MAX), PN_MAX, PN_MAX + 5, -3])})
    return cases


def pn_exhaustive(es):
    for e in es:
        for t in range(256):
            yield {"t": t, "n": 8, "e": e}


# ------------------------------------------------------------------------------------ fixed corpus
def run_vectors(ctx, known, cov):
    """RFC 9001 Appendix A / RFC 9369 Appendix A."""
    from aioquic.quic.crypto import CryptoPair, CryptoError, next_key_phase
    from aioquic.quic.packet import get_retry_integrity_tag
    n = 0
    for v in corr.load_corpus("C02", "vectors"):
        n += 1
        ver = _ver(v["version"])
        bad = None
        if v["kind"] == "retry":
            pkt, odcid = bytes.fromhex(v["packet"]), bytes.fromhex(v["odcid"])
            if not R.retry_ok(ver, odcid, pkt):
                bad = "reference rejects the RFC Retry vector"
            elif get_retry_integrity_tag(pkt[:-16], odcid, ver) != pkt[-16:]:
                bad = "aioquic computes a different Retry integrity tag"
        elif v["kind"] == "ku":
            secret = bytes.fromhex(v["secret"])
            if R.Keys(v["suite"], secret, ver).next().secret.hex() != v["ku"]:
                bad = "reference derives a different next secret"
            else:
                p = CryptoPair()
                p.recv.setup(cipher_suite=_aq_suite(v["suite"]), secret=secret, version=ver)
                got = next_key_phase(p.recv).secret.hex()
                if got != v["ku"]:
                    res = ("RFC %s A.5 key-update vector: next secret is %s, aioquic derives %s" % (v["name"], v["ku"], got),
                           {"site": "next_key_phase", "rule": "v2-ku-label" if v["version"] == 2 else "ku"})
                    if known.filter(res, v):
                        ctx.violation("impl-violation", "vectors: " + res[0], v, signature=res[1])
        else:
            hdr, payload, pkt = bytes.fromhex(v["header"]), bytes.fromhex(v["payload"]), bytes.fromhex(v["packet"])
            off = len(hdr) - ((hdr[0] & 3) + 1)
            expected = v["pn"] if v["kind"] == "secret" else 0
            if v["kind"] == "initial":
                ck, sk = R.initial_keys(ver, bytes.fromhex(v["dcid"]))
                keys = ck if v["side"] == "client" else sk
                pair = CryptoPair()
                pair.setup_initial(bytes.fromhex(v["dcid"]), is_client=(v["side"] == "client"), version=ver)
                pair.recv, peer = pair.send, pair.recv   # decrypt own direction
            else:
                keys = R.Keys(v["suite"], bytes.fromhex(v["secret"]), ver)
                pair = CryptoPair()
                pair.send.setup(cipher_suite=_aq_suite(v["suite"]), secret=bytes.fromhex(v["secret"]), version=ver)
                pair.recv.setup(cipher_suite=_aq_suite(v["suite"]), secret=bytes.fromhex(v["secret"]), version=ver)
            if R.protect(keys, hdr, payload, v["pn"]) != pkt or R.unprotect(keys, pkt, off, expected)[:3] != (hdr, payload, v["pn"]):
                bad = "reference does not reproduce the RFC vector"
            else:
                try:
                    if pair.send.encrypt_packet(hdr, payload, v["pn"]) != pkt:
                        bad = "aioquic protects the RFC plaintext differently"
                    elif tuple(pair.recv.decrypt_packet(pkt, off, expected)[:3]) != (hdr, payload, v["pn"]):
                        bad = "aioquic opens the RFC packet differently"
                except CryptoError as e:
                    bad = "aioquic CryptoError on RFC vector: %s" % e
        if bad:
            ctx.violation("impl-violation", "vectors: %s (%s)" % (bad, v["name"]), v, signature={"site": "rfc-vector", "rule": v["name"]})
    cov["rfc_vectors"] = n
    return n


# ------------------------------------------------------------------------------------ connection level
_CERT = None


def _cert():
    global _CERT
    if _CERT is None:
        from cryptography import x509
        from cryptography.x509.oid import NameOID
        from cryptography.hazmat.primitives import hashes
        from cryptography.hazmat.primitives.asymmetric import ec
        key = ec.generate_private_key(ec.SECP256R1())
        name = x509.Name([x509.NameAttribute(NameOID.COMMON_NAME, "localhost")])
        t0 = datetime.datetime(2026, 1, 1)
        cert = (x509.CertificateBuilder().subject_name(name).issuer_name(name).public_key(key.public_key())
                .serial_number(1).not_valid_before(t0).not_valid_after(t0 + datetime.timedelta(days=3650))
                .add_extension(x509.SubjectAlternativeName([x509.DNSName("localhost")]), critical=False)
                .sign(key, hashes.SHA256()))
        _CERT = (cert, key)
    return _CERT


CLIENT_ADDR = ("192.0.2.1", 4321)
SERVER_ADDR = ("192.0.2.2", 4433)


def snap(x):
    """State of an endpoint as visible through the public API (get_timer, host_cid, stream ids) plus
    the handshake / packet-space / key-phase state the property sentence names."""
    d = {"timer": x.get_timer(), "state": x._state.name, "handshake_complete": x._handshake_complete,
         "handshake_confirmed": x._handshake_confirmed, "close_pending": x._close_pending, "close_event": repr(x._close_event),
         "version": x._version, "retry_count": x._retry_count, "peer_cid": x._peer_cid.cid.hex(), "host_cid": x.host_cid.hex(),
         "next_stream_id": x.get_next_available_stream_id(), "peer_token": x._peer_token.hex()}
    if hasattr(x, "tls"):
        d["tls"] = x.tls.state.name
    for ep, sp in getattr(x, "_spaces", {}).items():
        d["space_%s" % ep.name] = (sp.expected_packet_number, sp.largest_received_packet, len(sp.ack_queue), sp.ack_at)
    for ep, cr in getattr(x, "_cryptos", {}).items():
        d["keys_%s" % ep.name] = (cr.recv.key_phase, cr.recv.is_valid(), cr.send.is_valid())
    d["streams"] = sorted((sid, s.receiver.highest_offset, s.receiver.is_finished) for sid, s in x._streams.items())
    return d


FRESH_SERVER = {"version", "tls", "space_INITIAL", "space_HANDSHAKE", "space_ONE_RTT", "keys_INITIAL", "keys_ZERO_RTT",
                "keys_HANDSHAKE", "keys_ONE_RTT", "timer"}


class Endpoint:
    def __init__(self, conn, is_server, addr_of_peer):
        self.conn, self.is_server, self.peer_addr = conn, is_server, addr_of_peer
        self.pending = []      # datagrams drained early while quiescing
        self.events = []

    def drain(self, now):
        if self.conn._network_paths:
            self.pending += [d for d, _ in self.conn.datagrams_to_send(now=now)]
        while True:
            e = self.conn.next_event()
            if e is None:
                break
            self.events.append(e)

    def out(self, now):
        self.drain(now)
        o, self.pending = self.pending, []
        return o

    def n_received(self):
        return sum(1 for e in self.conn._quic_logger._events if e["name"] == "transport:packet_received")

    def drops(self, n0):
        ev = self.conn._quic_logger._events
        out = [ev[i]["data"].get("trigger") for i in range(n0, len(ev)) if ev[i]["name"] == "transport:packet_dropped"]
        return out or ["no-log"]


class Observer:
    """Wire observer: the independent implementation unprotects (and re-protects) every packet."""

    def __init__(self, sc, suite_name, version, secrets_io):
        self.sc, self.suite, self.version, self.io = sc, suite_name, version, secrets_io
        self.init_dcid = None
        self.largest = collections.defaultdict(lambda: -1)
        self.k1 = {}           # direction -> [Keys, phase]
        self.gen = {}          # direction -> number of key updates seen in that direction

    def secret(self, label):
        for line in self.io.getvalue().splitlines():
            f = line.split()
            if len(f) == 3 and f[0] == label:
                return bytes.fromhex(f[2])
        return None

    def keys_for(self, direction, p):
        cl = direction == "c>s"
        if p["type"] == "initial":
            if cl and self.init_dcid is None:
                self.init_dcid = bytes(p["dcid"])
            ck, sk = R.initial_keys(self.version, self.init_dcid)
            return (ck if cl else sk), None
        if p["type"] == "handshake":
            s = self.secret("CLIENT_HANDSHAKE_TRAFFIC_SECRET" if cl else "SERVER_HANDSHAKE_TRAFFIC_SECRET")
            return R.Keys(self.suite, s, self.version), None
        if p["type"] == "1rtt":
            if direction not in self.k1:
                s = self.secret("CLIENT_TRAFFIC_SECRET_0" if cl else "SERVER_TRAFFIC_SECRET_0")
                self.k1[direction] = [R.Keys(self.suite, s, self.version), 0]
            return self.k1[direction][0], self.k1[direction][1]
        return None, None

    def observe(self, direction, raw, p):
        """-> None or (what, signature).  Also returns the plaintext through self.last."""
        self.last = None
        keys, phase = self.keys_for(direction, p)
        if keys is None:
            return ("no keys for %s packet" % p["type"], {"site": "wire-observer", "rule": "keys"})
        space = (direction, "app" if p["type"] == "1rtt" else p["type"])
        try:
            nxt = keys.next() if phase is not None else None
            h, pl, pn, used_next = R.unprotect(keys, raw, p["pn_offset"], self.largest[space] + 1, next_keys=nxt, key_phase=phase or 0)
        except R.AuthError:
            if phase is not None and self.version == R.V2:
                try:
                    alt = keys.next(label=b"quic ku")
                    h, pl, pn, used_next = R.unprotect(keys, raw, p["pn_offset"], self.largest[space] + 1, next_keys=alt, key_phase=phase)
                    if used_next:
                        self.k1[direction] = [alt, phase ^ 1]
                        self.gen[direction] = self.gen.get(direction, 0) + 1
                        self.largest[space] = max(self.largest[space], pn)
                        self.last = (h, pl, pn)
                        return ("emitted v2 1-RTT packet after a key update opens only with keys derived via 'quic ku' (RFC 9369: 'quicv2 ku')",
                                {"site": "next_key_phase", "rule": "v2-ku-label"})
                except R.AuthError:
                    pass
            return ("emitted %s packet is not opened by the independent implementation" % p["type"],
                    {"site": "wire-observer", "rule": "open", "type": p["type"]})
        k = keys
        if used_next:
            self.k1[direction] = [nxt, phase ^ 1]
            self.gen[direction] = self.gen.get(direction, 0) + 1
            k = nxt
        self.largest[space] = max(self.largest[space], pn)
        self.last = (h, pl, pn)
        if R.protect(k, h, pl, pn) != raw:
            return ("re-protecting the recovered %s packet does not give the emitted bytes" % p["type"],
                    {"site": "wire-observer", "rule": "reprotect", "type": p["type"]})
        return None


class Scenario:
    def __init__(self, ctx, known, stats, name, version, suite, allbits, retry=False, key_update=False, mutate=True):
        self.ctx, self.known, self.stats, self.name = ctx, known, stats, name
        self.version, self.suite_name, self.allbits = _ver(version), suite, allbits
        self.retry, self.key_update, self.mutate = retry, key_update, mutate
        self.rng = random.Random(ctx.rng.randrange(1 << 62))
        self.now = 1000.0
        self.aborted = False
        self.sample = None
        self.reported = collections.Counter()
        self.seen_types = collections.Counter()

    def make(self):
        from aioquic.quic.configuration import QuicConfiguration
        from aioquic.quic.connection import QuicConnection
        from aioquic.quic.logger import QuicLogger
        cs = [_aq_suite(self.suite_name)]
        self.secrets = io.StringIO()
        cc = QuicConfiguration(is_client=True, alpn_protocols=["c02"], verify_mode=ssl.CERT_NONE, cipher_suites=cs,
                               original_version=self.version, supported_versions=[self.version], secrets_log_file=self.secrets,
                               quic_logger=QuicLogger())
        self.sc = QuicConfiguration(is_client=False, alpn_protocols=["c02"], cipher_suites=cs, supported_versions=[self.version],
                                    quic_logger=QuicLogger(), secrets_log_file=self.secrets)
        self.sc.certificate, self.sc.private_key = _cert()
        c = QuicConnection(configuration=cc)
        self.client = Endpoint(c, False, SERVER_ADDR)
        self.obs = Observer(self.sc, self.suite_name, self.version, self.secrets)
        self.odcid = c.original_destination_connection_id
        if not self.retry:
            self.new_server(self.odcid, None)
        else:
            self.server = None
        c.connect(SERVER_ADDR, now=self.now)

    def new_server(self, odcid, retry_scid):
        from aioquic.quic.connection import QuicConnection
        s = QuicConnection(configuration=self.sc, original_destination_connection_id=odcid, retry_source_connection_id=retry_scid)
        self.server = Endpoint(s, True, CLIENT_ADDR)

    # -- reporting
    def violation(self, what, sig, case):
        res = self.known.filter((what, sig), case)
        if res:
            self.stats["violations"] += 1
            key = (sig.get("site"), sig.get("rule"), sig.get("exception"))
            self.reported[key] += 1
            if self.reported[key] > 2:      # one replay file per kind of failure and scenario is enough
                return
            self.ctx.violation("impl-violation", "connection[%s]: %s" % (self.name, what), case, signature=sig)

    def case_of(self, x, direction, ptype, idx, pos, mask, raw):
        return {"scenario": self.name, "receiver": "server" if x.is_server else "client", "direction": direction,
                "packet_type": ptype, "packet_index": idx, "byte": pos, "mask": mask, "state": x.conn._state.name,
                "packet_len": len(raw), "packet_prefix": raw[:48].hex()}

    # -- one datagram
    def deliver(self, x, direction, dgram):
        packets = R.split_datagram(dgram, 8)
        for idx, p in enumerate(packets):
            raw = dgram[p["start"]:p["end"]]
            st = self.stats
            if p["type"] == "retry":
                self.deliver_packet(x, direction, p, raw, idx)
                continue
            if p["type"] in ("initial", "handshake", "1rtt"):
                bad = self.obs.observe(direction, raw, p)
                st["observed"] += 1
                if bad:
                    self.violation(bad[0], bad[1], self.case_of(x, direction, p["type"], idx, None, None, raw))
            self.deliver_packet(x, direction, p, raw, idx)

    def wrap(self, x, p, b):
        if x.is_server and p["type"] == "initial" and len(b) < 1200:
            return b + bytes(1200 - len(b))
        return b

    def deliver_packet(self, x, direction, p, raw, idx):
        st = self.stats
        conn = x.conn
        if self.mutate and not self.aborted:
            x.drain(self.now)
            self.mutate_packet(x, direction, p, raw, idx)
        if p["type"] == "garbage":
            return
        # the genuine packet
        before = x.n_received()
        s0 = snap(conn)
        n0 = len(conn._quic_logger._events)
        conn.receive_datagram(self.wrap(x, p, raw), x.peer_addr, now=self.now)
        accepted = x.n_received() == before + 1
        if not accepted and x.drops(n0) == ["key_unavailable"] and not s0.get("keys_%s" % {"initial": "INITIAL", "handshake": "HANDSHAKE"}.get(p["type"], "ONE_RTT"), (0, True))[1]:
            # a retransmission for an epoch whose keys the receiver has already discarded (RFC 9001 4.9)
            st["genuine_for_discarded_keys"] += 1
            accepted = True
        if p["type"] == "retry":
            accepted = snap(conn)["retry_count"] == s0["retry_count"] + 1
        st["genuine"] += 1
        if not accepted and p["type"] == "1rtt" and self.obs.last is not None and direction in self.obs.k1:
            cr = [c for ep, c in conn._cryptos.items() if ep.name == "ONE_RTT"][0]
            if ((self.obs.last[0][0] >> 2) & 1) != cr.recv.key_phase and self.obs.gen.get(direction, 0) < self.gen_of(x):
                # packet of the previous key phase arriving after the receiver itself updated: aioquic keeps no old read keys
                # (RFC 9001 6.5 SHOULD); treated by the peer as loss.  Unrelated to the altered copies.
                st["old_phase_genuine_dropped"] += 1
                accepted = True
        if not accepted:
            st["genuine_not_accepted"] += 1
            self.violation("genuine %s packet not accepted after the altered copies" % p["type"],
                           {"site": "receive_datagram", "rule": "genuine-rejected", "type": p["type"]},
                           self.case_of(x, direction, p["type"], idx, None, None, raw))

    def mutate_packet(self, x, direction, p, raw, idx):
        st = self.stats
        conn = x.conn
        s0 = snap(conn)
        f0 = T.crypto_fast(conn)                 # protection state, every attribute (per altered copy)
        c0 = T.crypto_digest(conn, deep=True)    # the same, recursively and by behaviour (per packet)
        # everything the connection holds except its logs (per packet); not for a server that has seen nothing yet (it builds its
        # receive machinery on the first datagram, before authentication: "fresh_server_setup" below)
        w0 = None if (x.is_server and s0["state"] == "FIRSTFLIGHT") else T.conn_digest(conn, also_skip=HANDSHAKE_SKIP)
        seen_before = self.seen_types[(direction, p["type"])]
        self.seen_types[(direction, p["type"])] += 1
        for pos in range(len(raw)):
            # all 8 single-bit flips: everywhere in the first packet of each (direction, type), afterwards in the header
            # region and the tag; the interior of later packets of the same type gets one random mask per byte
            full = self.allbits and (seen_before == 0 or pos < 48 or pos >= len(raw) - 16)
            masks = [1 << b for b in range(8)] if full else [self.rng.randrange(1, 256)]
            for m in masks:
                b = bytearray(raw)
                b[pos] ^= m
                if (b[0] & 0x80) and len(b) >= 5 and b[1:5] == bytes(4):
                    st["excluded_version_negotiation"] += 1   # becomes an (unauthenticated by design) VN packet
                    continue
                st["mutants"] += 1
                st["mutants_%s" % p["type"]] += 1
                lg = conn._quic_logger._events
                n0 = len(lg)
                try:
                    conn.receive_datagram(self.wrap(x, p, bytes(b)), x.peer_addr, now=self.now)
                except Exception as ex:
                    case = self.case_of(x, direction, p["type"], idx, pos, m, raw)
                    site = "receive_datagram"
                    if isinstance(ex, AssertionError) and "first packet must be INITIAL" in str(ex):
                        site = "receive_datagram:first packet must be INITIAL"
                    self.violation("altered packet made receive_datagram raise %s: %s" % (type(ex).__name__, ex),
                                   {"exception": type(ex).__name__, "site": site}, case)
                    st["raised"] += 1
                    if site == "receive_datagram":
                        self.aborted = True
                        return
                    continue
                triggers = x.drops(n0)
                trigger = triggers[0]
                st["drop_" + str(trigger)] += 1
                while len(lg) > n0:      # keep the qlog as if the altered copies had never arrived (bounded memory)
                    lg.pop()
                ev = conn.next_event()
                out = conn.datagrams_to_send(now=self.now) if conn._network_paths else []
                s1 = snap(conn)
                diff = {k: (s0.get(k), s1.get(k)) for k in set(s0) | set(s1) if s0.get(k) != s1.get(k)}
                if diff and x.is_server and s0["state"] == "FIRSTFLIGHT" and s1["state"] == "FIRSTFLIGHT" and set(diff) <= FRESH_SERVER \
                        and all(s0.get(k) is None for k in diff):
                    # a server that has seen nothing yet sets up its (empty) receive machinery and arms the idle
                    # timer on the first datagram, before authentication; nothing of it is observable
                    st["fresh_server_setup"] += 1
                    s0, diff = s1, {}
                if "key_unavailable" in triggers and not x.is_server and ev is None and set(diff) <= {"timer"} and out \
                        and not getattr(x, "probe_seen", False):
                    # RFC 9002 6.2.3: a client that gets an undecryptable Handshake/1-RTT packet before it has the keys
                    # may retransmit its Initial once (connection.py _crypto_retransmitted).  One-shot, the packets are genuine.
                    x.probe_seen = True
                    x.pending += [d for d, _ in out]
                    st["key_unavailable_probe"] += 1
                    s0, out, diff = s1, [], {}
                    w0 = None        # the one allowed reaction (declares its Initial lost, retransmits): not compared for this packet
                if ev is not None or out or diff:
                    case = self.case_of(x, direction, p["type"], idx, pos, m, raw)
                    what = "altered %s packet (byte %d xor 0x%02x) was not discarded silently: drop triggers=%s event=%s datagrams=%d state changes=%s" % (
                        p["type"], pos, m, triggers, type(ev).__name__ if ev else None, len(out), diff)
                    self.violation(what, {"site": "receive_datagram", "rule": "altered-accepted", "type": p["type"]}, case)
                    self.aborted = True
                    return
                if T.crypto_fast(conn) != f0:
                    if st["fresh_server_setup"] and x.is_server and s1["state"] == "FIRSTFLIGHT":
                        f0, c0 = T.crypto_fast(conn), T.crypto_digest(conn, deep=True)    # (re)created Initial keys of a fresh server
                        continue
                    case = self.case_of(x, direction, p["type"], idx, pos, m, raw)
                    d = T.digest_diff(c0, T.crypto_digest(conn, deep=True)) or ["an attribute object was replaced by an equal one"]
                    self.violation("altered %s packet (byte %d xor 0x%02x) was dropped (%s) but changed the receiver's packet protection state: %s"
                                   % (p["type"], pos, m, triggers, "; ".join(d)),
                                   {"site": "decrypt_packet", "rule": "rejected-packet-changed-crypto-state", "type": p["type"]}, case)
                    st["crypto_state_changed"] += 1
                    self.aborted = True
                    return
        st["crypto_digests"] += 1
        c1 = T.crypto_digest(conn, deep=True)
        if c1 != c0:
            self.violation("the altered copies of a %s packet changed the receiver's packet protection state: %s" % (p["type"], "; ".join(T.digest_diff(c0, c1))),
                           {"site": "decrypt_packet", "rule": "rejected-packet-changed-crypto-state", "type": p["type"]},
                           self.case_of(x, direction, p["type"], idx, None, None, raw))
            self.aborted = True
            return
        if w0 is not None:
            st["connection_digests"] += 1
            w1 = T.conn_digest(conn, also_skip=HANDSHAKE_SKIP)
            if w1 != w0:
                self.violation("the altered copies of a %s packet changed the receiver's state: %s" % (p["type"], "; ".join(T.digest_diff(w0, w1))),
                               {"site": "receive_datagram", "rule": "rejected-packet-changed-state", "type": p["type"]},
                               self.case_of(x, direction, p["type"], idx, None, None, raw))
                self.aborted = True

    def gen_of(self, x):
        """number of key updates the endpoint has performed (observer's view of what it SENT)"""
        return self.obs.gen.get("s>c" if x.is_server else "c>s", 0)

    def do_retry(self, dgram):
        """What aioquic.asyncio.server does for a token-less Initial when retry is enabled."""
        from aioquic.quic.packet import encode_quic_retry
        p = R.split_datagram(dgram, 8)[0]
        scid = bytes(self.rng.randrange(256) for _ in range(8))
        token = b"c02-retry-token-" + bytes(self.rng.randrange(256) for _ in range(16))
        retry = encode_quic_retry(version=self.version, source_cid=scid, destination_cid=bytes(p["scid"]),
                                  original_destination_cid=bytes(p["dcid"]), retry_token=token)
        if not R.retry_ok(self.version, bytes(p["dcid"]), retry):
            self.violation("emitted Retry fails the independent integrity check", {"site": "wire-observer", "rule": "retry"},
                           {"scenario": self.name, "packet": retry.hex()})
        self.stats["observed"] += 1
        self.deliver(self.client, "s>c", retry)
        self.new_server(bytes(p["dcid"]), scid)
        self.obs.init_dcid = None   # Initial keys now come from the Retry's source connection id

    def run(self):
        from aioquic.quic import events
        self.make()
        c = self.client
        data = bytes(self.rng.randrange(256) for _ in range(2600))
        step = 0
        for rnd in range(18):
            for d in c.out(self.now):
                if self.server is None:
                    self.do_retry(d)
                    break
                self.deliver(self.server, "c>s", d)
            if self.server is not None:
                for d in self.server.out(self.now):
                    self.deliver(c, "s>c", d)
            self.now += 0.05
            for x in (c, self.server):
                if x is not None and x.conn._network_paths:
                    t = x.conn.get_timer()
                    if t is not None and t <= self.now:
                        x.conn.handle_timer(now=self.now)
            if c.conn._handshake_complete and self.server.conn._handshake_complete and rnd >= 3:
                step += 1
                if step == 1:
                    self.sid = c.conn.get_next_available_stream_id()
                    c.conn.send_stream_data(self.sid, data[:1300], end_stream=False)
                elif step == 3:
                    if self.key_update:
                        c.conn.request_key_update()
                    c.conn.send_stream_data(self.sid, data[1300:], end_stream=True)
                elif step == 6:
                    self.server.conn.send_stream_data(self.sid, b"pong" * 50, end_stream=True)
        for x in (c, self.server):
            x.drain(self.now)
        got = b"".join(e.data for e in self.server.events if isinstance(e, events.StreamDataReceived))
        back = b"".join(e.data for e in c.events if isinstance(e, events.StreamDataReceived))
        names = lambda x: [type(e).__name__ for e in x.events]
        ok = (got == data and back == b"pong" * 50 and "HandshakeCompleted" in names(c) and "HandshakeCompleted" in names(self.server)
              and "ConnectionTerminated" not in names(c) + names(self.server))
        if not ok and not self.aborted:
            self.violation("scenario did not complete: client events %s, server events %s, %d/%d bytes delivered" % (
                collections.Counter(names(c)), collections.Counter(names(self.server)), len(got), len(data)),
                {"site": "scenario", "rule": "incomplete"}, {"scenario": self.name})
        if self.key_update and snap(self.server.conn).get("keys_ONE_RTT", (0,))[0] != 1:
            self.violation("key update did not take place", {"site": "scenario", "rule": "no-key-update"}, {"scenario": self.name})
        self.events = (names(c), names(self.server))
        if ok:
            self.puppet()
        self.stats["scenarios"] += 1
        return ok

    def puppet(self):
        """Packets protected by the independent implementation with the client's keys are accepted: a 4-byte
        encoding, then 1- and 2-byte encodings exactly at the upper edge of the decoding window
        (pn = expected + 2^(bits-1), expected = largest received + 1)."""
        if "c>s" not in self.obs.k1:
            return
        keys, phase = self.obs.k1["c>s"]
        s = self.server
        sp = [sp for ep, sp in s.conn._spaces.items() if ep.name == "ONE_RTT"][0]
        for pnl, delta in ((4, self.rng.randrange(1, 200)), (1, 128), (2, 32768), (3, 1 << 23)):
            s.drain(self.now)
            pn = self.obs.largest[("c>s", "app")] + 1 + delta
            first = 0x40 | (phase << 2) | (pnl - 1)
            hdr = bytes([first]) + s.conn.host_cid + (pn % (1 << (8 * pnl))).to_bytes(pnl, "big")
            pkt = R.protect(keys, hdr, b"\x01" + bytes(self.rng.randrange(3, 40)), pn)
            before = s.n_received()
            s.conn.receive_datagram(pkt, CLIENT_ADDR, now=self.now)
            self.stats["reference_protected_fed"] += 1
            if s.n_received() != before + 1 or sp.largest_received_packet != pn:
                self.violation("a packet protected by the independent implementation (pn %d = expected + %d, %d-byte encoding) is not accepted"
                               % (pn, delta, pnl), {"site": "receive_datagram", "rule": "reference-packet-rejected"},
                               {"scenario": self.name, "pn": pn, "pn_len": pnl, "delta": delta})
                return
            self.obs.largest[("c>s", "app")] = pn


def run_connection(ctx, known, cov):
    st = collections.Counter()
    t0 = time.time()
    plan = []
    q = not ctx.thorough
    # (name, version, suite, allbits, retry, key_update)
    plan.append(("v1-aes128", 1, SUITE_NAMES[0], True, False, False))
    plan.append(("v1-chacha20-keyupdate", 1, SUITE_NAMES[2], True, False, True))
    plan.append(("v2-aes256-retry", 2, SUITE_NAMES[1], True, True, False))
    plan.append(("v1-aes128-retry", 1, SUITE_NAMES[0], not q, True, False))
    plan.append(("v2-aes128-keyupdate", 2, SUITE_NAMES[0], not q, False, True))
    if ctx.thorough:
        for v in (1, 2):
            for s in SUITE_NAMES:
                plan.append(("v%d-%s-all" % (v, s), v, s, True, v == 2, True))
    samples = []
    events_of = {}
    for name, v, s, allbits, retry, ku in plan:
        if ctx.budget_scale < 0.2 and len(samples) >= 2:
            break
        sc = Scenario(ctx, known, st, name, v, s, allbits, retry=retry, key_update=ku)
        try:
            sc.run()
        except Exception as e:
            import traceback
            st["scenario_exceptions"] += 1
            ctx.violation("impl-violation", "connection[%s]: scenario raised %r" % (name, e), {"scenario": name},
                          signature={"site": "scenario", "exception": type(e).__name__},
                          extra={"traceback": traceback.format_exc()[-2000:]})
            continue
        samples.append({"scenario": name, "client_events": sc.events[0][:6], "server_events": sc.events[1][:6]})
        events_of[name] = sc.events
    # control run without mutants: same event sequences as the run of the same configuration with all its altered copies
    for name, v, s, allbits, retry, ku in plan[:2]:
        a = Scenario(ctx, known, collections.Counter(), name + "-control", v, s, False, retry=retry, key_update=ku, mutate=False)
        a.run()
        if name in events_of and a.events != events_of[name]:
            ctx.violation("impl-violation", "connection[%s]: event sequence with interleaved altered packets differs from the control run: %s vs %s"
                          % (name, events_of[name], a.events), {"scenario": name}, signature={"site": "scenario", "rule": "control-differs"})
        st["control_runs"] += 1
    cov["connection"] = {k: v for k, v in sorted(st.items())}
    cov["connection"]["wall_s"] = round(time.time() - t0, 2)
    cov["connection"]["samples"] = samples
    return st



# ------------------------------------------------------------------------------------ long-sighted oracles
def twin_cases(ctx):
    """Groups of paired runs: (seed, version, suite, receiver, plan) x kinds of inauthentic packet."""
    rng = ctx.rng
    n_sys = 20                                   # 4 continuation skeletons x 5 prefixes (all key-update orders)
    n_rand = ctx.n(24, 160)
    if ctx.budget_scale < 0.2:
        n_sys, n_rand = 8, 4
    groups = []
    i = 0
    for recv in ("server", "client"):
        for si in list(range(n_sys)) + [None] * (n_rand // 2):
            plan = T.gen_plan(rng, recv, systematic=si)
            kinds = list(T.KINDS)
            if any(o.endswith(".ku") for o in plan["prefix"]):
                kinds += ["old:0", "old:1"]      # genuine packets of a generation the receiver has left
            if si is None:                       # random plans: a random half of the kinds (bit 2 = key phase always)
                kinds = ["bit0:2"] + rng.sample(kinds[1:], 5)
            groups.append({"twin": True, "seed": rng.randrange(1 << 30), "version": 1 + i % 2, "suite": SUITE_NAMES[i % 3], "plan": plan,
                           "kinds": kinds, "irng": rng.randrange(1 << 30)})
            i += 1
    return groups


def run_twin(ctx, known, cov):
    import sim  # noqa: F401  (imported here: the overlay of the tree under check is active now)
    st = collections.Counter()
    t0 = time.time()
    reported = collections.Counter()
    for g in twin_cases(ctx):
        try:
            res = T.run_group(g, _aq_suite)
        except Exception as e:
            import traceback
            st["exceptions"] += 1
            if st["exceptions"] <= 2:
                ctx.violation("impl-violation", "twin: paired run raised %r" % (e,), dict(g), signature={"site": "twin", "exception": type(e).__name__},
                              extra={"traceback": traceback.format_exc()[-2000:]})
            continue
        st["groups"] += 1
        for kind, problems, info in res:
            st["runs"] += 1
            if info.get("skipped"):
                st["skipped"] += 1
                continue
            if info.get("replay_accepted"):
                st["replay_of_openable_packet"] += 1
                continue
            st["rejected_" + (info.get("drop") or ["?"])[0]] += 1
            st["continuation_datagrams"] += info.get("packets_after", 0)
            st["continuation_key_updates"] += info.get("key_updates", 0)
            st["control_run_drops"] += info.get("control_drops", 0)
            for rule, text in problems:
                st["violations"] += 1
                reported[rule] += 1
                if reported[rule] <= 2:
                    case = dict(g, kinds=[kind])
                    res2 = known.filter(("twin[%s %s, receiver %s]: %s" % (g["suite"], "v%d" % g["version"], g["plan"]["receiver"], text),
                                         {"site": "receive_datagram", "rule": "rejected-packet-" + rule}), case)
                    if res2:
                        ctx.violation("impl-violation", res2[0], case, signature=res2[1], extra={"injected": info.get("injected"), "plan": g["plan"]})
    cov["twin"] = {k: v for k, v in sorted(st.items())}
    cov["twin"]["wall_s"] = round(time.time() - t0, 2)
    return st


def kp_oracle(case):
    pr = K.trace(_SELF, case)[2]
    if pr:
        return ("%s [ops %s]" % (pr[0][1], case.get("macros") or case["ops"]), {"site": "CryptoPair.decrypt_packet", "rule": "keyphase-" + pr[0][0]})
    return None


import sys as _sys
_SELF = _sys.modules[__name__]

# ------------------------------------------------------------------------------------ driver
def suites(ctx, known):
    pn = corr.Suite(ctx, "pn", "exec_pn", pn_encode, pn_impl, pn_oracle,
                    nontrivial=lambda c, out: c["n"] in (8, 16, 24, 32) and 0 <= c["t"] < (1 << c["n"]))
    pt = corr.Suite(ctx, "protect", "exec_protect", pt_encode, pt_impl,
                    lambda c: known.filter(pt_oracle_raw(c), c), nontrivial=pt_nontrivial)
    kp = corr.Suite(ctx, "keyphase", "exec_keyphase", lambda c: K.trace(_SELF, c)[1], lambda c: K.trace(_SELF, c)[0],
                    lambda c: known.filter(kp_oracle(c), c), ops=lambda c: c["ops"], rebuild=lambda c, ops: dict(c, ops=ops, macros=None),
                    nontrivial=lambda c, out: any(o[0] in (3, 4) for o in c["ops"]), opname=lambda o: {1: "request", 2: "send", 3: "deliver"}.get(o[0]) or "inject-" + o[2][0])
    return pn, pt, kp


def rv_suite(ctx, known):
    return corr.Suite(ctx, "packetrecv", "exec_packetrecv", lambda c: RV.encode(_SELF, c), lambda c: RV.impl(_SELF, c),
                      lambda c: known.filter(RV.oracle(_SELF, c), c), ops=lambda c: c["ops"], rebuild=lambda c, ops: dict(c, ops=ops),
                      nontrivial=RV.nontrivial, opname=RV.opname)


def run_packetrecv(ctx, known):
    import sim  # noqa: F401  (the overlay of the tree under check is active now)
    rv = rv_suite(ctx, known)
    rv.run(corr.load_corpus("C02", "packetrecv"), "corpus")
    cases = RV.gen_cases(_SELF, ctx.rng, max(40, int(ctx.n(800, 10000))), ctx.thorough)
    bad_chunks = 0
    for i in range(0, len(cases), 50):
        chunk = cases[i:i + 50]
        before = rv.stats["disagreements"] + rv.stats["oracle_failures"]
        rv.run(chunk)
        for c in chunk:
            for h in RV.trace(_SELF, c)[3]:
                rv.stats["outcome_histogram"][h] += 1
            rv.stats["outcome_histogram"]["state-%s-%s" % (c["state"], c["receiver"])] += 1
        if rv.stats["disagreements"] + rv.stats["oracle_failures"] > before:
            bad_chunks += 1
            if bad_chunks >= 3:          # failing inputs are on record (each chunk reports and shrinks up to 3); the rest would repeat them
                rv.stats["outcome_histogram"]["stopped-after-3-failing-chunks"] += 1
                break
    return rv


def kd_suite(ctx, known):
    return corr.Suite(ctx, "keyderive", "exec_keyderive", KD.encode, KD.impl, lambda c: known.filter(KD.oracle(c), c), nontrivial=KD.nontrivial)


def run_keyderive(ctx, known):
    kd = kd_suite(ctx, known)
    kd.run(corr.load_corpus("C02", "keyderive"), "corpus")
    cases = KD.gen_cases(ctx.rng, ctx.n(900, 6000), ctx.thorough)
    for i in range(0, len(cases), 500):
        kd.run(cases[i:i + 500])
    for c in cases:
        kd.stats["outcome_histogram"][KD.histogram_key(c)] += 1
    return kd


def run(ctx):
    known = Known(ctx)
    pn, pt, kp = suites(ctx, known)
    extra = {}
    run_vectors(ctx, known, extra)
    pn.run(corr.load_corpus("C02", "pn"), "corpus")
    pt.run(corr.load_corpus("C02", "protect"), "corpus")
    rng = ctx.rng
    pn.run(pn_gen(rng, ctx.n(20000, 200000)))
    es = list(range(0, 600)) + [PN_MAX - 1 - i for i in range(300)] + [(1 << 32) + i for i in range(-150, 150)]
    if ctx.thorough:
        es += list(range(600, 5000))
    pn.run(list(pn_exhaustive(es[: max(10, int(len(es) * min(1.0, ctx.budget_scale)))])))
    t0 = time.time()
    cases = pt_gen(rng, ctx.n(10000, 60000))
    for i in range(0, len(cases), 2000):
        pt.run(cases[i:i + 2000])
    for kind in ("enc", "dec", "apply", "remove", "nonce"):
        pt.stats["op_histogram"][kind] = sum(1 for c in cases if c["kind"] == kind)
    for c in cases:
        pt.stats["outcome_histogram"]["%s/v%d/pnl%d/phase%s%s" % (c["suite"][:7], c["version"], c["pnl"], c["sphase"], "/corrupt" if c.get("corrupt") else "")] += 1
    kp.run(corr.load_corpus("C02", "keyphase"), "corpus")
    kcases = K.gen_cases(_SELF, rng, ctx.n(1500, 12000), 3 if not ctx.thorough else 4)
    kp.run(kcases)
    for c in kcases:
        kp.stats["outcome_histogram"]["max-generation-%d" % max([0] + [t for t in K.trace(_SELF, c)[0][-10:] if isinstance(t, int)])] += 1
    st = run_connection(ctx, known, extra)
    tw = run_twin(ctx, known, extra)
    kd = run_keyderive(ctx, known)
    rv = run_packetrecv(ctx, known)
    extra["known_finding_cases"] = dict(known.hits)
    extra["implementation_variant"] = {"v2_key_update_label": (probe()["v2_ku_label"] or b"quicv2 ku").decode(),
                                       "truncated_pn_signed": probe()["signed_pn"]}
    extra["exhaustive_small_scope"] = "decode_packet_number: all 256 truncated values x %d expected values (8-bit encoding)" % len(es)
    cov = corr.merge_coverage(
        [pn, pt, kp, kd, rv],
        "pn: boundary tables + random (expected, truncated, width) and all 256 truncated values for ranges of expected around 0, "
        "2^32 and 2^62; protect: tuples (kind in hp-apply/hp-remove/nonce/encrypt/decrypt, suite, version, key phases of sender and "
        "receiver, header form and length, pn length, payload size 0..max, pn, expected pn, optional single-byte corruption) with bytes "
        "derived from a per-case seed; keyderive: calls of hkdf_label / hkdf_expand_label / derive_key_iv_hp / setup_initial / "
        "n key updates / Retry key selection over 3 suites + an unknown one x versions 1, 2 and others x both roles x label, context, "
        "secret and output lengths at the struct / HKDF limits, HMAC answers as data; packetrecv: real connections (after the handshake "
        "with key-update prefixes, fresh client, server after its first flight, unconfirmed client; both roles, 3 suites x 2 versions) x "
        "sequences of single-packet datagrams (authentic with old / duplicate / future / out-of-window packet numbers, 1-4 byte encodings, "
        "reserved bits, spin bit, key generation -1..+2 with either phase bit; bit flips; forgeries; foreign keys; epochs without keys; genuine "
        "handshake packets), state abstraction and qlog verdict compared after every packet; connection: live flights with every byte (bit) of every packet altered; distinct = distinct token "
        "encoding, non-trivial = in the property's domain / produces a packet",
        extra)
    cov["evaluations"] += st["mutants"] + st["genuine"] + extra.get("rfc_vectors", 0) + tw["runs"]
    cov["distinct_nontrivial"] += st["mutants"] + tw["runs"] - tw["skipped"]
    return cov


def replay(ctx, rep):
    known = Known(ctx)
    pn, pt, kp = suites(ctx, known)
    case = rep["case"]
    res = {}
    if isinstance(case, dict) and case.get("recv"):
        import sim  # noqa: F401
        rv = rv_suite(ctx, known)
        d, e, g = rv.disagree(case)
        res["packetrecv"] = {"disagree": d, "impl": e, "model": g, "oracle": RV.oracle(_SELF, case), "histogram": RV.trace(_SELF, case)[3]}
    elif isinstance(case, dict) and case.get("twin"):
        import sim  # noqa: F401
        res["twin"] = [{"kind": k, "problems": pr, "info": info} for k, pr, info in T.run_group(case, _aq_suite)]
    elif isinstance(case, dict) and "ops" in case:
        d, e, g = kp.disagree(case)
        res["keyphase"] = {"disagree": d, "impl": e, "model": g, "oracle": kp_oracle(case)}
    elif isinstance(case, dict) and case.get("kind") in ("label", "expand", "derive", "initial", "update", "retry"):
        kd = kd_suite(ctx, known)
        d, e, g = kd.disagree(case)
        res["keyderive"] = {"disagree": d, "impl": e[:80], "model": g[:80], "oracle": KD.oracle(case)}
    elif isinstance(case, dict) and "kind" in case:
        d, e, g = pt.disagree(case)
        res["protect"] = {"disagree": d, "impl": e[:60], "model": g[:60], "oracle": pt_oracle_raw(case)}
    elif isinstance(case, dict) and "t" in case:
        d, e, g = pn.disagree(case)
        res["pn"] = {"disagree": d, "impl": e, "model": g, "oracle": pn_oracle(case)}
    elif isinstance(case, dict) and "scenario" in case:
        st = collections.Counter()
        name = case["scenario"]
        v = 2 if name.startswith("v2") else 1
        suite = SUITE_NAMES[2] if "chacha" in name.lower() else SUITE_NAMES[1] if "aes256" in name.lower() or "AES_256" in name else SUITE_NAMES[0]
        sc = Scenario(ctx, known, st, name, v, suite, True, retry="retry" in name or (name.endswith("-all") and v == 2),
                      key_update="keyupdate" in name or name.endswith("-all"))
        sc.run()
        res["connection"] = {"stats": dict(st), "violations": [v["what"] for v in ctx.violations], "known": dict(known.hits)}
    else:
        res["not-applicable"] = True
    return res
