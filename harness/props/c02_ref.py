"""Independent RFC 9001 / RFC 9369 packet protection, written from the RFC text.

Uses only `cryptography` primitives (HMAC, AESGCM, ChaCha20Poly1305, AES-ECB, ChaCha20).  Imports
NOTHING from aioquic.  Used by harness/props/c02.py as the second implementation in the
differential and as the wire observer for recorded flights.

RFC references: RFC 5869 (HKDF), RFC 8446 7.1 (HKDF-Expand-Label), RFC 9001 5.1-5.4, 5.8, 6.1,
RFC 9000 17.1 / A.3 (packet numbers), 17.2 (long headers), RFC 9369 3.1-3.3 (version 2)."""
from cryptography.hazmat.primitives import hashes, hmac
from cryptography.hazmat.primitives.ciphers import Cipher, algorithms, modes
from cryptography.hazmat.primitives.ciphers.aead import AESGCM, ChaCha20Poly1305
from cryptography.exceptions import InvalidTag

V1 = 0x00000001
V2 = 0x6B3343CF

# RFC 9001 5.2 / RFC 9369 3.3.1
INITIAL_SALT = {
    V1: bytes.fromhex("38762cf7f55934b34d179ae6a4c80cadccbb7f0a"),
    V2: bytes.fromhex("0dede3def700a6db819381be6e269dcbf9bd2ed9"),
}
# RFC 9001 5.8 / RFC 9369 3.3.3
RETRY_KEY = {
    V1: bytes.fromhex("be0c690b9f66575a1d766b54e368c84e"),
    V2: bytes.fromhex("8fb4b01b56ac48e260fbcbcead7ccc92"),
}
RETRY_NONCE = {
    V1: bytes.fromhex("461599d35d632bf2239825bb"),
    V2: bytes.fromhex("d86969bc2d7c6d9990efb04a"),
}
# RFC 9369 3.3.2: "quic key/iv/hp/ku" become "quicv2 key/iv/hp/ku"
LABEL_PREFIX = {V1: b"quic ", V2: b"quicv2 "}

# name -> (hash, key length, aead kind, header protection kind)
SUITES = {
    "AES_128_GCM_SHA256": (hashes.SHA256, 16, "gcm", "aes"),
    "AES_256_GCM_SHA384": (hashes.SHA384, 32, "gcm", "aes"),
    "CHACHA20_POLY1305_SHA256": (hashes.SHA256, 32, "chacha", "chacha"),
}
# TLS cipher suite code points (RFC 8446 B.4)
SUITE_BY_CODE = {0x1301: "AES_128_GCM_SHA256", 0x1302: "AES_256_GCM_SHA384", 0x1303: "CHACHA20_POLY1305_SHA256"}

# long header packet types (RFC 9000 17.2 table 5; RFC 9369 3.2)
LONG_TYPES = {
    V1: {0: "initial", 1: "0rtt", 2: "handshake", 3: "retry"},
    V2: {1: "initial", 2: "0rtt", 3: "handshake", 0: "retry"},
}


class AuthError(Exception):
    pass


# ------------------------------------------------------------------------------ HKDF
def _hmac(h, key, data):
    m = hmac.HMAC(key, h())
    m.update(data)
    return m.finalize()


def hkdf_extract(h, salt, ikm):
    return _hmac(h, salt, ikm)


def hkdf_expand(h, prk, info, length):
    out, t, i = b"", b"", 1
    while len(out) < length:
        t = _hmac(h, prk, t + info + bytes([i]))
        out += t
        i += 1
    return out[:length]


def hkdf_expand_label(h, secret, label, context, length):
    full = b"tls13 " + label
    info = length.to_bytes(2, "big") + bytes([len(full)]) + full + bytes([len(context)]) + context
    return hkdf_expand(h, secret, info, length)


# ------------------------------------------------------------------------------ keys
class Keys:
    """Packet protection keys of one direction and one key phase."""

    def __init__(self, suite, secret, version):
        self.suite, self.secret, self.version = suite, secret, version
        h, klen, aead, hpk = SUITES[suite]
        p = LABEL_PREFIX[version]
        self.key = hkdf_expand_label(h, secret, p + b"key", b"", klen)
        self.iv = hkdf_expand_label(h, secret, p + b"iv", b"", 12)
        self.hp = hkdf_expand_label(h, secret, p + b"hp", b"", klen)
        self.aead = AESGCM(self.key) if aead == "gcm" else ChaCha20Poly1305(self.key)
        self.hp_kind = hpk

    def next(self, label=None):
        """RFC 9001 6.1: secret_<n+1> = HKDF-Expand-Label(secret_<n>, "quic ku", "", Hash.length)
        (RFC 9369 3.3.2: "quicv2 ku" for version 2); the header protection key is NOT updated.
        `label` overrides the RFC label (used only to classify a deviation of the implementation)."""
        h = SUITES[self.suite][0]
        nxt = hkdf_expand_label(h, self.secret, label or (LABEL_PREFIX[self.version] + b"ku"), b"", h.digest_size)
        k = Keys(self.suite, nxt, self.version)
        k.hp = self.hp
        return k

    def mask(self, sample):
        assert len(sample) == 16
        if self.hp_kind == "aes":
            enc = Cipher(algorithms.AES(self.hp), modes.ECB()).encryptor()
            return enc.update(sample)[:5]
        # RFC 9001 5.4.4: counter = sample[0..3] (LE), nonce = sample[4..15]; `cryptography` takes the
        # 16-byte counter||nonce block directly
        enc = Cipher(algorithms.ChaCha20(self.hp, sample), mode=None).encryptor()
        return enc.update(bytes(5))

    def nonce(self, pn):
        """RFC 9001 5.3: the 62-bit packet number, left-padded with zeros to the IV size, XOR IV."""
        return bytes(a ^ b for a, b in zip(self.iv, pn.to_bytes(12, "big")))

    def seal(self, pn, header, payload):
        return self.aead.encrypt(self.nonce(pn), bytes(payload), bytes(header))

    def open_raw(self, nonce, header, ct):
        try:
            return self.aead.decrypt(bytes(nonce), bytes(ct), bytes(header))
        except InvalidTag:
            return None


def initial_keys(version, dcid):
    """-> (client Keys, server Keys) for Initial packets (RFC 9001 5.2)."""
    h = hashes.SHA256
    initial_secret = hkdf_extract(h, INITIAL_SALT[version], dcid)
    c = hkdf_expand_label(h, initial_secret, b"client in", b"", 32)
    s = hkdf_expand_label(h, initial_secret, b"server in", b"", 32)
    return Keys("AES_128_GCM_SHA256", c, version), Keys("AES_128_GCM_SHA256", s, version)


# ------------------------------------------------------------------------------ packet numbers
def decode_pn(truncated, nbits, expected):
    """RFC 9000 A.3 by its defining property rather than by the sample code: among the candidates
    congruent to `truncated` modulo 2^nbits in [0, 2^62) the one closest to `expected`; on a tie the
    larger one (which is what the sample algorithm of A.3 yields)."""
    win = 1 << nbits
    base = expected - (expected % win) + truncated
    cands = [c for c in (base - win, base, base + win) if 0 <= c < (1 << 62)]
    best = None
    for c in cands:
        if best is None or abs(c - expected) < abs(best - expected) or (abs(c - expected) == abs(best - expected) and c > best):
            best = c
    return best


# ------------------------------------------------------------------------------ protect / unprotect
def protect(keys, header, payload, pn):
    """header: unprotected header including the truncated packet number (length from header[0] & 3)."""
    pnl = (header[0] & 3) + 1
    ct = keys.aead.encrypt(keys.nonce(pn), bytes(payload), bytes(header))
    sample = ct[4 - pnl:4 - pnl + 16]
    if len(sample) != 16:
        raise ValueError("packet too short to sample")
    mask = keys.mask(sample)
    hdr = bytearray(header)
    hdr[0] ^= mask[0] & (0x0F if hdr[0] & 0x80 else 0x1F)
    for i in range(pnl):
        hdr[len(hdr) - pnl + i] ^= mask[1 + i]
    return bytes(hdr) + ct


def unprotect(keys, packet, pn_offset, expected_pn, next_keys=None, key_phase=0, decode=None):
    """-> (plain header, payload, full pn, used_next).  keys: current receive keys with key phase
    `key_phase`; next_keys used when the Key Phase bit of a short header differs (RFC 9001 6.3)."""
    sample = packet[pn_offset + 4:pn_offset + 20]
    if len(sample) != 16:
        raise AuthError("too short")
    mask = keys.mask(sample)
    first = packet[0] ^ (mask[0] & (0x0F if packet[0] & 0x80 else 0x1F))
    pnl = (first & 3) + 1
    pnb = bytes(packet[pn_offset + i] ^ mask[1 + i] for i in range(pnl))
    header = bytes([first]) + bytes(packet[1:pn_offset]) + pnb
    pn = (decode or decode_pn)(int.from_bytes(pnb, "big"), 8 * pnl, expected_pn)   # `decode` only to classify deviations
    k, used_next = keys, False
    if not (first & 0x80) and ((first >> 2) & 1) != key_phase:
        if next_keys is None:
            next_keys = keys.next()
        k, used_next = next_keys, True
    try:
        payload = k.aead.decrypt(k.nonce(pn % (1 << 64)) if decode else k.nonce(pn), bytes(packet[pn_offset + pnl:]), header)
    except InvalidTag:
        raise AuthError("AEAD")
    return header, payload, pn, used_next


# ------------------------------------------------------------------------------ Retry
def retry_tag(version, odcid, retry_without_tag):
    pseudo = bytes([len(odcid)]) + odcid + retry_without_tag
    return AESGCM(RETRY_KEY[version]).encrypt(RETRY_NONCE[version], b"", pseudo)


def retry_ok(version, odcid, retry_packet):
    return len(retry_packet) >= 16 and retry_tag(version, odcid, retry_packet[:-16]) == retry_packet[-16:]


# ------------------------------------------------------------------------------ header parsing
def _varint(data, off):
    b = data[off]
    ln = 1 << (b >> 6)
    v = b & 0x3F
    for i in range(1, ln):
        v = (v << 8) | data[off + i]
    return v, off + ln


def split_datagram(data, short_dcid_len):
    """Split a datagram into coalesced packets.  -> list of dicts(form, type, version, start, end,
    pn_offset (relative to start), dcid, scid).  Trailing bytes that do not parse are reported as
    a final dict with type 'garbage'."""
    out, off = [], 0
    n = len(data)
    while off < n:
        start = off
        first = data[off]
        try:
            if first & 0x80:
                version = int.from_bytes(data[off + 1:off + 5], "big")
                p = off + 5
                dl = data[p]
                dcid = data[p + 1:p + 1 + dl]
                p += 1 + dl
                sl = data[p]
                scid = data[p + 1:p + 1 + sl]
                p += 1 + sl
                if version == 0:
                    out.append({"type": "vn", "version": 0, "start": start, "end": n, "dcid": dcid, "scid": scid})
                    return out
                typ = LONG_TYPES.get(version, LONG_TYPES[V1])[(first >> 4) & 3]
                if typ == "retry":
                    out.append({"type": "retry", "version": version, "start": start, "end": n, "dcid": dcid, "scid": scid})
                    return out
                if typ == "initial":
                    tl, p = _varint(data, p)
                    p += tl
                ln, p = _varint(data, p)
                end = p + ln
                if end > n:
                    raise IndexError
                out.append({"type": typ, "version": version, "start": start, "end": end, "pn_offset": p - start,
                            "dcid": dcid, "scid": scid})
                off = end
            else:
                if not first & 0x40:
                    raise IndexError
                out.append({"type": "1rtt", "version": None, "start": start, "end": n, "pn_offset": 1 + short_dcid_len,
                            "dcid": data[off + 1:off + 1 + short_dcid_len], "scid": b""})
                off = n
        except IndexError:
            out.append({"type": "garbage", "start": start, "end": n})
            return out
    return out
