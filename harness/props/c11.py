"""C11  TLS handshake messages are accepted only in protocol order.

Tie (b): a KEY-HOLDING ADVERSARY drives a real tls.Context (the victim).  After an honest key
exchange it emits arbitrary sequences of handshake messages, re-computing CertificateVerify
signatures and Finished MACs over the transcript *as the victim has seen it* (shadow KeySchedule of
the library, updated with every message the victim accepted).  Per message the raised alert (or
none / other exception), Context.state and the (direction, epoch) sequence of update_traffic_key_cb
calls are compared with the Gallina model coq/model/TlsSM.v (extracted, exec_tlssm).  An
implementation oracle, written against RFC 8446 and independent of the model, checks the property
statement on every run."""
import datetime
import itertools

from vlib import core, corr

DEPENDS = ["TlsDispatch (generated)", "TlsSM", "TlsSMProofs", "TlsQuicGen (generated)", "TlsQuic", "StreamRecv (C10 model, read-only)", "C11"]
GENERATORS = ["c11_dispatch", "c11_quic"]
TRUSTED_BASE = [
    "tools/gen/c11_dispatch.py (Python-ast translator of the dispatch chain, enum values and handler skeletons; fail closed)",
    "extraction (ExtrOcamlBasic only) + coq/extract/driver.ml for running exec_tlssm",
    "correspondence harness harness/props/c11.py + harness/vlib/corr.py; the key-holding adversary and the oracle fields it "
    "declares for each message it builds (mac_ok, sig_ok, cert verdict, parse_ok, psk_selected ...)",
    "modelled, not verified: tls.Context handlers as Gallina functions over oracle booleans; cryptography, message parsing, "
    "X.509 validation, key derivation and transcript hashing are outside the model",
    "tools/gen/c11_quic.py (ast translator: constants, get_epoch, CRYPTO frame epochs, statement skeletons of _handle_crypto_frame, "
    "_update_traffic_key, _discard_epoch, handle_message; fail closed) + the pin proofs/TlsQuicSkel.v",
    "harness/props/c11_quic.py + harness/sim (virtual network, wire observer with the endpoints' key logs, peer puppet): the QUIC-level "
    "adversary, its own reassembly bookkeeping that orders the oracle records, and the observation of the victim (qlog packet_received / "
    "packet_dropped, close event, Context.state, CryptoPair.is_valid, len(_receive_buffer))",
    "modelled, not verified: QuicConnection.receive_datagram / _payload_received / _handle_crypto_frame / _update_traffic_key / the key-discarding "
    "part of datagrams_to_send as coq/model/TlsQuic.v; packet protection and everything the victim sends are outside that model",
]
ASSUMPTIONS = [
    "message type is one byte (0 <= t < 256), as read from the receive buffer",
    "one complete handshake message per handle_message call (reassembly is exercised by the harness, not modelled)",
    "oracle booleans stand for MAC / signature / certificate / parse checks (correctness of those primitives is outside C11)",
    "connection level: the peer holds all keys (a packet is either decryptable by the victim or dropped); CRYPTO stream bytes are bytes "
    "(0..255) -- premise bytes_ok of fragmentation_independent; that theorem is about the frames of one packet",
]

SIG_ALG = 0x0403  # ECDSA_SECP256R1_SHA256

# ------------------------------------------------------------------------------------------
# RFC 8446 wire values and legal-next relation, written by hand (independent of tls.py and of Coq)
CH, SH, NST, EOED, EE, CERT, CR, CV, FIN, KU, CCERT, MH = 1, 2, 4, 5, 8, 11, 13, 15, 20, 24, 25, 254
HS_TYPES = [CH, SH, NST, EOED, EE, CERT, CR, CV, FIN, KU, CCERT, MH]
NAME_TYPE = {"CH": CH, "SH": SH, "NST": NST, "EE": EE, "CERT": CERT, "CR": CR, "CV": CV, "FIN": FIN,
             "EOED": EOED, "KU": KU, "CCERT": CCERT, "MH": MH}
# aioquic State values as documented in properties.jsonl anchors (13 states)
(C_START, C_SH, C_EE, C_CR_CERT, C_CERT, C_CV, C_FIN, C_POST, S_CH, S_CERT, S_CV, S_FIN, S_POST) = range(13)
LEGAL_NEXT = {C_SH: {SH}, C_EE: {EE}, C_CR_CERT: {CR, CERT}, C_CERT: {CERT}, C_CV: {CV}, C_FIN: {FIN}, C_POST: {NST},
              S_CH: {CH}, S_CERT: {CERT}, S_CV: {CV}, S_FIN: {FIN}, S_POST: set()}
ALERT_UNEXPECTED = 10
EXN_KINDS = {"AssertionError": 1, "AttributeError": 2, "IndexError": 3, "ValueError": 4}

_ENV = {}


def _tls():
    from aioquic import tls
    return tls


def _bufs():
    from aioquic.buffer import Buffer
    tls = _tls()
    return {e: Buffer(capacity=8192) for e in (tls.Epoch.INITIAL, tls.Epoch.HANDSHAKE, tls.Epoch.ONE_RTT)}


def _split(data):
    """split a byte string into handshake messages (4-byte header)"""
    out = []
    while data:
        n = 4 + int.from_bytes(data[1:4], "big")
        out.append(bytes(data[:n]))
        data = data[n:]
    return out


def _gen_cert(cn, days_from=-1, days_to=10):
    from cryptography import x509
    from cryptography.hazmat.primitives import hashes
    from cryptography.hazmat.primitives.asymmetric import ec
    key = ec.generate_private_key(ec.SECP256R1())
    name = x509.Name([x509.NameAttribute(x509.NameOID.COMMON_NAME, cn)])
    now = datetime.datetime.now(datetime.timezone.utc)
    b = (x509.CertificateBuilder().subject_name(name).issuer_name(name).public_key(key.public_key())
         .serial_number(x509.random_serial_number())
         .not_valid_before(now + datetime.timedelta(days=days_from))
         .not_valid_after(now + datetime.timedelta(days=days_to))
         .add_extension(x509.SubjectAlternativeName([x509.DNSName(cn)]), critical=False))
    return b.sign(key, hashes.SHA256()), key


def env():
    """certificates, keys and session tickets shared by all cases of one run"""
    if _ENV:
        return _ENV
    from cryptography.hazmat.primitives.serialization import Encoding
    good = _gen_cert("example.com")
    _ENV["certs"] = {
        "good": good,                                        # trusted (it is its own CA in cadata)
        "untrusted": _gen_cert("example.com"),               # same name, not in the trust store -> bad_certificate
        "expired": _gen_cert("example.com", -10, -5),        # -> certificate_expired
        "client": _gen_cert("client.example.com"),
    }
    _ENV["cadata"] = good[0].public_bytes(Encoding.PEM)
    for early in (False, True):
        _ENV["ticket", early] = _make_tickets(early)
    return _ENV


def _client_ctx(verify=True):
    import ssl
    tls = _tls()
    return tls.Context(is_client=True, cadata=_ENV["cadata"], server_name="example.com",
                       verify_mode=None if verify else ssl.CERT_NONE)


def _server_ctx(early=False):
    tls = _tls()
    s = tls.Context(is_client=False, max_early_data=0xFFFFFFFF if early else None)
    s.certificate, s.certificate_private_key = _ENV["certs"]["good"]
    return s


def _make_tickets(early):
    tls = _tls()
    got = {}
    c = _client_ctx()
    c.new_session_ticket_cb = lambda t: got.setdefault("client", t)
    s = _server_ctx(early)
    s.new_session_ticket_cb = lambda t: got.setdefault("server", t)
    cb, sb = _bufs(), _bufs()
    c.handle_message(b"", cb)
    s.handle_message(cb[tls.Epoch.INITIAL].data, sb)
    cb = _bufs()
    c.handle_message(sb[tls.Epoch.INITIAL].data, cb)
    c.handle_message(sb[tls.Epoch.HANDSHAKE].data, cb)
    c.handle_message(sb[tls.Epoch.ONE_RTT].data, cb)
    s.handle_message(cb[tls.Epoch.HANDSHAKE].data, _bufs())
    if c.state != tls.State.CLIENT_POST_HANDSHAKE or s.state != tls.State.SERVER_POST_HANDSHAKE or len(got) != 2:
        raise RuntimeError("could not obtain a session ticket from an honest handshake")
    return got


# ------------------------------------------------------------------------------------------
# the adversary + victim for one case
#
# case = {"role": "client"|"server", "psk": 0 none | 1 offered, peer selects | 2 offered, peer does not select,
#         "early": 0|1, "verify": 0|1, "reqcert": 0|1, "ops": [[name, variant], ...]}
# client victim ops: START, SH, EE, CR, CERT, CV, FIN, NST, CH, RAW
# server victim ops: CH, CERT, CV, FIN, EE, CR, SH, NST, RAW

class Run:
    def __init__(self, case):
        tls = _tls()
        e = env()
        self.tls, self.case = tls, case
        self.is_client = case["role"] == "client"
        self.keys = []          # victim's update_traffic_key_cb calls
        self.secrets = {}
        self.shadow = None      # KeySchedule carrying the transcript as the victim has seen it
        self.victim_cert = None
        self.trace = []         # (op, kind, value, state_after, keys)
        self.hello = None       # honest peer's hello bytes
        self.keyed = True       # False once the adversary made the victim use a key schedule it did not compute
        tk = e["ticket", bool(case["early"])] if case["psk"] else None
        if self.is_client:
            v = _client_ctx(bool(case["verify"]))
            if tk:
                v.session_ticket = tk["client"]
            self.peer = _server_ctx(bool(case["early"]))          # honest server the adversary controls
            if case["psk"] == 1:
                self.peer.get_session_ticket_cb = lambda label: tk["server"] if label == tk["server"].ticket else None
        else:
            v = _server_ctx(bool(case["early"]))
            v._request_client_certificate = bool(case["reqcert"])
            if case["psk"] == 1:
                v.get_session_ticket_cb = lambda label: tk["server"] if label == tk["server"].ticket else None
            self.peer = _client_ctx()                             # honest client the adversary controls
            if tk:
                self.peer.session_ticket = tk["client"]
        v.update_traffic_key_cb = lambda d, ep, cs, sec: self.keys.append((d.value, ep.value))
        self.peer.update_traffic_key_cb = lambda d, ep, cs, sec: self.secrets.__setitem__((d.value, ep.value), (cs, sec))
        self.victim = v
        self.flight = {}        # honest peer flight messages by type
        self.transcript0 = b""

    # ---- message construction -------------------------------------------------------------
    def _buf(self):
        from aioquic.buffer import Buffer
        return Buffer(capacity=8192)

    def _start_shadow(self, cipher_suite, data):
        self.shadow = self.tls.KeySchedule(cipher_suite)
        self.shadow.update_hash(data)

    def hs_secret(self):
        """handshake traffic secret under which the ADVERSARY's Finished is keyed"""
        tls = self.tls
        # honest server: its ENCRYPT/HANDSHAKE secret; honest client: its ENCRYPT/HANDSHAKE secret
        return self.secrets.get((tls.Direction.ENCRYPT.value, tls.Epoch.HANDSHAKE.value), (None, b"\x00" * 48))[1]

    def build(self, op):
        tls = self.tls
        name, var = op[0], op[1] if len(op) > 1 else "good"
        b = self._buf()
        if name == "RAW":
            return bytes([var & 0xFF, 0, 0, 0])
        if name in ("EOED", "KU", "CCERT", "MH"):
            return bytes([NAME_TYPE[name], 0, 0, 1, 0])
        if name == "NST":
            tls.push_new_session_ticket(b, tls.NewSessionTicket(ticket_lifetime=3600, ticket_age_add=1, ticket_nonce=b"",
                                                               ticket=b"\x07" * 16))
            return self._var(b.data, var)
        if name == "EE":
            if EE in self.flight:
                return self._var(self.flight[EE], var)
            tls.push_encrypted_extensions(b, tls.EncryptedExtensions(alpn_protocol=None, early_data=False, other_extensions=[]))
            return self._var(b.data, var)
        if name == "CR":
            tls.push_certificate_request(b, tls.CertificateRequest(request_context=b"", signature_algorithms=[SIG_ALG]))
            return self._var(b.data, var)
        if name == "CERT":
            from cryptography.hazmat.primitives.serialization import Encoding
            certs = env()["certs"]
            if var == "empty":
                lst = []
            elif var == "garbage":
                lst = [(b"\x30\x03\x02\x01\x01", b"")]
            else:
                which = var if var in certs else ("good" if self.is_client else "client")
                lst = [(certs[which][0].public_bytes(Encoding.DER), b"")]
            tls.push_certificate(b, tls.Certificate(request_context=b"", certificates=lst))
            return self._var(b.data, var)
        if name == "CV":
            certs = env()["certs"]
            key = certs.get(self.victim_cert or ("good" if self.is_client else "client"))[1]
            ctxs = tls.SERVER_CONTEXT_STRING if self.is_client else tls.CLIENT_CONTEXT_STRING
            data = self.shadow.certificate_verify_data(ctxs) if self.shadow else b"no transcript"
            if var == "badsig":
                data = b"x" + data
            sig = key.sign(data, *tls.signature_algorithm_params(SIG_ALG))
            alg = SIG_ALG
            if var == "wrong_alg":          # advertised algorithm that does not fit the certificate's EC key
                alg = 0x0804                # RSA_PSS_RSAE_SHA256
            elif var == "unadvertised_alg":
                alg = 0x0603                # ECDSA_SECP521R1_SHA512: never advertised by tls.Context
            tls.push_certificate_verify(b, tls.CertificateVerify(algorithm=alg, signature=sig))
            return self._var(b.data, var)
        if name == "FIN":
            vd = self.shadow.finished_verify_data(self.hs_secret()) if self.shadow else b"\x00" * 48
            if var == "badmac":
                vd = vd[:-1] + bytes([vd[-1] ^ 1])
            tls.push_finished(b, tls.Finished(verify_data=vd))
            return self._var(b.data, var)
        if name == "SH":
            return self._build_sh(var)
        if name == "CH":
            return self._build_ch(var)
        raise ValueError("unknown op %r" % (op,))

    @staticmethod
    def _var(data, var):
        if var == "trunc":      # header claims the body length that is really there, body cut short
            body = data[4:4 + max(0, (len(data) - 4) // 2)]
            return data[:1] + len(body).to_bytes(3, "big") + body
        return data

    def _honest_server_flight(self):
        """let the honest server answer the victim's ClientHello; remember its messages and secrets"""
        tls = self.tls
        if self.flight or self.hello is None:
            return
        sb = _bufs()
        self.peer.handle_message(self.hello, sb)
        self.flight[SH] = bytes(sb[tls.Epoch.INITIAL].data)
        for m in _split(bytes(sb[tls.Epoch.HANDSHAKE].data)):
            self.flight[m[0]] = m
        self.cipher_suite = self.peer.key_schedule.cipher_suite

    def _build_sh(self, var):
        tls = self.tls
        if not self.is_client:
            # a ServerHello sent to a server: any well-formed one
            h = tls.ServerHello(random=b"\x01" * 32, legacy_session_id=b"", cipher_suite=tls.CipherSuite.AES_256_GCM_SHA384,
                                compression_method=0, key_share=(tls.Group.X25519, b"\x02" * 32), supported_version=tls.TLS_VERSION_1_3)
            b = self._buf()
            tls.push_server_hello(b, h)
            return b.data
        if self.hello is None:      # no ClientHello yet (probe in CLIENT_HANDSHAKE_START): any ServerHello
            self.is_client = False
            try:
                return self._build_sh(var)
            finally:
                self.is_client = True
        self._honest_server_flight()
        data = self.flight[SH]
        if var in ("good", "honest"):
            return data
        if var == "trunc":
            return self._var(data, var)
        from aioquic.buffer import Buffer
        h = tls.pull_server_hello(Buffer(data=data))
        if var == "inject_psk":
            h.pre_shared_key = 0
        elif var == "psk_index":
            h.pre_shared_key = 1
        elif var == "bad_cipher":
            h.cipher_suite = 0x1304
        elif var == "bad_compression":
            h.compression_method = 1
        elif var == "bad_version":
            h.supported_version = tls.TLS_VERSION_1_2
        elif var == "unknown_group":
            h.key_share = (0x4A4A, b"\x00")
        elif var == "bad_point":
            h.key_share = (tls.Group.X25519, b"\x02" * 31)
        else:
            raise ValueError(var)
        b = self._buf()
        tls.push_server_hello(b, h)
        return b.data

    def _build_ch(self, var):
        tls = self.tls
        if self.is_client:
            # a ClientHello sent to a client: echo the victim's own hello if known
            if self.hello is not None:
                return self.hello
            c = _client_ctx()
            cb = _bufs()
            c.handle_message(b"", cb)
            return bytes(cb[tls.Epoch.INITIAL].data)
        if self.hello is None:
            cb = _bufs()
            self.peer.handle_message(b"", cb)
            self.hello = bytes(cb[tls.Epoch.INITIAL].data)
        data = self.hello
        if var in ("good", "honest"):
            return data
        if var == "trunc":
            return self._var(data, var)
        if var == "bad_binder":
            return data[:-1] + bytes([data[-1] ^ 1])
        from aioquic.buffer import Buffer
        h = tls.pull_client_hello(Buffer(data=data))
        if var == "bad_cipher":
            h.cipher_suites = [0x1304]
        elif var == "bad_compression":
            h.legacy_compression_methods = [1]
        elif var == "bad_sigalg":
            h.signature_algorithms = [0x0807]
        elif var == "bad_version":
            h.supported_versions = [tls.TLS_VERSION_1_2]
        elif var == "unknown_group":
            h.key_share = [(0x4A4A, b"\x00")]
        elif var == "bad_point":
            h.key_share = [(tls.Group.X25519, b"\x02" * 31)]
        else:
            raise ValueError(var)
        if h.pre_shared_key is not None:
            h.pre_shared_key = None      # binder would not match anyway; keep these variants PSK-free
            h.early_data = False
        b = self._buf()
        tls.push_client_hello(b, h)
        return b.data

    # ---- driving the victim ------------------------------------------------------------------
    def feed(self, op):
        tls = self.tls
        v = self.victim
        name, var = op[0], op[1] if len(op) > 1 else "good"
        state_before = v.state.value
        fields = msg_fields(self.case, op, self.victim_cert, self.keyed)
        if name == "START":
            data = b"" if var == "good" else self.build(var if isinstance(var, list) else ["RAW", 0])
        else:
            data = self.build(op)
        k0 = len(self.keys)
        out = _bufs()
        frag = op[2] if len(op) > 2 else 0
        try:
            if frag and len(data) > 1 and state_before != C_START:
                cut = 1 + (frag - 1) % (len(data) - 1)
                v.handle_message(data[:cut], out)
                if v.state.value != state_before or len(self.keys) != k0:
                    raise AssertionError("incomplete message had an effect")
                v.handle_message(data[cut:], out)
            else:
                v.handle_message(data, out)
            kind, val = 0, 0
        except tls.Alert as ex:
            kind, val = 1, int(type(ex).description)
        except Exception as ex:  # noqa: BLE001  (what escapes is an observable)
            kind, val = 2, EXN_KINDS.get(type(ex).__name__, 9)
        st = v.state.value
        keys = self.keys[k0:]
        self.trace.append((op, kind, val, st, keys, state_before, fields))
        # --- adversary bookkeeping: the transcript as the victim has seen it
        if self.is_client and state_before == C_START:
            self.hello = bytes(out[tls.Epoch.INITIAL].data)
            return
        accepted = kind == 0
        if accepted and name == "SH" and self.is_client and state_before == C_SH:
            self._start_shadow(self.cipher_suite, self.hello + data)
            if var == "inject_psk" and self.case["psk"] == 2:
                self.keyed = False   # victim switched to the PSK schedule; the honest server's secrets do not apply
        elif accepted and name == "CH" and not self.is_client and state_before == S_CH:
            # the adversary (honest client) completes its side of the key exchange to learn the secrets
            sh = bytes(out[tls.Epoch.INITIAL].data)
            flight = bytes(out[tls.Epoch.HANDSHAKE].data)
            cb = _bufs()
            try:
                self.peer.handle_message(sh, cb)
                self.peer.handle_message(flight, cb)
            except tls.Alert:
                pass
            ks = self.peer.key_schedule
            self._start_shadow(ks.cipher_suite, data + sh + flight)
        elif self.shadow is not None and name in ("EE", "CR", "CERT", "CV", "FIN"):
            cert_states = (C_CR_CERT, C_CERT) if self.is_client else (S_CERT,)
            if accepted or (name == "CERT" and kind != 0 and var in ("empty", "garbage") and state_before in cert_states):
                # (the Certificate handlers hash the message before _set_peer_certificate rejects the list / the DER)
                self.shadow.update_hash(data)
            if accepted and name == "CERT":
                self.victim_cert = var if var in env()["certs"] else ("good" if self.is_client else "client")

    def run(self):
        for op in self.case["ops"]:
            self.feed(op)
        return self.trace


# ------------------------------------------------------------------------------------------
# model input (oracle fields follow from how the adversary builds each message, not from the run)
def msg_fields(case, op, victim_cert=None, keyed=True):
    """oracle answers for one message; victim_cert = the certificate variant the adversary saw the victim accept last"""
    name, var = op[0], op[1] if len(op) > 1 else "good"
    client = case["role"] == "client"
    f = dict(type=0, parse=0, fire=0, psk=0, psk_ok=1, early=0, share=1, nonempty=1, load=1, sig=1, cert=0, mac=1)
    if name == "START":
        f["type"] = 0
    elif name == "RAW":
        f["type"] = var & 0xFF
        f["parse"] = 1
        if f["type"] == FIN:     # an empty Finished parses (verify_data = b"") and fails the MAC comparison
            f["parse"], f["mac"] = 0, 0
    else:
        f["type"] = NAME_TYPE[name]
    if name in ("EOED", "KU", "CCERT", "MH"):
        f["parse"] = 1
    if var == "trunc":
        f["parse"] = 1
    if name == "SH" and client:
        f["psk"] = int(case["psk"] == 1)
        if var == "inject_psk":
            f["psk"] = 1
        elif var == "psk_index":
            f["psk"], f["psk_ok"] = 1, 0
        elif var == "bad_cipher":
            f["fire"] = 1
        elif var == "bad_compression":
            f["fire"] = 2
        elif var == "bad_version":
            f["fire"] = 3
        elif var == "unknown_group":
            f["share"] = 0
        elif var == "bad_point":
            f["fire"] = 6
    if name == "CH" and not client:
        f["psk"] = int(case["psk"] == 1)
        f["early"] = int(bool(case["early"]) and case["psk"] != 0)
        if var == "bad_binder":
            f["psk_ok"] = 0
        elif var in ("bad_cipher", "bad_compression", "bad_sigalg", "bad_version", "unknown_group", "bad_point"):
            f["psk"], f["early"] = 0, 0
            if var == "unknown_group":
                f["share"] = 0
            elif var == "bad_point":
                f["fire"] = 6
            else:
                f["fire"] = {"bad_cipher": 1, "bad_compression": 2, "bad_sigalg": 3, "bad_version": 4}[var]
    if name == "CERT":
        if var == "empty":
            f["nonempty"] = 0
        elif var == "garbage":
            f["load"] = 0
    if name == "CV":
        if var == "badsig":
            f["sig"] = 0
        elif var == "wrong_alg":
            f["fire"] = 2
        elif var == "unadvertised_alg":
            f["fire"] = 3
        # the certificate verdict belongs to the certificate the victim holds (last accepted Certificate)
        f["cert"] = {"untrusted": 42, "expired": 45}.get(victim_cert, 0)
    if name == "FIN" and (var == "badmac" or not keyed):
        f["mac"] = 0
    return [f["type"], f["parse"], f["fire"], f["psk"], f["psk_ok"], f["early"], f["share"], f["nonempty"], f["load"],
            f["sig"], f["cert"], f["mac"]]


def encode(case):
    t = [int(case["role"] == "client"), int(case["psk"] != 0), int(bool(case["early"])), int(bool(case["verify"])),
         int(bool(case["reqcert"]))]
    for ent in trace_of(case):
        t += ent[6]
    return t


_TRACE_CACHE = {}
STATS = {"completed": 0, "runs": 0, "outcomes": {}}


def trace_of(case):
    """one execution of the real implementation per case (shared by impl / encode / oracle)"""
    key = repr(case)
    if key not in _TRACE_CACHE:
        tr = Run(case).run()
        _TRACE_CACHE[key] = tr
        STATS["runs"] += 1
        if tr and tr[-1][3] in (C_POST, S_POST):
            STATS["completed"] += 1
        for ent in tr:
            k = "ok" if ent[1] == 0 else ("alert_%d" % ent[2] if ent[1] == 1 else "exn_%d" % ent[2])
            STATS["outcomes"][k] = STATS["outcomes"].get(k, 0) + 1
    return _TRACE_CACHE[key]


def run_chunks(suite, cases, label, size=4000):
    for i in range(0, len(cases), size):
        suite.run(cases[i:i + size], label)
        _TRACE_CACHE.clear()


def impl(case):
    out = []
    for (op, kind, val, st, keys, _sb, _f) in trace_of(case):
        out += [kind, val, st, len(keys)]
        for d, e in keys:
            out += [d, e]
    return out


# ------------------------------------------------------------------------------------------
# implementation oracle: the property statement, from RFC 8446, on the observed run
def _v(op):
    return op[1] if len(op) > 1 else "good"


def legal_client(case, acc):
    """acc: accepted ops after the hello was sent.  Is this the full legal server flight?"""
    names = [o[0] for o in acc]
    while names and names[-1] == "NST":
        names, acc = names[:-1], acc[:-1]
    if names[:1] != ["SH"] or not (_v(acc[0]) in ("good", "honest") or (_v(acc[0]) == "inject_psk" and case["psk"] == 1)):
        return False
    if names == ["SH", "EE", "FIN"]:
        return case["psk"] == 1 and _v(acc[2]) == "good"
    if names in (["SH", "EE", "CERT", "CV", "FIN"], ["SH", "EE", "CR", "CERT", "CV", "FIN"]):
        cert, cv, fin = acc[-3], acc[-2], acc[-1]
        cert_ok = _v(cert) == "good" or (not case["verify"] and _v(cert) in ("untrusted", "expired"))
        return case["psk"] != 1 and cert_ok and _v(cv) == "good" and _v(fin) == "good"
    return False


def legal_server(case, acc):
    names = [o[0] for o in acc]
    if names[:1] != ["CH"] or _v(acc[0]) not in ("good", "honest"):
        return False
    if not case["reqcert"]:
        return names == ["CH", "FIN"] and _v(acc[1]) == "good"
    if names == ["CH", "CERT", "FIN"]:
        return _v(acc[1]) == "empty" and _v(acc[2]) == "good"
    if names == ["CH", "CERT", "CV", "FIN"]:
        return _v(acc[1]) in ("good", "client") and _v(acc[2]) == "good" and _v(acc[3]) == "good"
    return False


def oracle(case):
    client = case["role"] == "client"
    trace = trace_of(case)
    acc = []
    for i, (op, kind, val, st, keys, sb, _f) in enumerate(trace):
        name = op[0]
        t = NAME_TYPE.get(name, op[1] & 0xFF if name == "RAW" else 0)
        sig = {"role": case["role"], "op": name, "variant": str(_v(op)), "state": sb}
        if sb != C_START:
            expected_ok = t in LEGAL_NEXT.get(sb, set())
            if not expected_ok:
                if (kind, val) != (1, ALERT_UNEXPECTED):
                    return ("message type %d in state %d was not refused with unexpected_message (got kind=%d value=%d)"
                            % (t, sb, kind, val), dict(sig, rule="refuse"))
                if st != sb or keys:
                    return ("refused message type %d in state %d changed the state or installed keys" % (t, sb),
                            dict(sig, rule="refuse_unchanged"))
            if kind != 0 and st != sb:
                return ("state changed from %d to %d although the message raised" % (sb, st), dict(sig, rule="raise_unchanged"))
        if kind == 0 and sb != C_START:
            acc.append(op)
        legal = (legal_client if client else legal_server)(case, acc)
        if st in (C_POST, S_POST) and not legal:
            return ("victim reached POST_HANDSHAKE after accepting %s, which is not the legal flight"
                    % [(o[0], _v(o)) for o in acc], dict(sig, rule="no_skip"))
        for d, e in keys:
            if e == 3:      # ONE_RTT
                if client or d == 0:
                    if not (name == "FIN" and _v(op) == "good" and kind == 0 and legal):
                        return ("1-RTT key (direction %d) installed at op %d (%s/%s) before the peer's Finished was verified "
                                "after the legal flight" % (d, i, name, _v(op)), dict(sig, rule="onertt_early"))
                elif not (name == "CH" and sb == S_CH):
                    return ("server 1-RTT send key installed outside ClientHello processing", dict(sig, rule="onertt_send"))
            elif e == 2:    # HANDSHAKE
                okh = (client and ((name == "SH" and d == 0 and sb == C_SH) or (name == "EE" and d == 1 and sb == C_EE))) or \
                      (not client and name == "CH" and sb == S_CH)
                if not okh:
                    return ("handshake key (direction %d) installed at %s in state %d" % (d, name, sb), dict(sig, rule="hs_key"))
            elif e == 1:    # ZERO_RTT
                okz = (client and sb == C_START and case["psk"] and case["early"]) or \
                      (not client and name == "CH" and sb == S_CH and case["psk"] == 1 and case["early"])
                if not okz:
                    return ("0-RTT key installed at %s in state %d" % (name, sb), dict(sig, rule="zero_rtt_key"))
    return None


# ------------------------------------------------------------------------------------------
# case generators
FLIGHT = ["EE", "CR", "CERT", "CV", "FIN"]
CFLIGHT = ["CERT", "CV", "FIN"]


def words(alphabet, maxlen, max_repeats):
    """all words up to maxlen in which at most `max_repeats` letters are repetitions of earlier ones"""
    for n in range(maxlen + 1):
        for w in itertools.product(alphabet, repeat=n):
            if n - len(set(w)) <= max_repeats:
                yield w


def client_case(psk, ops, early=0, verify=1):
    return {"role": "client", "psk": psk, "early": early, "verify": verify, "reqcert": 0, "ops": [["START"], ["SH"]] + ops}


def server_case(psk, reqcert, ops, early=0):
    return {"role": "server", "psk": psk, "early": early, "verify": 1, "reqcert": reqcert, "ops": [["CH"]] + ops}


def gen_client_flights(ctx):
    rng = ctx.rng
    cases = []
    seqs = set(words(FLIGHT, 6, 1)) | set(words(FLIGHT, 4, 4))
    if ctx.thorough:
        seqs |= set(words(FLIGHT, 6, 6))
    seqs = sorted(seqs)
    for psk in (0, 1, 2):
        for w in seqs:
            if psk == 2 and len(w) > 4 and not ctx.thorough:
                continue     # quick tier: "offered, not selected" differs from "no PSK" only in the hello
            cases.append(client_case(psk, [[x] for x in w]))
    # oracle valuations: every way of making the checks of the near-legal flights fail
    base = [["EE", "CERT", "CV", "FIN"], ["EE", "CR", "CERT", "CV", "FIN"], ["EE", "FIN"], ["EE", "CERT", "FIN"],
            ["EE", "CV", "FIN"], ["EE", "CERT", "CV", "FIN", "FIN"], ["EE", "CERT", "CERT", "CV", "FIN"],
            ["EE", "CERT", "CV", "CV", "FIN"]]
    variants = {"CERT": ["good", "untrusted", "expired"], "CV": ["good", "badsig"], "FIN": ["good", "badmac"],
                "EE": ["good", "trunc"], "CR": ["good", "trunc"]}
    for psk in (0, 1, 2):
        for verify in (1, 0):
            for b in base:
                for vs in itertools.product(*[variants[x] for x in b]):
                    ops = [[x, v] for x, v in zip(b, vs)]
                    # after a failed check, retry with the good message (the adversary insists)
                    retry = []
                    for o in ops:
                        retry.append(o)
                        if o[1] != "good":
                            retry.append([o[0], "good"])
                    cases.append(client_case(psk, ops, verify=verify))
                    if retry != ops and len(retry) <= 8:
                        cases.append(client_case(psk, retry, verify=verify))
    # random longer words with variants and fragmentation
    n = ctx.n(600, 12000)
    allv = {"EE": ["good", "trunc"], "CR": ["good"], "CERT": ["good", "untrusted", "expired", "good"],
            "CV": ["good", "good", "badsig"], "FIN": ["good", "good", "badmac"], "NST": ["good"], "SH": ["good"], "CH": ["good"]}
    for _ in range(n):
        ln = rng.randint(1, 9)
        ops = []
        for _ in range(ln):
            x = rng.choice(FLIGHT + FLIGHT + ["NST", "SH", "CH"])
            o = [x, rng.choice(allv[x])]
            if rng.random() < 0.2:
                o.append(rng.randint(1, 200))
            ops.append(o)
        cases.append(client_case(rng.choice([0, 1, 2]), ops, early=rng.choice([0, 0, 1]), verify=rng.choice([1, 1, 0])))
    return cases


def gen_server_flights(ctx):
    rng = ctx.rng
    cases = []
    alpha = [["CERT", "client"], ["CERT", "empty"], ["CV", "good"], ["CV", "badsig"], ["FIN", "good"], ["FIN", "badmac"],
             ["EE", "good"], ["CR", "good"]]
    maxlen = 5 if ctx.thorough else 4
    for psk in (0, 1, 2):
        for req in (0, 1):
            for n in range(maxlen + 1):
                for w in itertools.product(alpha, repeat=n):
                    if n == maxlen and not ctx.thorough and any(x[0] in ("EE", "CR") or x[1] == "badsig" for x in w):
                        continue     # quick tier: stray server-flight messages / bad signatures only in words up to length 3
                    cases.append(server_case(psk, req, [list(x) for x in w]))
    for _ in range(ctx.n(300, 6000)):
        ops = []
        for _ in range(rng.randint(1, 8)):
            o = list(rng.choice(alpha + [["NST", "good"], ["CH", "good"], ["SH", "good"]]))
            if rng.random() < 0.2:
                o.append(rng.randint(1, 200))
            ops.append(o)
        cases.append(server_case(rng.choice([0, 1, 2]), rng.choice([0, 1]), ops, early=rng.choice([0, 1])))
    return cases


# prefixes that put a real Context into each of the 13 states
CLIENT_PREFIX = {
    C_START: (0, []),
    C_SH: (0, [["START"]]),
    C_EE: (0, [["START"], ["SH"]]),
    C_CR_CERT: (0, [["START"], ["SH"], ["EE"]]),
    C_CERT: (0, [["START"], ["SH"], ["EE"], ["CR"]]),
    C_CV: (0, [["START"], ["SH"], ["EE"], ["CERT"]]),
    C_FIN: (0, [["START"], ["SH"], ["EE"], ["CERT"], ["CV"]]),
    C_POST: (0, [["START"], ["SH"], ["EE"], ["CERT"], ["CV"], ["FIN"]]),
}
SERVER_PREFIX = {
    S_CH: (0, []),
    S_CERT: (1, [["CH"]]),
    S_CV: (1, [["CH"], ["CERT", "client"]]),
    S_FIN: (0, [["CH"]]),
    S_POST: (0, [["CH"], ["FIN"]]),
}
TYPED_OPS = [["CH"], ["SH"], ["NST"], ["EOED"], ["EE"], ["CERT"], ["CR"], ["CV"], ["FIN"], ["KU"], ["CCERT"], ["MH"]]


def gen_pairs(ctx):
    """every (state, handshake type) pair with a well-formed, correctly keyed message of that type, and
    every (state, type byte 0..255) pair with an empty body"""
    ccases, scases = [], []
    for st, (_, pre) in CLIENT_PREFIX.items():
        for psk in (0, 1):
            if psk == 1 and st in (C_CR_CERT, C_CERT, C_CV):
                continue
            p = pre
            if psk == 1 and st == C_FIN:
                p = [["START"], ["SH"], ["EE"]]
            if psk == 1 and st == C_POST:
                p = [["START"], ["SH"], ["EE"], ["FIN"]]
            for op in TYPED_OPS:
                probe = [["START", list(op)]] if st == C_START else [list(op)]
                ccases.append({"role": "client", "psk": psk, "early": psk, "verify": 1, "reqcert": 0, "ops": p + probe,
                               "pair": [st, NAME_TYPE[op[0]]]})
        for t in range(256):
            probe = [["START", ["RAW", t]]] if st == C_START else [["RAW", t]]
            ccases.append({"role": "client", "psk": 0, "early": 0, "verify": 1, "reqcert": 0, "ops": pre + probe, "pair": [st, t]})
    for st, (req, pre) in SERVER_PREFIX.items():
        for psk in (0, 1):
            for op in TYPED_OPS:
                o = ["CERT", "client"] if op[0] == "CERT" else list(op)
                scases.append({"role": "server", "psk": psk, "early": psk, "verify": 1, "reqcert": req, "ops": pre + [o],
                               "pair": [st, NAME_TYPE[op[0]]]})
        for t in range(256):
            scases.append({"role": "server", "psk": 0, "early": 0, "verify": 1, "reqcert": req, "ops": pre + [["RAW", t]],
                           "pair": [st, t]})
    # hello variants (the non-ordering raise sites and the PSK selection logic)
    for psk in (0, 1, 2):
        for var in ("inject_psk", "psk_index", "bad_cipher", "bad_compression", "bad_version", "unknown_group", "bad_point",
                    "trunc"):
            for tail in ([], [["SH"], ["EE"], ["FIN"]], [["SH", "inject_psk"], ["EE"]]):
                ccases.append({"role": "client", "psk": psk, "early": 0, "verify": 1, "reqcert": 0,
                               "ops": [["START"], ["SH", var]] + tail})
        for var in ("bad_binder", "bad_cipher", "bad_compression", "bad_sigalg", "bad_version", "unknown_group", "bad_point",
                    "trunc"):
            for req in (0, 1):
                for early in (0, 1):
                    if var == "bad_binder" and psk != 1:
                        continue
                    scases.append({"role": "server", "psk": psk, "early": early, "verify": 1, "reqcert": req,
                                   "ops": [["CH", var], ["CH"], ["FIN"]]})
    # certificate list edge cases
    for var in ("empty", "garbage"):
        ccases.append(client_case(0, [["EE"], ["CERT", var], ["CERT"], ["CV"], ["FIN"]]))
        ccases.append(client_case(0, [["EE"], ["CR"], ["CERT", var], ["CERT"], ["CV"], ["FIN"]]))
        scases.append(server_case(0, 1, [["CERT", var], ["CERT", "client"], ["CV"], ["FIN"]]))
    # CertificateVerify algorithm checks (not advertised / does not fit the certificate's key)
    for var in ("wrong_alg", "unadvertised_alg"):
        for verify in (1, 0):
            ccases.append(client_case(0, [["EE"], ["CERT"], ["CV", var], ["CV"], ["FIN"]], verify=verify))
        scases.append(server_case(0, 1, [["CERT", "client"], ["CV", var], ["CV"], ["FIN"]]))
    return ccases, scases


# ------------------------------------------------------------------------------------------
def _ops(c):
    return c["ops"]


def _rebuild(c, ops):
    d = dict(c)
    d["ops"] = ops
    d.pop("pair", None)
    return d


def _opname(o):
    return "%s/%s" % (o[0], o[1] if len(o) > 1 and not isinstance(o[1], list) else "good")


class OracleOnly(corr.Suite):
    """used when the translator failed (coq/gen/TlsDispatch.v is stale, so the model is not the model of this
    tree): only the implementation oracle is run - the search for a concrete failing input"""

    def run(self, cases, label=""):
        st = self.stats
        reported = 0
        for c in cases:
            st["cases"] += 1
            st["steps"] += len(c["ops"])
            if len(c["ops"]) >= 3:
                st["distinct_nontrivial"] += 1
            if len(st["samples"]) < 3:
                st["samples"].append({"suite": self.name, "case": corr._short(c), "output_tokens": self.impl(c)[:40]})
            bad = corr._safe(self.oracle, c)
            if bad:
                st["oracle_failures"] += 1
                if reported < 3:
                    reported += 1
                    small = self.shrink(c, lambda x: bool(corr._safe(self.oracle, x)))
                    what, sig = corr._safe(self.oracle, small) or bad
                    self.ctx.violation("impl-violation", "%s: %s" % (self.name, what), corr._short(small, 4000), signature=sig)
        return st


def is_stale(ctx):
    names = [str(g.get("gen", "")) if isinstance(g, dict) else str(g) for g in ((ctx.build or {}).get("gen_errors") or [])]
    return any("c11_dispatch" in n or "c11_quic" in n for n in names)


def suites(ctx):
    stale = is_stale(ctx)
    if stale:
        ctx.notes.append("translator failed: model is stale, correspondence skipped, oracle only")
        mk = lambda name: OracleOnly(ctx, name, "exec_tlssm", encode, impl, oracle, _ops, _rebuild, opname=_opname)  # noqa: E731
        return mk("client_victim"), mk("server_victim")
    cv = corr.Suite(ctx, "client_victim", "exec_tlssm", encode, impl, oracle, _ops, _rebuild,
                    nontrivial=lambda c, out: len(c["ops"]) >= 3, opname=_opname)
    sv = corr.Suite(ctx, "server_victim", "exec_tlssm", encode, impl, oracle, _ops, _rebuild,
                    nontrivial=lambda c, out: len(c["ops"]) >= 2, opname=_opname)
    return cv, sv


def run(ctx):
    env()
    cv, sv = suites(ctx)
    for s in (cv, sv):
        s.run(corr.load_corpus("C11", s.name), "corpus")
    pc, ps = gen_pairs(ctx)
    STATS.update(completed=0, runs=0, outcomes={})
    run_chunks(cv, pc, "pairs")
    run_chunks(sv, ps, "pairs")
    pairs = {tuple(c["pair"]) for c in pc + ps if "pair" in c}
    fc = gen_client_flights(ctx)
    fs = gen_server_flights(ctx)
    run_chunks(cv, fc, "flights")
    run_chunks(sv, fs, "flights")
    completed, outcomes = STATS["completed"], dict(STATS["outcomes"])
    _TRACE_CACHE.clear()
    # QUIC level: the same adversary behind the peer puppet, real QuicConnection victims (props/c11_quic.py)
    from props import c11_quic
    qsuites, qextra = c11_quic.q_run(ctx, is_stale(ctx))
    return corr.merge_coverage(
        [cv, sv] + qsuites,
        "key-holding adversary against real tls.Context victims: every (state, type byte) pair on a Context driven into that "
        "state; all words over {EE,CR,Cert,CV,Fin} up to length 6 with at most one repetition plus all words up to length 4 "
        "(thorough: all words up to length 6) x {no PSK, PSK selected, PSK offered but not selected}; check-failure "
        "valuations (bad MAC / signature / untrusted / expired certificate / truncated) of the near-legal flights; server "
        "victim: all words over {Cert, Cert(empty), CV, CV(bad), Fin, Fin(bad), EE, CR} up to length 4 x PSK x "
        "client-certificate request; random longer words with fragmentation. distinct = distinct model token encoding",
        dict({"correspondence_skipped_translator_failed": isinstance(cv, OracleOnly), "state_type_pairs_probed": len(pairs),
              "client_flight_cases": len(fc), "server_flight_cases": len(fs),
              "runs_reaching_post_handshake": completed, "outcome_histogram_all_ops": outcomes}, **qextra))


def replay(ctx, rep):
    case = rep["case"]
    if case.get("ops") and isinstance(case["ops"][0], dict):
        from props import c11_quic
        return c11_quic.q_replay(ctx, case)
    env()
    cv, sv = suites(ctx)
    s = cv if case.get("role") == "client" else sv
    d, e, g = s.disagree(case)
    return {"suite": s.name, "disagree": d, "impl": e, "model": g, "oracle": oracle(case),
            "trace": [(op, k, v, st, keys) for (op, k, v, st, keys, _sb, _f) in trace_of(case)]}
