"""C09  A live connection always has a timer, and closing always terminates.

Tie: real QuicConnection pairs (harness/sim) run generated scenarios -- application traffic, close()
at arbitrary points, peer CONNECTION_CLOSE in every packet number space and fatal frames sent by a
key-holding puppet, blackouts, version negotiation, Retry, corrupted / garbage first datagrams, lossy
networks, timers fired at or after get_timer().  Every public API call made on an endpoint is traced:

* correspondence: the run is projected onto the op trace of coq/model/Timers.v (connect / receive with
  per-packet outcome / close / send / timer / next_event / get_timer) and the extracted model must
  print, after every op, the same result (exception class, kind of datagrams, kind of event, value of
  get_timer()), the same state class and the same event-queue length;
* implementation oracle (independent of the model): the property sentence coded over the observable
  behaviour (get_timer() after every call, events, datagrams on the wire, termination deadlines)."""
import json
import math
import random
import struct

from vlib import core, corr

DEPENDS = ["Timers", "TimersP", "TimersCloseP", "TimersFull", "TimersFullSpec", "TimersFullP", "TimersFullLink", "TimersFullAck", "Recovery", "RecBase", "AckQueue", "C12Consts", "C09Consts", "Base", "Tok", "C09"]
GENERATORS = ["c09_consts"]
TRUSTED_BASE = [
    "extraction (ExtrOcamlBasic only; Z kept inductive) + coq/extract/driver.ml for running coq/model/Timers.v",
    "harness/sim (Pair driver loop mirroring aioquic.asyncio, emulated listener, wire observer, puppet) and "
    "harness/props/c09.py (projection of a run onto the model's op trace; decides what 'agree' means)",
    "times: doubles are mapped to integers by their IEEE-754 bit pattern (strictly monotone on non-negative "
    "doubles); the deadlines now+idle and now+3*PTO are evaluated by the harness in Python float arithmetic and "
    "handed to the model as integer durations, so the model only needs order and the harness's own sum",
    "LABELLED PEEKS of private state used as model inputs: _loss.get_probe_timeout(), _remote_max_idle_timeout, "
    "_loss.spaces[*].ack_at, _loss.get_loss_detection_time(), _pacing_at (abstract timer sources), "
    "_close_pending (did this receive call close()) and the reason phrase of the _close_event it then recorded "
    "(reserved-bits close vs. frame error), len(_events); used as compared observable: _state class; "
    "per-packet fate of a datagram is read from the endpoint's own qlog events (packet_received / packet_dropped)",
    "modelled, not verified: connection.py timer/closing logic as Gallina functions",
    "composed model (coq/model/TimersFull.v, suite timersfull): per get_timer() / handle_timer() / datagrams_to_send() call the "
    "timer-relevant sub-state is INJECTED from LABELLED PEEKS (_close_at, _loss_at, _state class, per space ack_at / loss_time / "
    "ack_eliciting_in_flight / discarded, peer_completed_address_validation, _pto_count, _probe_pending, _pacing_at, "
    "_handshake_complete, send-key validity) and the model must predict the returned timer, the source it came from (harness: first "
    "source in consultation order whose value equals the result), the loss detection time incl. whether it is armed, the branch "
    "handle_timer takes (observed by wrapping _loss.on_loss_detection_timeout / _detect_loss), the successor sub-state, and the "
    "_pacing_at left by datagrams_to_send (pacer consultations observed by wrapping _pacer.next_send_time and _write_application); "
    "float VALUES (new loss_time, PTO deadline, pacer result, removed-packet counts) are inputs taken from the post-state; the "
    "transitions of the sub-state BETWEEN these calls (receive side, packet registration) are not replayed by this suite -- for "
    "ack_at that is C12's tie, for recovery C08's",
    "tools/gen/c09_consts.py: PACING_RESET probed from the source of datagrams_to_send (AST), fail closed",
    "tools/gen/c09_consts.py: CLOSE_BEGIN_UNCONDITIONAL -- position of `self._close_pending = False; self._close_begin(is_initiator=True, "
    "now=now)` in datagrams_to_send (last two statements of the top-level close branch, flush only afterwards); any other recognisable "
    "position gives false (proofs/TimersCloseP.v then fails), anything else fails closed",
    "close round (session 5): compared observables after EVERY op now include _close_pending and _close_at (LABELLED PEEKS); the oracle's "
    "notion of 'the endpoint decided to close' is close() on a started live connection (public) or _close_pending turning true inside "
    "receive_datagram (peek); 'can transmit' = _network_paths non-empty (peek); which epochs have send keys (_cryptos[*].send.is_valid()) "
    "is read for the evidence statistics only; the Retry-token scenarios use a local subclass of sim.Pair (listener issuing tokens of a "
    "chosen length) and, for a client that holds only Initial keys derived from the Retry's SCID, tell the wire observer that SCID so the "
    "puppet can build Initial packets (reads _retry_count and host_cid of the client)",
]
ASSUMPTIONS = [
    "the caller fires handle_timer(now) with now >= get_timer() (the property's own premise); handle_timer is "
    "not called after termination (it raises TypeError then: now >= None)",
    "op sequences start with connect() on a client / a first receive_datagram() on a server",
    "durations idle and 3*PTO are positive (only used for the deadline lemmas, stated as hypotheses there)",
]

INF = float("inf")
APP_REASON = "c09-local-%s"
PUPPET_REASON = b"c09-puppet"
EXN_CODES = {"AssertionError": 100, "TypeError": 101, "IndexError": 102}
STATE_CLASS = {"FIRSTFLIGHT": 0, "CONNECTED": 0, "CLOSING": 1, "DRAINING": 2, "TERMINATED": 3}
MODELLED = ("connect", "receive_datagram", "close", "datagrams_to_send", "handle_timer", "next_event", "get_timer")


_PR = []


def PACING_RESET():
    """Does the tree under check clear _pacing_at at the top of the non-closing branch of datagrams_to_send?  Probed from the
    source of the tree under check by tools/gen/c09_consts.py (the same probe that writes coq/gen/C09Consts.v in the build step of
    this run; asked directly so that a concurrent check of another tree cannot change the answer)."""
    if not _PR:
        import importlib.util
        import os
        try:
            spec = importlib.util.spec_from_file_location("c09_consts_probe", os.path.join(core.VERIF, "tools", "gen", "c09_consts.py"))
            mod = importlib.util.module_from_spec(spec)
            spec.loader.exec_module(mod)
            _PR.append(bool(mod.read_consts()["PACING_RESET"]))
        except Exception:  # noqa: BLE001  (the generator failed closed: the build step has already reported it)
            _PR.append(False)
    return _PR[0]


_CB = []


def CLOSE_BEGIN_UNCONDITIONAL():
    """Same probe: are `_close_pending = False; _close_begin(...)` the last statements of the close branch (statistics only: the
    model the runs are compared with always has the unconditional transition)."""
    if not _CB:
        PACING_RESET()
        import importlib.util
        import os
        try:
            spec = importlib.util.spec_from_file_location("c09_consts_probe2", os.path.join(core.VERIF, "tools", "gen", "c09_consts.py"))
            mod = importlib.util.module_from_spec(spec)
            spec.loader.exec_module(mod)
            _CB.append(bool(mod.read_consts()["CLOSE_BEGIN_UNCONDITIONAL"]))
        except Exception:  # noqa: BLE001
            _CB.append(None)
    return _CB[0]


def enc(x):
    """Strictly monotone map from doubles to integers (IEEE bit pattern, sign handled)."""
    x = float(x)
    if x != x or x in (INF, -INF):
        raise ValueError("non-finite time %r" % (x,))
    if x < 0:
        return -struct.unpack(">q", struct.pack(">d", -x))[0]
    return struct.unpack(">q", struct.pack(">d", x + 0.0))[0]


def idle_value(local, remote, pto):
    """The negotiated idle period as connection.py computes it (RFC 9000 10.1): the smaller of both
    max_idle_timeout values, but not less than three probe timeouts."""
    v = local
    if remote is not None:
        v = min(v, remote)
    return max(v, 3 * pto)


def opt(v):
    return [0] if v is None else [1, enc(v)]


# ======================================================================================
# tracing one endpoint


class Tracer:
    def __init__(self, pair, ep, max_slack):
        self.pair, self.ep, self.name = pair, ep, ep.name
        self.local_idle = ep.configuration.idle_timeout
        self.max_slack = max_slack
        self.tin = [1 if ep.name == "client" else 0]
        self.tout = []
        self.fin = []           # composed model (exec_timersfull): injected sub-states
        self.fout = []
        self.fops = {}
        self.fsrc = {}
        self.fbranch = {}
        self.fpace = {}
        self.loss_hooked = None
        self.loss_calls = []
        self.pace_calls = None
        self.log = []           # human readable, one line per op
        self.ops = 0
        self.opnames = {}
        self.dead = None        # reason tracing stopped (an exception the model does not cover)
        self.cur = []
        self.hooked = None
        self.expect_reserved = False
        self.last_rx = None
        # oracle state
        self.bad = []
        self.started = False
        self.term_popped = 0
        self.none_pending = False
        self.closing_since = None
        self.closing_deadline = None
        self.closing_wire = None      # (index into wire_log at that moment, datagrams allowed afterwards)
        self.close_req = None         # when this endpoint decided to close (close() / locally detected error)
        self.close_round = None       # (time, datagrams produced, keys) of the first datagrams_to_send after that
        self.idle_ub = None
        self.idle_lb = None
        self.term_time = None
        self.term_kind = None
        self.timer_checks = 0
        self.sent_after_term = 0
        self.undecrypted = 0
        self._orig = ep.call
        ep.call = self.call

    # ---- peeks (labelled: private state, see TRUSTED_BASE) ---------------------------------
    def peek(self):
        c = self.ep.conn
        return {"pto": c._loss.get_probe_timeout(), "remote": c._remote_max_idle_timeout,
                "pending": bool(c._close_pending), "state": c._state.name, "qlen": len(c._events),
                "close_at": c._close_at, "path": bool(c._network_paths)}

    def hook_qlog(self):
        c = self.ep.conn
        tr = c._quic_logger
        if tr is None or tr is self.hooked:
            return
        self.hooked = tr
        orig = tr.log_event
        me = self

        def log_event(*, category, event, data):
            me.cur.append((category + ":" + event, data, c._loss.get_probe_timeout(), c._remote_max_idle_timeout))
            return orig(category=category, event=event, data=data)

        tr.log_event = log_event

    def hook_loss(self):
        """Observe which branch handle_timer takes and what _write_application asks the pacer (wrappers only record)."""
        c = self.ep.conn
        loss = c._loss
        if loss is self.loss_hooked:
            return
        self.loss_hooked = loss
        me = self
        o_timeout, o_detect, o_next, o_wa = loss.on_loss_detection_timeout, loss._detect_loss, loss._pacer.next_send_time, c._write_application

        def on_loss_detection_timeout(*, now):
            me.loss_calls.append(("timeout", None))
            return o_timeout(now=now)

        def _detect_loss(*, now, space):
            me.loss_calls.append(("detect", loss.spaces.index(space) if space in loss.spaces else -1))
            return o_detect(now=now, space=space)

        def next_send_time(now):
            r = o_next(now=now)
            if me.pace_calls is not None:
                me.pace_calls.append(r)
            return r

        def _write_application(builder, network_path, now):
            if me.pace_calls is not None:
                me.pace_calls.append("reached")
            return o_wa(builder, network_path, now)

        loss.on_loss_detection_timeout = on_loss_detection_timeout
        loss._detect_loss = _detect_loss
        loss._pacer.next_send_time = next_send_time
        c._write_application = _write_application

    def sub(self):
        """LABELLED PEEK: the timer-relevant sub-state of the composed model."""
        c = self.ep.conn
        from aioquic.quic.connection import END_STATES
        from aioquic import tls
        sp = [(x.ack_at, x.loss_time, x.ack_eliciting_in_flight, bool(getattr(x, "discarded", False))) for x in c._loss.spaces]
        keys = False
        try:
            keys = c._cryptos[tls.Epoch.ONE_RTT].send.is_valid() or c._cryptos[tls.Epoch.ZERO_RTT].send.is_valid()
        except (AttributeError, KeyError):
            pass
        return {"close_at": c._close_at, "loss_at": c._loss_at, "end": c._state in END_STATES, "sp": sp,
                "pcav": bool(c._loss.peer_completed_address_validation), "pto": c._loss._pto_count, "pacing": c._pacing_at,
                "probe": bool(c._probe_pending), "complete": bool(c._handshake_complete), "appkeys": bool(keys),
                "ordinary": c._state not in END_STATES and bool(c._network_paths) and not c._close_pending,
                "term": c._state.name == "TERMINATED"}

    @staticmethod
    def sp_tokens(sp):
        out = [len(sp)]
        for a, lt, ae, d in sp:
            out += opt(a) + opt(lt) + [ae, 1 if d else 0]
        return out

    def femit(self, kind, tin, tout):
        if self.dead:
            return
        self.fin += tin
        self.fout += tout
        self.fops[kind] = self.fops.get(kind, 0) + 1

    def full_get_timer(self, sub, loss, res, exc):
        """get_timer(): the model gets the sub-state and the VALUE of the PTO deadline; it must say the result, its source,
        and the loss detection time (armed or not)."""
        has_lt = any(lt is not None for _, lt, _, _ in sub["sp"])
        ptod = loss if (loss is not None and not has_lt) else 0.0
        tin = [6] + opt(sub["close_at"]) + [1 if sub["end"] else 0] + self.sp_tokens(sub["sp"]) + \
            [1 if sub["pcav"] else 0, sub["pto"]] + opt(sub["pacing"]) + [enc(ptod)]
        if exc is not None:
            tout = [EXN_CODES.get(exc, 199)]
        elif res is None:
            tout = [0]
        elif sub["end"]:
            tout = [1, enc(res), 0]
        else:
            # first source in consultation order whose value is the result (strict `<` keeps the earlier one on ties)
            order = [(0, sub["close_at"])] + [(10 + i, a) for i, (a, _, _, _) in enumerate(sub["sp"])]
            lts = [(lt, i) for i, (_, lt, _, _) in enumerate(sub["sp"]) if lt is not None]
            if lts:
                best = min(v for v, _ in lts)
                order.append((20 + next(i for v, i in lts if v == best), loss))
            else:
                order.append((30, loss))
            order.append((40, sub["pacing"]))
            src = next((code for code, v in order if v is not None and v == res), -2)
            tout = [1, enc(res), src] + opt(loss)
            self.fsrc[src] = self.fsrc.get(src, 0) + 1
        self.femit("get_timer", tin, tout)

    def full_handle_timer(self, now, pre, post, exc):
        calls = self.loss_calls
        timeout = any(k == "timeout" for k, _ in calls)
        detect = [i for k, i in calls if k == "detect"]
        fired = pre["close_at"] is not None and now >= pre["close_at"]
        lt, ae = None, []
        if exc is not None:
            branch = None
        elif fired:
            branch = [1]
        elif timeout and detect:
            i = detect[0]
            branch = [2, i]
            if i < len(post["sp"]):
                lt = post["sp"][i][1]
                ae = [pre["sp"][i][2] - post["sp"][i][2]]
        elif timeout:
            branch = [3]
            ae = [a[2] - b[2] for a, b in zip(pre["sp"], post["sp"])]
        else:
            branch = [0]
        tin = [4, enc(now)] + opt(pre["close_at"]) + opt(pre["loss_at"]) + self.sp_tokens(pre["sp"]) + \
            [1 if pre["pcav"] else 0, pre["pto"], 1 if pre["probe"] else 0] + opt(lt) + [len(ae)] + ae
        if exc is not None:
            tout = [EXN_CODES.get(exc, 199)]
        else:
            tout = branch + [post["pto"], 1 if post["probe"] else 0] + self.sp_tokens(post["sp"])
            self.fbranch[branch[0]] = self.fbranch.get(branch[0], 0) + 1
        self.femit("handle_timer", tin, tout)

    def full_send(self, now, pre, post, exc):
        """The pacing part of datagrams_to_send (ordinary branch): _pacing_at is written only by the pacer consultations
        of _write_application (and by the reset of docs/C09-fix-1.patch when the tree has it)."""
        if exc is not None or not pre["ordinary"]:
            return
        calls = self.pace_calls or []
        reached = "reached" in calls
        consults = [r for r in calls if r != "reached"]
        a = pre["sp"][2][0] if len(pre["sp"]) > 2 else None
        due = a is not None and a <= now
        its = []
        if due and reached and pre["appkeys"]:
            its.append((None, 0, 1, 0 if consults else 1))          # the ACK bypass iteration
        for k, r in enumerate(consults):
            its.append((r, 0, 1, 1 if k == len(consults) - 1 else 0))
        tin = [3, 1 if PACING_RESET() else 0, 0 if reached else 1, 1 if pre["appkeys"] else 0] + opt(a) + \
            [1 if pre["complete"] else 0, enc(now)] + opt(pre["pacing"]) + [len(its)]
        for r, st, ro, em in its:
            tin += opt(r) + [st, ro, em]
        kind = "stale-kept" if (not reached and pre["pacing"] is not None and post["pacing"] is not None) else \
            ("not-reached" if not reached else ("bypass" if due else "consulted"))
        self.fpace[kind] = self.fpace.get(kind, 0) + 1
        self.femit("send_pacing", tin, opt(post["pacing"]))

    def dl(self, now, dur):
        """integer duration d with enc(now) + d = enc(now + dur)"""
        return enc(now + dur) - enc(now)

    def idle_dl(self, now, pto, remote):
        return self.dl(now, idle_value(self.local_idle, remote, pto))

    def violation(self, what, **sig):
        if len(self.bad) < 5:
            sig.setdefault("endpoint", self.name)
            self.bad.append(("%s %s @%.6f" % (self.name, what, self.ep.clock.now), sig))

    # ---- the wrapped Endpoint.call ---------------------------------------------------------
    def call(self, name, *args, **kwargs):
        ep = self.ep
        if ep.conn is None:
            return self._orig(name, *args, **kwargs)
        self.hook_qlog()
        self.hook_loss()
        now = ep.clock.now
        pre = self.peek()
        gt_in = self.timer_inputs() if name == "get_timer" else None
        fpre = self.sub() if name in ("get_timer", "handle_timer", "datagrams_to_send") else None
        self.loss_calls = []
        self.pace_calls = [] if name == "datagrams_to_send" else None
        self.cur = []
        nlog = len(ep.api_log)
        res = self._orig(name, *args, **kwargs)
        rec = ep.api_log[nlog] if len(ep.api_log) > nlog else None
        exc = rec.exc_type if rec is not None else None
        post = self.peek()
        if fpre is not None and name in MODELLED:
            self.hook_loss()                # _initialize may have replaced nothing, but a Retry re-creates nothing either; cheap
            if name == "get_timer":
                self.full_get_timer(fpre, gt_in[1], res, exc)
            elif name == "handle_timer":
                self.full_handle_timer(now, fpre, self.sub(), exc)
            else:
                self.full_send(now, fpre, self.sub(), exc)
        self.pace_calls = None
        self.record(name, args, kwargs, now, pre, post, res, exc, gt_in)
        self.oracle_after(name, now, pre, post, res, exc)
        if name != "get_timer":
            self.observe_timer(now)
        return res

    def timer_inputs(self):
        c = self.ep.conn
        return ([s.ack_at for s in c._loss.spaces], c._loss.get_loss_detection_time(), c._pacing_at)

    def emit(self, name, tin, tout, post, text):
        if self.dead:
            return
        self.tin += tin
        self.tout += tout + [STATE_CLASS[post["state"]], post["qlen"], 1 if post["pending"] else 0] + opt(post["close_at"])
        self.ops += 1
        self.opnames[name] = self.opnames.get(name, 0) + 1
        if len(self.log) < 4000:
            self.log.append("%.6f %s in=%s out=%s %s/%d" % (self.ep.clock.now, text, tin, tout, post["state"], post["qlen"]))

    def record(self, name, args, kwargs, now, pre, post, res, exc, gt_in):
        if self.dead or name not in MODELLED:
            return
        code = None
        if exc is not None:
            code = EXN_CODES.get(exc)
            if code is None or name == "receive_datagram":
                self.dead = "%s raised %s" % (name, exc)
                return
        if name == "connect":
            self.emit("connect", [0, enc(now), self.idle_dl(now, pre["pto"], pre["remote"])], [code or 0], post, "connect")
        elif name == "receive_datagram":
            pk, text = self.project_receive(now, pre, post, args[0])
            toks = [1, enc(now), self.idle_dl(now, pre["pto"], pre["remote"]), len(pk)]
            for p in pk:
                toks += p
            self.emit("receive", toks, [0], post, "receive " + text)
        elif name == "close":
            self.emit("close", [2], [0], post, "close")
        elif name == "datagrams_to_send":
            closing = any(n == "transport:packet_sent" and any(f.get("frame_type") == "connection_close" for f in d.get("frames", []))
                          for n, d, _, _ in self.cur)
            kind = 2 if (closing and res) else (1 if res else 0)
            self.emit("send", [3, enc(now), self.dl(now, 3 * post["pto"]), 1 if res else 0, max(0, post["qlen"] - pre["qlen"])],
                      [code or (10 + kind)], post,
                      "send n=%d" % len(res or []))
        elif name == "handle_timer":
            self.emit("timer", [4, enc(now)], [code or 0], post, "timer")
        elif name == "next_event":
            self.emit("next_event", [5], [self.event_token(res)], post, "next_event %s" % type(res).__name__)
        elif name == "get_timer":
            acks, loss, pacing = gt_in
            toks = [6, len(acks)]
            for a in acks:
                toks += opt(a)
            toks += opt(loss) + opt(pacing)
            out = [code] if code else ([40] if res is None else [41, enc(res)])
            self.emit("get_timer", toks, out, post, "get_timer -> %r" % (res,))

    def event_kind(self, ev):
        """1 own close(), 4 idle timeout, 5 version negotiation failure, 2 anything else (error / peer)."""
        reason = ev.reason_phrase
        if reason == APP_REASON % self.name:
            return 1
        if reason == "Idle timeout":
            return 4
        if reason == "Could not find a common protocol version":
            return 5
        return 2

    def event_token(self, ev):
        if ev is None:
            return 20
        if type(ev).__name__ != "ConnectionTerminated":
            return 21
        return 30 + self.event_kind(ev)

    def project_receive(self, now, pre, post, data):
        """Per-packet fate of this datagram from the endpoint's qlog events of this call."""
        evs = self.cur
        plevel = [i for i, e in enumerate(evs) if e[0] in ("transport:packet_received", "transport:packet_dropped")]
        first_vn = len(data) >= 5 and (data[0] & 0x80) and data[1:5] == b"\x00\x00\x00\x00"
        pk, procs = [], []
        for j, i in enumerate(plevel):
            name, d = evs[i][0], evs[i][1]
            if j + 1 < len(plevel):
                pto, remote = evs[plevel[j + 1]][2], evs[plevel[j + 1]][3]
            else:
                pto, remote = post["pto"], post["remote"]
            idle = self.idle_dl(now, pto, remote)
            if name.endswith("packet_dropped"):
                trig = d.get("trigger")
                if trig in ("key_unavailable", "payload_decrypt_error"):
                    pk.append([1])
                elif trig == "unexpected_packet":
                    pk.append([2, 2, idle] if first_vn else [3, 0, idle])
                else:
                    pk.append([0])
            else:
                ptype = d["header"].get("packet_type")
                if ptype == "version_negotiation":
                    verdict = 0
                    for n2, d2, _, _ in evs[i + 1:]:
                        if n2 == "transport:version_information" and "server_versions" in d2:
                            verdict = 1 if d2.get("chosen_version") is None else 2
                    pk.append([2, verdict, idle])
                elif ptype == "retry":
                    pk.append([3, 1, idle])
                else:
                    has_close = any(f.get("frame_type") == "connection_close" for f in d.get("frames", []))
                    p = [5, 0] + ([1, self.dl(now, 3 * pto)] if has_close else [0]) + [0, idle]
                    procs.append(p)
                    pk.append(p)
        became_term = pre["state"] != "TERMINATED" and post["state"] == "TERMINATED"
        nev = post["qlen"] - pre["qlen"] - (1 if became_term else 0)
        if post["pending"] and not pre["pending"]:
            # this call closed the connection locally.  Classify by what the endpoint did (LABELLED PEEK of the
            # close event it recorded), not by whether a qlog record exists: the reserved-bits check closes after
            # decryption but before any payload / ack / idle bookkeeping, with or without a packet_received record.
            ev = self.ep.conn._close_event
            reserved = ev is not None and ev.reason_phrase == "Reserved bits must be zero"
            if reserved:
                last = evs[plevel[-1]] if plevel else None
                if procs and last is not None and last[0] == "transport:packet_received" and last[1] is not None \
                        and not last[1].get("frames") and pk and pk[-1] is procs[-1]:
                    pk.pop()                     # the record belongs to the reserved-bits packet itself
                    procs.pop()
                pk.append([4])
            elif not procs:
                pk.append([4])
            else:
                procs[-1][-2] = 1
        self.expect_reserved = False
        if procs:
            procs[0][1] = nev
        elif nev:
            pk.insert(0, [5, nev, 0, 0, self.idle_dl(now, post["pto"], post["remote"])])  # unexplained events: let it show
        names = {0: "stop", 1: "skip", 2: "vn", 3: "retry", 4: "reserved", 5: "proc"}
        return pk, "[%s]" % ",".join(names[p[0]] + ("+close" if p[0] == 5 and p[2] else "") + ("+err" if p[0] == 5 and p[-2] else "") for p in pk)

    # ---- implementation oracle (the property statement; independent of the model) -------------
    def limit(self):
        return self.closing_deadline if self.closing_since is not None else self.idle_ub

    def oracle_after(self, name, now, pre, post, res, exc):
        if name in ("connect", "receive_datagram") and exc is None:
            self.started = True
        # idle deadline bounds (upper: any datagram may have re-armed it; lower: only a processed packet does)
        if name == "connect" and exc is None:
            cand = now + idle_value(self.local_idle, pre["remote"], pre["pto"])
            self.idle_ub = cand if self.idle_ub is None else max(self.idle_ub, cand)
            self.idle_lb = cand
        if name == "receive_datagram" and pre["state"] in ("FIRSTFLIGHT", "CONNECTED"):
            cands = [now + idle_value(self.local_idle, pre["remote"], pre["pto"]),
                     now + idle_value(self.local_idle, post["remote"], post["pto"])]
            for n, d, pto, remote in self.cur:
                cands.append(now + idle_value(self.local_idle, remote, pto))
            self.idle_ub = max(cands + ([self.idle_ub] if self.idle_ub is not None else []))
            processed = [e for e in self.cur if e[0] == "transport:packet_received"]
            if self.idle_lb is None:
                self.idle_lb = min(cands)
            if processed and post["state"] in ("FIRSTFLIGHT", "CONNECTED") and not post["pending"]:
                self.idle_lb = min(c for c in cands[1:])
        # ---- the close round.  The endpoint decided to close: close() on a started live connection (public), or a
        # close it decided on itself while receiving (LABELLED PEEK: _close_pending turned true).  The FIRST
        # datagrams_to_send that follows on a connection that can transmit (LABELLED PEEK: it has a network path) starts the
        # closing period WHETHER OR NOT it returns anything: state CLOSING afterwards, termination due 3 * PTO (of this
        # moment) later, nothing is sent any more.  A server that never adopted a path has nobody to tell: it waits for
        # its idle deadline (O6 in docs/C09.md), which the idle bound below covers.
        live_pre = pre["state"] in ("FIRSTFLIGHT", "CONNECTED")
        if self.close_round is not None and name == "datagrams_to_send" and res:
            self.violation("datagrams_to_send returned %d datagram(s) after the close round" % len(res), check="send-after-close-round")
        if self.close_req is None and self.started and not self.term_popped and self.closing_since is None and exc is None and live_pre:
            if name == "close" or (post["pending"] and not pre["pending"]):
                self.close_req = now
        if name == "datagrams_to_send" and exc is None and self.close_req is not None and self.close_round is None \
                and live_pre and pre["path"] and not self.term_popped and self.closing_since is None:
            self.close_round = (now, len(res or []), self.send_keys())
            if post["state"] != "CLOSING" or post["pending"]:
                self.violation("the first datagrams_to_send after the close (requested at %.6f) returned %d datagram(s) and left the "
                               "connection %s%s: the closing period did not start" % (
                                   self.close_req, len(res or []), post["state"], " with the close still pending" if post["pending"] else ""),
                               check="close-round-not-closing", produced=bool(res))
                # the property's deadline runs from this call all the same
                self.closing_since = now
                self.closing_deadline = now + 3 * post["pto"]
                self.closing_wire = (len(self.pair.network.wire_log), len(res or []))
        # closing begins (LABELLED PEEK of _state): deadline = now + 3 * PTO of this endpoint at this moment
        if pre["state"] in ("FIRSTFLIGHT", "CONNECTED") and post["state"] in ("CLOSING", "DRAINING"):
            self.closing_since = now
            self.closing_deadline = now + 3 * post["pto"]
            allowed = len(res) if (name == "datagrams_to_send" and res) else 0
            self.closing_wire = (len(self.pair.network.wire_log), allowed)
        # termination: no later than the closing deadline / the idle deadline (+ how late the driver fired the timer)
        if pre["state"] != "TERMINATED" and post["state"] == "TERMINATED":
            self.term_time = now
            if name == "handle_timer":
                lim = self.limit()
                if lim is not None and now > lim + self.max_slack:
                    self.violation("terminated %.6f s after its %s deadline" % (now - lim, "closing" if self.closing_since is not None else "idle"),
                                   check="late-termination")
        if name == "datagrams_to_send" and res and self.term_popped:
            self.violation("datagrams_to_send returned %d datagram(s) after ConnectionTerminated" % len(res), check="send-after-termination")
        if name == "next_event":
            if res is not None and self.term_popped:
                self.violation("event %s delivered after ConnectionTerminated" % type(res).__name__, check="event-after-termination",
                               event=type(res).__name__)
            if type(res).__name__ == "ConnectionTerminated":
                self.term_popped += 1
                if self.term_popped == 1:
                    self.term_kind = self.event_kind(res)
                    if self.term_kind == 4 and self.idle_lb is not None and self.term_time is not None \
                            and self.closing_since is None and self.term_time < self.idle_lb:
                        self.violation("idle timeout reported %.6f s before the idle period ended" % (self.idle_lb - self.term_time),
                                       check="early-idle-termination")
            if res is None and self.none_pending and not self.term_popped:
                self.violation("get_timer() was None although no ConnectionTerminated has been reported", check="timer-none")
                self.none_pending = False

    def send_keys(self):
        """LABELLED PEEK, statistics only: which epochs have send keys (the handshake stage of a close round)."""
        try:
            ks = [e.name for e, cp in self.ep.conn._cryptos.items() if cp.send.is_valid()]
        except Exception:  # noqa: BLE001
            return "unknown"
        if "ONE_RTT" in ks:
            return "1rtt"
        if "HANDSHAKE" in ks:
            return "handshake"
        if "INITIAL" in ks:
            return "initial-only"
        return "no-keys"

    def observe_timer(self, now):
        """get_timer() after every API call (an extra, legal API call; recorded as a model op too)."""
        c = self.ep.conn
        gt_in = self.timer_inputs()
        pre = self.peek()
        fpre = self.sub()
        exc = None
        try:
            t = c.get_timer()
        except Exception as e:  # noqa: BLE001  (the oracle reports it)
            t, exc = None, type(e).__name__
        post = self.peek()
        self.full_get_timer(fpre, gt_in[1], t, exc)
        self.record("get_timer", (), {}, now, pre, post, t, exc, gt_in)
        self.check_timer(t, exc, now)

    def check_timer(self, t, exc, now):
        self.timer_checks += 1
        if exc is not None:
            if self.started:
                self.violation("get_timer() raised %s" % exc, check="get_timer-raises", exception=exc)
            return
        if self.term_popped:
            if t is not None:
                self.violation("get_timer() = %r after ConnectionTerminated" % (t,), check="timer-after-termination")
            return
        if not self.started:
            return
        if t is None:
            self.none_pending = True     # legitimate only if the termination event is already queued
            return
        if not isinstance(t, float) or not math.isfinite(t):
            self.violation("get_timer() = %r is not a finite time" % (t,), check="timer-not-finite")
            return
        lim = self.limit()
        if lim is not None and t > lim:
            self.violation("get_timer() = %.6f is %.6f s later than the %s deadline" % (t, t - lim, "closing" if self.closing_since is not None else "idle"),
                           check="timer-after-deadline", phase="closing" if self.closing_since is not None else "idle")

    def finish(self, horizon_reached):
        if self.ep.conn is None:
            return
        if self.started and self.term_popped != 1:
            self.violation("%d ConnectionTerminated events reported by the end of the run" % self.term_popped,
                           check="termination-count", count=self.term_popped)

    def check_wire(self):
        """After closing began: only the closing datagram(s) of that very datagrams_to_send call; they carry
        nothing but CONNECTION_CLOSE (+ PADDING).  Uses the wire observer (independent frame parser)."""
        if self.closing_wire is None:
            return
        start, allowed = self.closing_wire
        mine = [r for r in self.pair.network.wire_log[start:] if r.sender == self.name and not r.injected]
        if len(mine) > allowed:
            self.violation("%d datagram(s) sent after closing began (allowed %d)" % (len(mine), allowed), check="sent-after-close")
        obs = self.pair.observer
        for r in mine[:allowed]:
            for p in obs.by_datagram.get(r.index, []):
                if p.type == "padding":
                    continue
                if not p.decrypted:        # the observer has no key for it (e.g. Initial keys of a DCID a puppet made up)
                    self.undecrypted += 1
                    continue
                names = set(p.frame_names())
                if not names <= {"CONNECTION_CLOSE", "CONNECTION_CLOSE_APP", "PADDING"} or not names & {"CONNECTION_CLOSE", "CONNECTION_CLOSE_APP"}:
                    self.violation("closing datagram carries %s" % sorted(names), check="closing-datagram-content")
        closes = [r for r in self.pair.network.wire_log if r.sender == self.name and not r.injected and any(
            p.decrypted and set(p.frame_names()) & {"CONNECTION_CLOSE", "CONNECTION_CLOSE_APP"} for p in obs.by_datagram.get(r.index, []))]
        # every CONNECTION_CLOSE-bearing datagram belongs to the one datagrams_to_send call that started the closing (a close
        # round may fill more than one datagram: an Initial header with a long Retry token leaves room for one packet only)
        legit = {r.index for r in mine[:allowed]}
        stray = [r for r in closes if r.index not in legit]
        if stray:
            self.violation("%d datagram(s) carrying CONNECTION_CLOSE outside the close round (%d in it)" % (len(stray), len(closes) - len(stray)),
                           check="close-repeated")
        return len(closes)


# ======================================================================================
# scenarios


def build_fates(sim, case):
    net = case.get("net", {})
    rng = random.Random("c09-net-%s" % case["seed"])
    base = sim.Fates.random(rng, net.get("p_drop", 0.0), net.get("p_dup", 0.0), net.get("p_reorder", 0.0), net.get("max_delay", 0.0)) \
        if any(net.get(k) for k in ("p_drop", "p_dup", "p_reorder")) else sim.Fates.perfect()
    corrupt = {int(k): v for k, v in (net.get("corrupt") or {}).items()}
    if not corrupt:
        return base

    def fate(index, direction, data):
        if index in corrupt:
            return [sim.corrupt(corrupt[index], 0x55)]
        return base(index, direction, data)

    return fate


BAD_FRAMES = {
    "truncated": lambda F: [F.truncated(F.max_stream_data(0, 1 << 40), 3)],
    "unknown_type": lambda F: [F.unknown(0x3F)],
    "max_streams_huge": lambda F: [F.max_streams((1 << 60) + 1)],
    "stream_wrong_dir": lambda F: None,        # filled per side below
    "retire_unknown_cid": lambda F: [F.retire_connection_id(77)],
    "stop_sending_unknown": lambda F: [F.stop_sending(1001 * 4 + 2, 0)],
}


def garbage_bytes(act):
    """Datagrams that are not valid QUIC for this connection (none of them can be decrypted)."""
    v = act.get("variant", "short")
    n = act.get("len", 30)
    if v == "short":            # short header, unknown CID (a server in FIRSTFLIGHT asserts on it: C05 territory)
        return b"\x40" + bytes(n)
    if v == "truncated":        # long header cut inside the CID fields: header parse error
        return b"\xc0\x00\x00\x00\x01\x14" + bytes(3)
    if v == "badversion":       # long header of an unsupported version
        return b"\xc0\x0a\x0a\x0a\x0a\x08" + bytes(8) + b"\x08" + bytes(8) + bytes(n)
    if v == "vn":               # a Version Negotiation packet out of the blue
        return b"\xc0\x00\x00\x00\x00\x08" + bytes(8) + b"\x08" + bytes(8) + b"\x00\x00\x00\x01"
    if v == "small_initial":    # Initial header in a datagram below 1200 bytes
        return b"\xc0\x00\x00\x00\x01\x08" + bytes(8) + b"\x08" + bytes(8) + b"\x00\x40\x20" + bytes(32)
    return bytes([act.get("first", 0x40)]) + bytes(n)


_PAIR_CLASS = []


def pair_class(sim):
    """sim.Pair whose emulated listener issues Retry tokens of a chosen total length (`retry_token`, >= 25 bytes): the
    token of harness/sim's listener (b"simretry" + len + ODCID + 8-byte SCID) followed by filler.  A client that accepted
    a token about as long as a datagram cannot write an Initial packet any more (no room after the header); with only
    Initial keys its close round then produces NO datagram.  Local subclass: harness/sim is shared and not edited."""
    if _PAIR_CLASS:
        return _PAIR_CLASS[0]
    from sim import net as simnet
    from aioquic.buffer import Buffer
    from aioquic.quic.packet import QuicPacketType, encode_quic_retry, pull_quic_header

    class RetryTokenPair(sim.Pair):
        retry_token = None
        retry_scid = None

        def _listener(self, ep, data, src, index):
            if not (self.retry and self.retry_token):
                return super()._listener(ep, data, src, index)
            cfg = ep.configuration
            now = self.clock.now
            try:
                header = pull_quic_header(Buffer(data=data), host_cid_length=cfg.connection_id_length)
            except ValueError:
                return super()._listener(ep, data, src, index)
            if (header.version is not None and header.version not in cfg.supported_versions) or len(data) < 1200 \
                    or header.packet_type != QuicPacketType.INITIAL:
                return super()._listener(ep, data, src, index)
            odcid = header.destination_cid
            if not header.token:
                with self._listener_ctx():
                    import os as _os
                    scid = _os.urandom(8)
                token = b"simretry" + bytes([len(odcid)]) + odcid + scid
                token += b"\x7a" * max(0, self.retry_token - len(token))
                pkt = encode_quic_retry(version=header.version, source_cid=scid, destination_cid=header.source_cid,
                                        original_destination_cid=odcid, retry_token=token)
                self.retry_scid = scid
                self.listener_log.append((now, "retry", index))
                self.network.send(pkt, ep, src)
                return simnet.StepRecord(now, "listener", ep.name, index, 1)
            tok = header.token
            if not tok.startswith(b"simretry") or len(tok) < 9 + tok[8] + 8:
                self.listener_log.append((now, "bad_token", index))
                return simnet.StepRecord(now, "listener", ep.name, index)
            n = tok[8]
            odcid, retry_scid = tok[9:9 + n], tok[9 + n:9 + n + 8]
            self._create_server(odcid, retry_scid)
            self.listener_log.append((now, "accept", index))
            self.network.delivered.append((now, index, src, ep.addr))
            return self._deliver_to(ep, data, src, index)

    _PAIR_CLASS.append(RetryTokenPair)
    return RetryTokenPair


def do_act(sim, pair, tracers, act, notes):
    kind = act["do"]
    side = act.get("side", "client")
    ep = pair.endpoint(side)
    if kind in ("close", "close_nopump", "double_close"):
        if ep.conn is None:
            notes.append("skipped:%s(no-conn)" % kind)
            return
        ep.close(act.get("code", 0), act.get("frame_type"), APP_REASON % side)
        if kind == "double_close":
            ep.close(act.get("code", 0) + 1, None, "second")
        if kind != "close_nopump":
            pair.pump(ep)
    elif kind in ("peer_close", "fatal", "reserved"):
        as_side = "server" if side == "client" else "client"        # puppet impersonates the peer of `side`
        if ep.conn is None:
            notes.append("skipped:%s(no-conn)" % kind)
            return
        pup = sim.Puppet(pair, as_side=as_side)
        F = sim.F
        epoch = act.get("epoch", "1rtt")
        if kind == "peer_close":
            frames = [F.connection_close(act.get("code", 0x1C09), act.get("frame_type", 0), PUPPET_REASON, app=act.get("app", False))]
            if act.get("with_stream"):
                frames = [F.ping()] + frames
        elif kind == "reserved":
            frames = [F.ping(), F.padding(8)]
        else:
            which = act.get("frame", "truncated")
            if which == "stream_wrong_dir":
                sid = 3 if as_side == "client" else 2   # a uni stream initiated by the receiver itself
                frames = [F.stream(sid, 0, b"x")]
            else:
                frames = BAD_FRAMES[which](F)
        was = tracers[side].closing_since
        was_req = tracers[side].close_req
        extra = {}
        rscid = getattr(pair, "retry_scid", None)
        if side == "client" and epoch == "initial" and rscid is not None and pair.server.conn is None and ep.conn._retry_count:
            # the client accepted the listener's Retry but no server connection exists (the client cannot answer: its token
            # fills the datagram).  Its Initial keys now derive from the Retry's SCID: tell the observer, which is where the
            # puppet takes its keys from, and address the client by its own CID.
            if rscid not in pair.observer.initial_dcids:
                pair.observer.initial_dcids.append(rscid)
            extra = {"dcid": ep.conn.host_cid, "scid": rscid}
        try:
            if kind == "reserved":
                tracers[side].expect_reserved = True
                pup.send_frames(epoch, frames, deliver="now", reserved_bits=1, **extra)
            else:
                pup.send_frames(epoch, frames, deliver="now", **extra)
            if was is None and tracers[side].closing_since is not None:
                notes.append("effect:%s:%s" % (kind, epoch))       # this very packet started the closing
            elif was_req is None and tracers[side].close_req is not None:
                notes.append("effect:%s:%s:close-requested" % (kind, epoch))
        except ValueError as e:
            tracers[side].expect_reserved = False
            notes.append("skipped:%s(%s)" % (kind, str(e)[:40]))
    elif kind == "blackout":
        d = act.get("dir", "both")
        drop = sim.drop
        old = pair.network.fate

        def fate(index, direction, data, d=d, old=old):
            if d == "both" or d == direction:
                return [drop()]
            return old(index, direction, data)

        pair.network.set_fate(fate)
    elif kind == "rebind_ping":
        if pair.client.conn is not None:
            pair.rebind("client")
            try:
                pair.client.send_ping(act.get("uid", 1))
            except sim.ApiRaised:
                pass
            pair.pump(pair.client)
    elif kind == "timer_early":
        if ep.conn is not None and tracers[side].started and not tracers[side].term_time:
            ep.handle_timer()
            pair.pump(ep)
    elif kind == "extra_send":
        if ep.conn is not None:
            pair.pump(ep)
    elif kind == "garbage":
        # a datagram that is not QUIC at all, from the peer's address
        data = garbage_bytes(act)
        src = pair.peer_of(ep).addr
        if ep.conn is not None:
            pair.deliver_now(data, src, ep)
    elif kind == "app":
        item = act["item"]
        ep = pair.endpoint(item.side)
        if ep.conn is None:
            return
        if item.args.get("after_seen") and not any(getattr(e, "stream_id", None) == item.args["stream"] for _, e in ep.events):
            return
        n = len(ep.raised)
        pair.apply(item)
        if len(ep.raised) > n:                 # API misuse by the script (e.g. write on a finished stream): not ours
            for r in ep.raised[n:]:
                if r.name in MODELLED:
                    return
            del ep.raised[n:]
    elif kind == "bulk":
        # a write far larger than the congestion window: the endpoint stays congestion-limited for many round trips
        if ep.conn is not None and tracers[side].started and not tracers[side].term_popped and ep.handshake_completed:
            n = len(ep.raised)
            try:
                sid = ep.get_next_available_stream_id(act.get("uni", False))
                ep.send_stream_data(sid, bytes(act.get("size", 200000)), act.get("fin", False))
            except sim.ApiRaised:
                pass
            del ep.raised[n:]
            pair.pump(ep)
        else:
            notes.append("skipped:bulk")
    elif kind == "wait":
        pass
    else:
        raise ValueError("unknown act %r" % (kind,))


def run_scenario(case):
    import logging
    import sim
    logging.getLogger("quic").setLevel(logging.CRITICAL)
    cfg = case.get("cfg", {})
    slack = cfg.get("slack", 0.0)
    versions = cfg.get("versions", "default")
    kw = {}
    if versions == "vn_fail":
        kw.update(client_versions=[0x1A2A3A4A], server_versions=[sim.V1])
    elif versions == "vn_ok":
        kw.update(client_versions=[0x1A2A3A4A, sim.V1], server_versions=[sim.V1])
    elif versions == "v2":
        kw.update(versions=[sim.V2, sim.V1])
    cls = pair_class(sim) if cfg.get("retry_token") else sim.Pair
    pair = cls(case["seed"], client_config={"idle_timeout": cfg.get("c_idle", 2.5)},
                    server_config={"idle_timeout": cfg.get("s_idle", 2.5)}, fates=build_fates(sim, case),
                    retry=cfg.get("retry", False), congestion_control_algorithm=cfg.get("cc", "reno"),
                    timer_slack=(lambda r: r.uniform(0.0, slack)) if slack else None,
                    eager_server=cfg.get("eager", False), capture_exceptions=True, latency=cfg.get("latency", 0.01), **kw)
    if cfg.get("retry_token"):
        pair.retry_token = int(cfg["retry_token"])
    max_slack = slack + (pair.spin_quantum or 0.0) + 1e-9
    tracers = {n: Tracer(pair, pair.endpoint(n), max_slack) for n in ("client", "server")}
    notes = []
    timeline = [dict(a) for a in case.get("acts", [])]
    tr = case.get("traffic")
    if tr:
        items = sim.gen_script(random.Random("c09-app-%s" % tr["seed"]), tr.get("profile", "small"))
        for it in items:
            if it.op in ("close", "rebind"):
                continue
            timeline.append({"t": tr.get("t0", 0.06) + (it.t or 0.0), "do": "app", "item": it})
    timeline.sort(key=lambda a: a.get("t", 0.0))
    t0 = pair.clock.now
    outcome = "ok"
    try:
        pre = [a for a in timeline if a.get("t", 0.0) < 0]
        for a in pre:                      # actions before connect(): garbage to an eager server, close() before connect
            do_act(sim, pair, tracers, a, notes)
        if cfg.get("connect_pump", True):
            pair.connect()
        else:
            pair.client.connect(pair.server.addr)
        pumped = cfg.get("connect_pump", True)
        for a in timeline:
            if a.get("t", 0.0) < 0:
                continue
            if not pumped and a["t"] > 0:
                pair.pump(pair.client)      # connect() without transmit: the t = 0 actions ran first, now transmit
                pumped = True
            dt = t0 + a["t"] - pair.clock.now
            if dt > 0:
                pair.advance(dt)
            do_act(sim, pair, tracers, a, notes)
        if not pumped:
            pair.pump(pair.client)
        horizon = 3 * max(cfg.get("c_idle", 2.5), cfg.get("s_idle", 2.5)) + 30.0

        def done(p):
            return all(t.ep.conn is None or not t.started or t.term_popped for t in tracers.values())

        why = pair.run(done, max_time=horizon, max_steps=400000)
        if why != "until":
            outcome = "not-terminated:" + why
        # after termination: nothing more may come out, whatever goes in
        for t in tracers.values():
            ep = t.ep
            if ep.conn is None or not t.term_popped:
                continue
            data = ep.received[-1][1] if ep.received else b"\x40" + bytes(30)
            ep.receive_datagram(data, pair.peer_of(ep).addr)
            pair.pump(ep)
            ep.close(0, None, "late")
            pair.pump(ep)
    except sim.SimStall as e:
        outcome = "stall:%s" % e
    for t in tracers.values():
        t.finish(outcome)
    res = {"outcome": outcome, "notes": notes, "anomalies": list(pair.anomalies), "spins": {n: t.ep.spins for n, t in tracers.items()},
           "clock": pair.clock.now - t0, "wire": len(pair.network.wire_log), "sides": {}}
    for n, t in tracers.items():
        ncl = t.check_wire()
        bad = list(t.bad)
        if outcome.startswith("not-terminated") and t.started and not t.term_popped and not any(s.get("check") == "termination-count" for _, s in bad):
            bad.append(("%s not terminated within the horizon (%s)" % (n, outcome), {"check": "termination-count", "endpoint": n, "count": 0}))
        raised = [r for r in t.ep.raised]
        res["sides"][n] = {"fin": t.fin, "fout": t.fout, "fops": t.fops, "fsrc": t.fsrc, "fbranch": t.fbranch, "fpace": t.fpace,
                           "tin": t.tin, "tout": t.tout, "bad": bad, "ops": t.ops, "opnames": t.opnames, "dead": t.dead,
                           "log": t.log, "term_kind": t.term_kind, "started": t.started, "closes_on_wire": ncl,
                           "closing": None if t.closing_since is None else t.closing_since - t0,
                           "term_time": None if t.term_time is None else t.term_time - t0,
                           "timer_checks": t.timer_checks,
                           "close_round": None if t.close_round is None else [t.close_round[0] - t0, t.close_round[1], t.close_round[2]],
                           "raised": ["%s:%s" % (r.name, r.exc_type) for r in raised][:5]}
    return res


_CACHE = {}


def scenario(case):
    key = json.dumps(case, sort_keys=True, default=str)
    if key not in _CACHE:
        if len(_CACHE) > 3000:
            _CACHE.clear()
        r = run_scenario(case)
        for s in r["sides"].values():          # keep the cache small
            s["log"] = s["log"][-60:]
        _CACHE[key] = r
    return _CACHE[key]


# ======================================================================================
# case generation


def gen_case(rng, kind=None):
    kinds = ["close"] * 6 + ["peer_close"] * 4 + ["fatal"] * 3 + ["blackout"] * 3 + ["idle"] * 2 + ["vn"] * 1 + ["corrupt_first"] * 1 + \
        ["eager_garbage"] * 1 + ["mix"] * 3 + ["manual"] * 2 + ["race"] * 2 + ["retry_close"] * 4 + ["limited_close"] * 2
    kind = kind or rng.choice(kinds)
    idles = [0.6, 1.0, 2.5, 2.5, 5.0]
    cfg = {"c_idle": rng.choice(idles), "s_idle": rng.choice(idles), "retry": rng.random() < 0.15, "cc": rng.choice(["reno", "cubic"]),
           "slack": rng.choice([0.0, 0.0, 0.004, 0.15]), "versions": rng.choice(["default", "default", "v2"])}
    if rng.random() < 0.08:
        cfg[rng.choice(["c_idle", "s_idle"])] = 60.0
    net = {}
    if rng.random() < 0.5:
        net = {"p_drop": rng.choice([0.0, 0.05, 0.2]), "p_dup": rng.choice([0.0, 0.1]), "p_reorder": rng.choice([0.0, 0.2]),
               "max_delay": rng.choice([0.0, 0.02, 0.1])}
    case = {"seed": rng.randrange(1 << 30), "kind": kind, "cfg": cfg, "net": net, "acts": []}
    if rng.random() < 0.6:
        case["traffic"] = {"profile": rng.choice(["small", "small", "closing"]), "seed": rng.randrange(1 << 20), "t0": 0.06}
    hs_times = [0.0, 0.005, 0.012, 0.015, 0.022, 0.025, 0.032, 0.035, 0.045]
    side = rng.choice(["client", "server"])

    def when():
        r = rng.random()
        if r < 0.35:
            return rng.choice(hs_times)
        if r < 0.7:
            return round(rng.uniform(0.05, 0.4), 3)
        return round(rng.uniform(0.4, 2.0), 3)

    def close_act(s=None):
        return {"t": when(), "do": rng.choice(["close", "close", "close", "close_nopump", "double_close"]), "side": s or rng.choice(["client", "server"]),
                "code": rng.randrange(0, 1 << 10)}

    def peer_close_act():
        ep = rng.choice(["initial", "handshake", "1rtt", "1rtt"])
        t = {"initial": rng.choice([0.001, 0.005, 0.012, 0.015]), "handshake": rng.choice([0.022, 0.025, 0.028, 0.032, 0.035]),
             "1rtt": rng.choice([0.035, 0.045, 0.1, round(rng.uniform(0.05, 1.5), 3)])}[ep]
        return {"t": t, "do": "peer_close", "side": rng.choice(["client", "server"]), "epoch": ep, "app": rng.random() < 0.3,
                "code": rng.randrange(0, 1 << 12), "with_stream": rng.random() < 0.2}

    def fatal_act():
        ep = rng.choice(["1rtt", "1rtt", "1rtt", "handshake", "initial"])
        t = {"initial": rng.choice([0.005, 0.012, 0.015]), "handshake": rng.choice([0.022, 0.025, 0.032]),
             "1rtt": rng.choice([0.045, 0.1, round(rng.uniform(0.05, 1.5), 3)])}[ep]
        if rng.random() < 0.15:
            return {"t": t, "do": "reserved", "side": rng.choice(["client", "server"]), "epoch": ep}
        return {"t": t, "do": "fatal", "side": rng.choice(["client", "server"]), "epoch": ep, "frame": rng.choice(sorted(BAD_FRAMES))}

    def blackout_act():
        return {"t": rng.choice(hs_times + [0.1, 0.3, round(rng.uniform(0.05, 1.5), 3)]), "do": "blackout", "dir": rng.choice(["both", "both", "c2s", "s2c"])}

    if kind == "close":
        case["acts"].append(close_act())
    elif kind == "peer_close":
        case["acts"].append(peer_close_act())
    elif kind == "fatal":
        case["acts"].append(fatal_act())
    elif kind == "blackout":
        case["acts"].append(blackout_act())
    elif kind == "idle":
        pass
    elif kind == "vn":
        cfg["versions"] = rng.choice(["vn_fail", "vn_fail", "vn_ok"])
        cfg["retry"] = False
        if rng.random() < 0.5:
            case["acts"].append(close_act())
    elif kind == "corrupt_first":
        net["corrupt"] = {str(i): rng.randrange(100, 1100) for i in rng.sample([0, 1, 2, 3], rng.randint(1, 2))}
        if rng.random() < 0.5:
            case["acts"].append(close_act())
    elif kind == "eager_garbage":
        cfg["eager"] = True
        cfg["retry"] = False
        case["acts"].append({"t": -1.0, "do": "garbage", "side": "server", "len": rng.choice([5, 30, 1300]),
                             "variant": rng.choice(["truncated", "truncated", "badversion", "vn", "small_initial", "short"])})
        if rng.random() < 0.5:
            case["acts"].append(close_act())
    elif kind == "mix":
        makers = [close_act, close_act, peer_close_act, fatal_act, blackout_act,
                  lambda: {"t": round(rng.uniform(0.06, 1.0), 3), "do": "rebind_ping", "uid": rng.randrange(1000)},
                  lambda: {"t": when(), "do": "garbage", "side": rng.choice(["client", "server"]), "len": rng.choice([3, 30, 200]),
                           "variant": rng.choice(["short", "truncated", "badversion", "vn", "small_initial"])}]
        for _ in range(rng.randint(2, 4)):
            case["acts"].append(rng.choice(makers)())
    elif kind == "race":
        # close() without transmitting, and before the next datagrams_to_send a peer close / fatal frame / plain
        # garbage arrives at the same endpoint (or the other way round)
        t = when()
        first = {"t": t, "do": "close_nopump", "side": side, "code": rng.randrange(0, 1 << 10)}
        second = rng.choice([peer_close_act, peer_close_act, fatal_act])()
        second.update(t=t, side=side)
        if t < 0.04:
            second["epoch"] = "initial" if t < 0.02 else rng.choice(["handshake", "1rtt"])
        else:
            second["epoch"] = "1rtt"
        case["acts"] += [first, second] if rng.random() < 0.7 else [second, dict(first, do="close")]
    elif kind == "retry_close":
        # The client accepts a Retry whose token has a chosen length.  Near / above the datagram size an Initial header
        # leaves no room for a frame (measured on HEAD, 1200-byte datagrams: >= 1131 no CONNECTION_CLOSE frame; >= 1151 no frame at all): with only Initial
        # keys the close round produces NOTHING; with Handshake / 1-RTT keys the Initial packet type is skipped.  Closing by
        # close(), by a fatal frame / reserved bits (locally detected error) or by a peer close, at every handshake stage.
        cfg["retry"] = True
        cfg["versions"] = rng.choice(["default", "default", "v2"])
        cfg["retry_token"] = rng.choice([25, 64, 600, 1000, 1095, 1120, 1128, 1129, 1130, 1131, 1132, 1135, 1140, 1145, 1149, 1150, 1151,
                                         1152, 1155, 1160, 1170, 1200, 1200, 1300, 1400, rng.randrange(1100, 1210), rng.randrange(25, 1500)])
        if rng.random() < 0.5:
            case["net"] = net = {}
        if rng.random() < 0.3:
            cfg[rng.choice(["c_idle", "s_idle"])] = 60.0
        # with a Retry: Retry at the client at 0.02, server's flight at 0.04, client's Finished at the server at 0.05
        stage_t = {"initial": [0.02, 0.02, 0.021, 0.025, 0.03, 0.035, 0.039], "handshake": [0.04, 0.041, 0.045],
                   "1rtt": [0.05, 0.055, 0.06, 0.1, round(rng.uniform(0.06, 1.5), 3)]}
        stage = rng.choice(["initial", "initial", "initial", "handshake", "1rtt"])
        t = rng.choice(stage_t[stage] + [round(rng.uniform(0.02, 0.6), 3)])
        who = rng.choice(["client", "client", "client", "server"])
        r = rng.random()
        if r < 0.45:
            case["acts"].append({"t": t, "do": rng.choice(["close", "close", "close_nopump", "double_close"]), "side": who,
                                 "code": rng.randrange(0, 1 << 10)})
        elif r < 0.8:
            a = fatal_act()
            a.update(t=t, side=who, epoch=stage)
            case["acts"].append(a)
        elif r < 0.9:
            a = peer_close_act()
            a.update(t=t, side=who, epoch=stage)
            case["acts"].append(a)
        else:
            a = fatal_act()
            a.update(t=t, side=who, epoch=stage)
            case["acts"] += [{"t": t, "do": "close_nopump", "side": who, "code": rng.randrange(0, 1 << 10)}, a]
        for _ in range(rng.choice([0, 0, 1, 2])):
            case["acts"].append(rng.choice([
                lambda: {"t": round(t + rng.choice([-0.01, 0.0, 0.05, 0.3, 0.7]), 3), "do": "timer_early", "side": who},
                lambda: {"t": round(t + rng.choice([0.0, 0.001, 0.1, 0.5]), 3), "do": "extra_send", "side": who},
                lambda: {"t": round(t + rng.choice([0.0, 0.01, 0.2]), 3), "do": "garbage", "side": who, "len": rng.choice([3, 30, 200]),
                         "variant": rng.choice(["short", "truncated", "badversion", "vn", "small_initial"])},
                lambda: {"t": round(t + rng.choice([0.05, 0.3]), 3), "do": "close", "side": who, "code": 7}])())
        case["acts"] = [a for a in case["acts"] if a["t"] >= 0]
        # a handshake through an Initial header with a few bytes of room crawls (a byte or two of CRYPTO per datagram) and
        # keeps both idle timers re-armed for minutes (O7): end such runs by late closes (always for tokens in that range)
        if 1090 <= cfg["retry_token"] < 1175 or rng.random() < 0.6:
            case["acts"] += [{"t": 3.5, "do": "close", "side": "client", "code": 35}, {"t": 3.6, "do": "close", "side": "server", "code": 36}]
    elif kind == "limited_close":
        # closing while the sender is limited: (amp) a server that heard one datagram only (every later client datagram is
        # lost) runs into the 3x anti-amplification budget; (cwnd) a write far larger than the congestion window.  The close
        # round is subject to neither limit: the closing period starts at the first datagrams_to_send all the same.
        if rng.random() < 0.5:
            cfg["retry"] = False
            cfg["s_idle"] = rng.choice([2.5, 5.0, 5.0, 60.0])
            case["acts"].append({"t": 0.001, "do": "blackout", "dir": "c2s"})
            t = rng.choice([0.011, 0.015, 0.05, 0.25, 0.45, 0.9, round(rng.uniform(0.011, 2.0), 3)])
            r = rng.random()
            if r < 0.6:
                case["acts"].append({"t": t, "do": rng.choice(["close", "close", "close_nopump", "double_close"]), "side": "server",
                                     "code": rng.randrange(0, 1 << 10)})
            elif r < 0.85:
                a = fatal_act()
                a.update(t=t, side="server", epoch="initial")
                case["acts"].append(a)
            else:
                a = peer_close_act()
                a.update(t=t, side="server", epoch="initial")
                case["acts"].append(a)
            case.pop("traffic", None)
        else:
            who = rng.choice(["client", "server"])
            t = round(rng.uniform(0.07, 0.5), 3)
            case["acts"].append({"t": t, "do": "bulk", "side": who, "size": rng.choice([40000, 200000, 1000000]), "fin": rng.random() < 0.5})
            tc = round(t + rng.choice([0.0, 0.001, 0.011, 0.021, 0.05, 0.2, rng.uniform(0.0, 0.5)]), 3)
            closer = rng.choice([who, who, "client", "server"])
            r = rng.random()
            if r < 0.6:
                case["acts"].append({"t": tc, "do": rng.choice(["close", "close", "close_nopump", "double_close"]), "side": closer,
                                     "code": rng.randrange(0, 1 << 10)})
            elif r < 0.85:
                a = fatal_act()
                a.update(t=tc, side=closer, epoch="1rtt")
                case["acts"].append(a)
            else:
                a = peer_close_act()
                a.update(t=tc, side=closer, epoch="1rtt")
                case["acts"].append(a)
    elif kind == "manual":
        for _ in range(rng.randint(2, 6)):
            r = rng.random()
            s = rng.choice(["client", "server"])
            if r < 0.3:
                case["acts"].append({"t": when(), "do": "timer_early", "side": s})
            elif r < 0.5:
                case["acts"].append({"t": when(), "do": "extra_send", "side": s})
            elif r < 0.7:
                case["acts"].append({"t": when(), "do": "garbage", "side": s, "len": rng.choice([3, 30, 200]),
                                     "variant": rng.choice(["short", "truncated", "badversion", "vn", "small_initial"])})
            elif r < 0.85:
                case["acts"].append(close_act(s))
            else:
                case["acts"].append(peer_close_act())
        if rng.random() < 0.3:
            cfg["connect_pump"] = False
    case["acts"].sort(key=lambda a: a["t"])
    return case


# ======================================================================================
# suite glue: one corr case = (scenario, side)


def _enc(c):
    return scenario(c["scn"])["sides"][c["side"]]["tin"]


def _impl(c):
    return scenario(c["scn"])["sides"][c["side"]]["tout"]


def _oracle(c):
    r = scenario(c["scn"])
    bad = r["sides"][c["side"]]["bad"]
    if bad:
        what, sig = bad[0]
        return what, dict(sig)
    return None


def _ops(c):
    return c["scn"].get("acts", [])


def _rebuild(c, ops):
    scn = dict(c["scn"])
    scn["acts"] = list(ops)
    return {"scn": scn, "side": c["side"]}


def _simplify(act):
    out = []
    if act.get("do") in ("close_nopump", "double_close"):
        out.append(dict(act, do="close"))
    return out


def _nontrivial(c, out):
    s = scenario(c["scn"])["sides"][c["side"]]
    return s["started"] and s["ops"] >= 6 and s["term_kind"] is not None


def _fenc(c):
    return scenario(c["scn"])["sides"][c["side"]]["fin"]


def _fimpl(c):
    return scenario(c["scn"])["sides"][c["side"]]["fout"]


def _fnontrivial(c, out):
    s = scenario(c["scn"])["sides"][c["side"]]
    return s["started"] and sum(s["fops"].values()) >= 6


def suites(ctx):
    tm = corr.Suite(ctx, "timers", "exec_timers", _enc, _impl, _oracle, _ops, _rebuild, nontrivial=_nontrivial,
                    opname=lambda a: a.get("do", "?"), simplify=_simplify)
    tf = corr.Suite(ctx, "timersfull", "exec_timersfull", _fenc, _fimpl, _oracle, _ops, _rebuild, nontrivial=_fnontrivial,
                    opname=lambda a: a.get("do", "?"), simplify=_simplify)
    return (tm, tf)


def pairs(cases):
    out = []
    for scn in cases:
        out += [{"scn": scn, "side": "client"}, {"scn": scn, "side": "server"}]
    return out


def run(ctx):
    (tm, tf) = suites(ctx)
    corpus = corr.load_corpus("C09", "timers")
    tm.run(corpus, "corpus")
    tf.run(corpus, "corpus")
    rng = ctx.rng
    n = ctx.n(800, 20000)
    cases = [gen_case(rng) for _ in range(n)]
    stats = {"scenarios": 0, "kinds": {}, "term_kinds": {}, "outcomes": {}, "api_calls_traced": 0, "timer_checks": 0, "model_ops": {},
             "anomaly_timer_in_past_runs": 0, "busy_loop_firings": 0, "tracing_stopped": {}, "skipped_actions": 0, "injected_close_started_closing": {}, "closing_datagrams_seen": 0,
             "virtual_seconds": 0.0, "wire_datagrams": 0,
             "composed_model_ops": {}, "composed_timer_source": {}, "composed_handle_timer_branch": {}, "composed_send_pacing": {},
             "pacing_reset_in_tree": PACING_RESET(), "close_begin_unconditional_in_tree": CLOSE_BEGIN_UNCONDITIONAL(),
             "close_rounds": {}, "close_rounds_without_datagram": 0, "retry_token_lengths": {}}
    B = 50
    for i in range(0, len(cases), B):
        chunk = cases[i:i + B]
        tm.run(pairs(chunk))
        tf.run(pairs(chunk))
        for scn in chunk:
            r = scenario(scn)
            stats["scenarios"] += 1
            stats["kinds"][scn["kind"]] = stats["kinds"].get(scn["kind"], 0) + 1
            stats["outcomes"][r["outcome"].split(":")[0]] = stats["outcomes"].get(r["outcome"].split(":")[0], 0) + 1
            stats["virtual_seconds"] += r["clock"]
            stats["wire_datagrams"] += r["wire"]
            if any("re-armed in the past" in a for a in r["anomalies"]):
                stats["anomaly_timer_in_past_runs"] += 1
            stats["busy_loop_firings"] += sum(r["spins"].values())
            for nt in r["notes"]:
                if nt.startswith("effect:"):
                    stats["injected_close_started_closing"][nt[7:]] = stats["injected_close_started_closing"].get(nt[7:], 0) + 1
                else:
                    stats["skipped_actions"] += 1
            if scn["cfg"].get("retry_token"):
                b = "%d-%d" % (scn["cfg"]["retry_token"] // 100 * 100, scn["cfg"]["retry_token"] // 100 * 100 + 99)
                stats["retry_token_lengths"][b] = stats["retry_token_lengths"].get(b, 0) + 1
            for side_name, s in r["sides"].items():
                stats["api_calls_traced"] += s["ops"]
                stats["timer_checks"] += s["timer_checks"]
                stats["closing_datagrams_seen"] += s["closes_on_wire"] or 0
                if s["close_round"] is not None:
                    k = "%s/%s/%s" % (side_name, s["close_round"][2], "datagrams" if s["close_round"][1] else "NOTHING")
                    stats["close_rounds"][k] = stats["close_rounds"].get(k, 0) + 1
                    if not s["close_round"][1]:
                        stats["close_rounds_without_datagram"] += 1
                for k, v in s["opnames"].items():
                    stats["model_ops"][k] = stats["model_ops"].get(k, 0) + v
                for src, dst in (("fops", "composed_model_ops"), ("fsrc", "composed_timer_source"),
                                 ("fbranch", "composed_handle_timer_branch"), ("fpace", "composed_send_pacing")):
                    for k, v in s[src].items():
                        k = {0: "close_at", 10: "ack_at[Initial]", 11: "ack_at[Handshake]", 12: "ack_at[application]", 20: "loss_time[Initial]",
                             21: "loss_time[Handshake]", 22: "loss_time[application]", 30: "pto", 40: "pacing_at", -2: "unexplained"}.get(k, str(k)) \
                            if src == "fsrc" else ({0: "nothing", 1: "terminated", 2: "loss-detection", 3: "pto"}.get(k, str(k)) if src == "fbranch" else str(k))
                        stats[dst][k] = stats[dst].get(k, 0) + v
                tk = {None: "none", 1: "local-close", 2: "error-or-peer-close", 4: "idle", 5: "version-negotiation"}[s["term_kind"]] if s["started"] else "not-started"
                stats["term_kinds"][tk] = stats["term_kinds"].get(tk, 0) + 1
                if s["dead"]:
                    stats["tracing_stopped"][s["dead"]] = stats["tracing_stopped"].get(s["dead"], 0) + 1
        _CACHE.clear()
    stats["virtual_seconds"] = round(stats["virtual_seconds"], 1)
    return corr.merge_coverage(
        [tm, tf],
        "seeded scenario grammar over real QuicConnection pairs (kinds: close / peer close per packet number space / fatal frame / "
        "blackout / idle / version negotiation / corrupted first datagrams / garbage to an eager server / mixes / manual API orders / "
        "local close racing a peer close / Retry tokens of 25..1500 bytes followed by close(), fatal frame, reserved bits or peer close at "
        "every handshake stage (close rounds that produce NO datagram) / closes while amplification- or congestion-limited; "
        "lossy networks, Retry, v1/v2, timer slack); one evaluation = one endpoint of one scenario, every traced API call is one model "
        "op compared on result + state class + queue length + _close_pending + _close_at; distinct = distinct op-trace encoding; non-trivial = started, >= 6 ops and "
        "termination reported",
        {"c09": stats})


def replay(ctx, rep):
    suites(ctx)
    case = rep["case"]
    if isinstance(case, str):
        return {"error": "case was truncated in the replay file"}
    r = run_scenario(case["scn"])
    s = r["sides"][case["side"]]
    full = rep.get("suite") == "timersfull"
    got = core.run_model("exec_timersfull" if full else "exec_timers", [s["fin"] if full else s["tin"]], shards=1)[0]
    exp = s["fout"] if full else s["tout"]
    first = next((i for i, (a, b) in enumerate(zip(exp, got)) if a != b), None)
    if first is None and len(exp) != len(got):
        first = min(len(exp), len(got))
    return {"outcome": r["outcome"], "notes": r["notes"], "anomalies": r["anomalies"][:3], "oracle": s["bad"], "disagree": exp != got,
            "first_difference_token": first, "impl_tokens": exp[:60] if first is None else exp[max(0, first - 12):first + 8],
            "model_tokens": got[:60] if first is None else got[max(0, first - 12):first + 8], "trace_tail": s["log"][-40:],
            "tracing_stopped": s["dead"], "raised": s["raised"]}
