"""C04  Native helpers never access memory out of bounds.

Tie (DESIGN.md section 5, C04):
 (a) tools/gen/c04_c2vc.py re-translates the CURRENT _buffer.c/_crypto.c into coq/gen/CMem.v (one
     lemma per memory access, with its proof script) on every check;
 (b) CHECKED build: from the same access list an instrumented copy of each C file is compiled in
     which access n is preceded by run-time assertion n; every explored call is run on it with
     tracing on, and the list of (access id, offset, length, size) it performs plus its outcome
     must equal what the extracted Coq model (exec_c04 / exec_cbuf) computes for the same arguments;
 (c) SANITIZER build (clang ASan+UBSan, PYTHONMALLOC=malloc): the same inputs; the sanitizers must
     stay silent whenever the model says in-bounds and the Python-level outcome must be the same;
 (d) real QuicConnection objects are driven with network datagrams (all length classes) and with
     every max_datagram_size setting on both builds: any assertion / sanitizer report there is a
     violation of the property (reachable from network input or a permitted configuration).
The child half of this file (`--child`) runs inside the build under test."""
import json
import os
import select
import shutil
import subprocess
import sys
import sysconfig
import tempfile
import time

HERE = os.path.dirname(os.path.abspath(__file__))

DEPENDS = ["CMemBase", "CMem (generated)", "CMemSpec", "CMemProofs", "CMemCalls", "CCallBase", "CCallers (generated)", "CCallSpec",
           "CCallersP", "CCallersBuilder", "Builder (C13 model)", "C04"]
GENERATORS = ["c04_c2vc", "c04_callers"]
TRUSTED_BASE = [
    "tools/gen/c04_c2vc.py: gcc -E (stub headers) + pycparser report the program; the symbolic executor reports every memory access "
    "(cross-checked on every explored call: the instrumented build's actual (offset,length,size) per access id must equal the model's)",
    "table EXTERNS of the translator: which bytes memcpy/memset/memcmp/PyBytes_FromStringAndSize/Py_BuildValue/EVP_CipherUpdate/"
    "EVP_CipherInit_ex/EVP_CIPHER_CTX_ctrl touch given their arguments (EVP_CipherUpdate writes at most inl + block_size - 1 bytes)",
    "CPython argument parsing: 'y#' yields a pointer to exactly len readable bytes followed by a NUL; 'n' range-checks, B/H/I/K reduce modulo 2^k",
    "extraction (ExtrOcamlBasic) + OCaml driver for exec_c04 / exec_cbuf; this harness",
    "tools/gen/c04_callers.py: ast-based symbolic evaluation of CryptoContext.encrypt_packet/decrypt_packet, QuicPacketBuilder._end_packet, "
    "QuicConnection.receive_datagram, pull_quic_header (sizes only; fail closed outside its subset; it also checks that no other place of "
    "src/aioquic constructs or calls AEAD/HeaderProtection); Python slice-length semantics py_slice_len and the 'I' format conversion c_int_of_I "
    "(model/CCallBase.v); cross-checked on every explored connection: the recorded (named quantities, argument lengths) of every "
    "_end_packet/encrypt_packet and pull_quic_header/decrypt_packet pair must equal what gen/CCallers.v computes (vm_compute)",
    "coq/model/Builder.v (C13's size model of QuicPacketBuilder, run against the implementation by ./check C13) for the theorems named *_builder",
    "sanitizers and the checked build only see explored inputs; the for-all statement is the Coq one over the generated model",
]
ASSUMPTIONS = [
    "byte-string arguments are shorter than 2^31 bytes (their length survives conversion to the `int` parameters of OpenSSL)",
    "addresses are below 2^47 (x86-64/aarch64 user space), so `pos + len` with len < 2^63 does not wrap in 64 bits",
    "OpenSSL honours the EVP interface: 0 <= outl <= inl + block_size - 1; set_key_length accepts only 1..64; reads keylen/ivlen bytes",
    "malloc success is an explicit variable of the model (malloc_ok); nothing is assumed about it",
    "library_seal_calls_meet_contract (calls never rejected): the packet fits its datagram (start + size + 16 <= max_datagram_size <= 1500) -- in "
    "the *_builder form this is the completion (ODone) of _end_packet in C13's builder model; AEAD output length = input length + 16 "
    "(GCM / ChaCha20-Poly1305).  Memory safety (library_calls_safe, crypto_safe_all_arguments) needs none of these",
    "uninitialised native objects (AEAD.__new__(AEAD) / HeaderProtection.__new__(..) without __init__) are outside the model: R_* describe "
    "calls on constructed objects; see uninitialised_object_calls in the evidence and docs/C04.md finding 5",
]

EXC_CODES = {"TypeError": 2, "BufferReadError": 3, "BufferWriteError": 4, "ValueError": 5, "CryptoError": 6, "MemoryError": 7,
             "SystemError": 8, "OverflowError": 9}
MDS_LIST = [1200, 1201, 1280, 1452, 1484, 1485, 1500, 1501, 1516, 1517, 2000, 9000, 65527]

# =========================================================================================
# child: runs inside the build under test
# =========================================================================================

KEY32 = bytes(range(1, 33))
IV12 = bytes(range(101, 113))
CIPHERS = {"aes-128": (b"aes-128-ecb", b"aes-128-gcm", 16), "aes-256": (b"aes-256-ecb", b"aes-256-gcm", 32),
           "chacha20": (b"chacha20", b"chacha20-poly1305", 32)}


def mkbytes(spec):
    """JSON -> Python argument.  {"n": len, "seed": s} pseudo-random bytes; {"hex":..}; {"t":..} non-bytes."""
    if isinstance(spec, dict):
        if "n" in spec:
            n, s = spec["n"], spec.get("seed", 0)
            first = spec.get("first")
            b = bytes(((i * 131 + s * 17 + 7) & 0xFF) for i in range(min(n, 64))) + bytes(max(0, n - 64))
            if first is not None and n > 0:
                b = bytes([first]) + b[1:]
            return b
        if "hex" in spec:
            return bytes.fromhex(spec["hex"])
        t = spec["t"]
        return {"none": None, "float": 1.5, "str": "x", "list": [1], "bytearray": bytearray(b"ab")}[t]
    return spec


def reslen(r):
    if isinstance(r, (bytes, bytearray)):
        return len(r)
    if isinstance(r, tuple) and r and isinstance(r[0], (bytes, bytearray)):
        return len(r[0])
    return 0


def aead_seal_ref(cipher, key, iv, pn, plain, aad):
    from cryptography.hazmat.primitives.ciphers.aead import AESGCM, ChaCha20Poly1305
    nonce = bytes(a ^ b for a, b in zip(iv, bytes(4) + pn.to_bytes(8, "big")))
    c = ChaCha20Poly1305(key) if cipher == "chacha20" else AESGCM(key)
    return c.encrypt(nonce, plain, aad)


def child_call(case):
    from aioquic import _buffer, _crypto
    fn = case["fn"]
    hpn, aeadn, klen = CIPHERS[case.get("cipher", "aes-128")]
    args = [mkbytes(a) for a in case["args"]]
    try:
        if fn == "AEAD_encrypt":
            r = _crypto.AEAD(aeadn, KEY32[:klen], IV12).encrypt(*args)
        elif fn == "AEAD_decrypt":
            if case.get("valid"):
                args[0] = aead_seal_ref(case.get("cipher", "aes-128"), KEY32[:klen], IV12, args[2], bytes(len(args[0]) - 16), args[1])
            r = _crypto.AEAD(aeadn, KEY32[:klen], IV12).decrypt(*args)
        elif fn == "HeaderProtection_apply":
            r = _crypto.HeaderProtection(hpn, KEY32[:klen]).apply(*args)
        elif fn == "HeaderProtection_remove":
            r = _crypto.HeaderProtection(hpn, KEY32[:klen]).remove(*args)
        elif fn == "AEAD_init":
            r = _crypto.AEAD(*args)
        elif fn == "HeaderProtection_init":
            r = _crypto.HeaderProtection(*args)
        elif fn == "Buffer_init":
            kw = {k: mkbytes(v) for k, v in case.get("kwargs", {}).items()}
            b = _buffer.Buffer(*args, **kw)
            r = None
            return {"out": ["ok", 0], "capacity": b.capacity, "tell": b.tell()}
        else:
            return {"out": ["exc", "UnknownFn"]}
        out = {"out": ["ok", reslen(r)]}
        if fn == "HeaderProtection_remove":
            out["pn_length"] = len(r[0]) - (args[1] & 0xFFFFFFFF if isinstance(args[1], int) else 0)
        return out
    except BaseException as e:  # noqa
        return {"out": ["exc", type(e).__name__, str(e)[:100]]}


def child_bufseq(case, errmark):
    from aioquic._buffer import Buffer
    if "data" in case:
        b = Buffer(data=bytes.fromhex(case["data"]))
    else:
        b = Buffer(capacity=case["cap"])
        b.push_bytes(bytes(case["cap"]))      # malloc'ed memory is uninitialised: define it (not part of the case)
        b.seek(0)
        errmark()
    res = []
    for op in case["ops"]:
        name, args = op[0], [mkbytes(a) for a in op[1:]]
        errmark()
        try:
            if name in ("capacity", "data"):
                r = getattr(b, name)
            else:
                r = getattr(b, name)(*args)
            if isinstance(r, (bytes, bytearray)):
                v = ["ok", len(r), r.hex()]
            elif isinstance(r, bool):
                v = ["ok", 0, int(r)]
            elif isinstance(r, int):
                v = ["ok", 0, r]
            else:
                v = ["ok", 0, None]
        except BaseException as e:  # noqa
            v = ["exc", type(e).__name__]
        res.append({"r": v, "tell": b.tell(), "err": errmark()})
    final = None
    try:
        final = b.data_slice(0, b.capacity).hex()
    except BaseException as e:  # noqa
        final = "exc:" + type(e).__name__
    errmark()
    return {"ops": res, "final": final}


def _pair(mds_c=1200, mds_s=1200, cid_len=8, cipher=None):
    from aioquic.quic.configuration import QuicConfiguration
    from aioquic.quic.connection import QuicConnection
    from aioquic import tls
    repo = os.environ.get("VERIF_REPO", "/repo")
    cc = QuicConfiguration(is_client=True, max_datagram_size=mds_c, connection_id_length=cid_len, max_datagram_frame_size=65536)
    cc.verify_mode = 0  # ssl.CERT_NONE
    sc = QuicConfiguration(is_client=False, max_datagram_size=mds_s, connection_id_length=cid_len, max_datagram_frame_size=65536)
    sc.load_cert_chain(os.path.join(repo, "tests", "ssl_cert.pem"), os.path.join(repo, "tests", "ssl_key.pem"))
    if cipher:
        cs = {"aes-128": tls.CipherSuite.AES_128_GCM_SHA256, "aes-256": tls.CipherSuite.AES_256_GCM_SHA384,
              "chacha20": tls.CipherSuite.CHACHA20_POLY1305_SHA256}[cipher]
        cc.cipher_suites = [cs]
    client = QuicConnection(configuration=cc)
    client.connect(("1.2.3.4", 4433), now=0.0)
    holder = {"client": client, "server": None, "sc": sc, "now": 0.0}
    return holder


def _pump(h, notes, limit=200):
    """Exchange datagrams until quiet.  Returns number of datagrams moved."""
    from aioquic.quic.connection import QuicConnection
    from aioquic.buffer import Buffer
    from aioquic.quic.packet import pull_quic_header
    moved = 0
    for _ in range(limit):
        progress = False
        h["now"] += 0.001
        try:
            out = h["client"].datagrams_to_send(now=h["now"])
        except BaseException as e:  # noqa
            notes.append(["exc", "client.datagrams_to_send", type(e).__name__, str(e)[:80]])
            return moved
        for data, addr in out:
            progress = True
            moved += 1
            notes.append(["sent", "client", len(data)])
            if h["server"] is None:
                hdr = pull_quic_header(Buffer(data=data), host_cid_length=8)
                h["server"] = QuicConnection(configuration=h["sc"], original_destination_connection_id=hdr.destination_cid)
            try:
                h["server"].receive_datagram(data, ("5.6.7.8", 1234), now=h["now"])
            except BaseException as e:  # noqa
                notes.append(["exc", "server.receive_datagram", type(e).__name__, str(e)[:80]])
                return moved
        if h["server"] is not None:
            try:
                out = h["server"].datagrams_to_send(now=h["now"])
            except BaseException as e:  # noqa
                notes.append(["exc", "server.datagrams_to_send", type(e).__name__, str(e)[:80]])
                return moved
            for data, addr in out:
                progress = True
                moved += 1
                notes.append(["sent", "server", len(data)])
                try:
                    h["client"].receive_datagram(data, ("1.2.3.4", 4433), now=h["now"])
                except BaseException as e:  # noqa
                    notes.append(["exc", "client.receive_datagram", type(e).__name__, str(e)[:80]])
                    return moved
        if not progress:
            break
    return moved


def _drain(conn):
    ev = []
    while True:
        e = conn.next_event()
        if e is None:
            return ev
        ev.append(e)


_SITES = {"seal": set(), "open": set()}
_SITE_CAP = 250


def _install_site_hooks():
    """Record, for the cross-check of the GENERATED caller model (coq/gen/CCallers.v): at every _end_packet the named
    quantities of the translated site and the lengths actually handed to CryptoContext.encrypt_packet (or that no call was made);
    at every pull_quic_header/decrypt_packet pair (capacity, tell before, tell after, packet_length) and (len(packet), offset)."""
    from aioquic.quic import packet_builder as pb, connection as cn, crypto as cr
    from aioquic.quic.packet import QuicPacketType
    if getattr(pb, "_c04_hooked", False):
        return
    pb._c04_hooked = True
    cur = {}
    orig_end = pb.QuicPacketBuilder._end_packet

    def end_packet(self):
        b = (self._buffer.tell(), self._packet_start, self._header_size, int(bool(self._is_client)),
             int(bool(self._packet.is_ack_eliciting)), int(self._packet_type == QuicPacketType.INITIAL),
             int(bool(self._datagram_needs_padding)), int(self._packet_type == QuicPacketType.ONE_RTT),
             self.remaining_flight_space)
        cur["b"], cur["called"] = b, False
        try:
            return orig_end(self)
        finally:
            if not cur.get("called") and len(_SITES["seal"]) < _SITE_CAP:
                _SITES["seal"].add(b + (-1, -1))
            cur.pop("b", None)
    pb.QuicPacketBuilder._end_packet = end_packet
    orig_enc = cr.CryptoContext.encrypt_packet

    def encrypt_packet(self, plain_header, plain_payload, packet_number):
        if "b" in cur:
            cur["called"] = True
            if len(_SITES["seal"]) < _SITE_CAP:
                _SITES["seal"].add(cur["b"] + (len(plain_header), len(plain_payload)))
        return orig_enc(self, plain_header, plain_payload, packet_number)
    cr.CryptoContext.encrypt_packet = encrypt_packet
    orig_pull = cn.pull_quic_header

    def pull(buf, host_cid_length=None):
        t0 = buf.tell()
        h = orig_pull(buf, host_cid_length=host_cid_length)
        cur["rx"] = (buf.capacity, t0, buf.tell(), h.packet_length)
        return h
    cn.pull_quic_header = pull
    orig_dec = cr.CryptoContext.decrypt_packet

    def decrypt_packet(self, packet, encrypted_offset, expected_packet_number):
        rx = cur.pop("rx", None)
        if rx is not None and len(_SITES["open"]) < _SITE_CAP:
            _SITES["open"].add(rx + (len(packet), encrypted_offset))
        return orig_dec(self, packet, encrypted_offset, expected_packet_number)
    cr.CryptoContext.decrypt_packet = decrypt_packet


def child_lifecycle(case):
    """Native objects used without / after a failed __init__ (direct API only)."""
    from aioquic import _crypto, _buffer
    w = case["what"]
    try:
        if w.startswith("aead_"):
            a = _crypto.AEAD.__new__(_crypto.AEAD)
            if "_badinit_" in w:
                try:
                    a.__init__(b"aes-128-gcm", bytes(33), bytes(12))
                except Exception:
                    pass
            r = a.encrypt(b"abc", b"", 0) if w.endswith("encrypt") else a.decrypt(bytes(20), b"", 0)
        elif w.startswith("hp_"):
            h = _crypto.HeaderProtection.__new__(_crypto.HeaderProtection)
            r = h.apply(b"\x41" + bytes(10), bytes(30)) if w.endswith("apply") else h.remove(bytes(40), 5)
        elif w == "buffer_new":
            b = _buffer.Buffer.__new__(_buffer.Buffer)
            out = [b.capacity, b.tell(), b.eof(), len(b.data), len(b.data_slice(0, 0)), len(b.pull_bytes(0))]
            for m, a in (("push_uint8", (1,)), ("pull_uint8", ()), ("push_bytes", (b"x",)), ("pull_uint_var", ()), ("seek", (1,))):
                try:
                    getattr(b, m)(*a)
                    out.append("ok")
                except Exception as e:  # noqa
                    out.append(type(e).__name__)
            return {"out": ["ok", out]}
        elif w == "buffer_reinit":
            b = _buffer.Buffer(capacity=8)
            b.push_bytes(b"abcdefgh")
            b.__init__(capacity=4)
            b.push_bytes(b"wxyz")
            try:
                b.push_uint8(1)
                return {"out": ["ok", "write past the new capacity accepted"]}
            except Exception as e:  # noqa
                return {"out": ["ok", [b.capacity, b.tell(), type(e).__name__]]}
        else:
            return {"out": ["exc", "UnknownCase"]}
        return {"out": ["ok", reslen(r)]}
    except BaseException as e:  # noqa
        return {"out": ["exc", type(e).__name__, str(e)[:100]]}


def child_conn(case, errmark, step):
    _install_site_hooks()
    _SITES["seal"].clear()
    _SITES["open"].clear()
    res = _child_conn(case, errmark, step)
    res["sites"] = {"seal": sorted(_SITES["seal"])[:_SITE_CAP], "open": sorted(_SITES["open"])[:_SITE_CAP]}
    return res


def _child_conn(case, errmark, step):
    sc = case["scenario"]
    p = case.get("params", {})
    notes = []
    res = {"notes": notes}
    if sc == "pair_mds":
        h = _pair(p.get("mds_c", 1200), p.get("mds_s", 1200), cipher=p.get("cipher"))
        step("handshake")
        _pump(h, notes)
        c, s = h["client"], h["server"]
        hs = [type(e).__name__ for e in _drain(c)]
        res["handshake"] = "HandshakeCompleted" in hs
        n = p.get("bytes", 6000)
        got = {"c": 0, "s": 0}
        if res["handshake"] and s is not None:
            step("stream")
            sid = c.get_next_available_stream_id()
            c.send_stream_data(sid, bytes(n), end_stream=True)
            _pump(h, notes)
            for e in _drain(s):
                if type(e).__name__ == "StreamDataReceived":
                    got["s"] += len(e.data)
            try:
                s.send_stream_data(sid, bytes(n), end_stream=True)
            except BaseException as e:  # noqa
                notes.append(["exc", "server.send_stream_data", type(e).__name__, str(e)[:60]])
            _pump(h, notes)
            for e in _drain(c):
                if type(e).__name__ == "StreamDataReceived":
                    got["c"] += len(e.data)
            if p.get("datagram"):
                for k in p["datagram"]:
                    try:
                        c.send_datagram_frame(bytes(k))
                    except BaseException as e:  # noqa
                        notes.append(["exc", "send_datagram_frame", type(e).__name__, str(e)[:60]])
                _pump(h, notes)
        res["delivered"] = got
        res["max_sent"] = max([x[2] for x in notes if x[0] == "sent"] or [0])
        res["notes"] = [x for x in notes if x[0] != "sent"][:20]
        return res
    if sc in ("recv_short", "recv_raw"):
        h = _pair(cid_len=p.get("cid_len", 8), cipher=p.get("cipher"))
        _pump(h, notes)
        target = h[p.get("target", "server")]
        cid = target._host_cids[0].cid
        res["cid_len"] = len(cid)
        outs = []
        for spec in p["datagrams"]:
            if sc == "recv_short":
                L = spec
                data = (bytes([0x40 | (L & 0x3F)]) + cid + bytes((i * 7 + L) & 0xFF for i in range(L)))[:L]
            else:
                data = mkbytes(spec)
            step("len=%d" % len(data))
            try:
                target.receive_datagram(data, ("9.9.9.9", 9), now=h["now"] + 1.0)
                outs.append([len(data), "ok"])
            except BaseException as e:  # noqa
                outs.append([len(data), "exc", type(e).__name__, str(e)[:80]])
            if errmark(peek=True):
                break
        res["outs"] = outs[-40:]
        res["n"] = len(outs)
        res["notes"] = [x for x in notes if x[0] != "sent"][:10]
        return res
    if sc == "recv_initial":
        from aioquic.quic.configuration import QuicConfiguration
        from aioquic.quic.connection import QuicConnection
        from aioquic.buffer import Buffer
        repo = os.environ.get("VERIF_REPO", "/repo")
        outs = []
        for (T, R, pad) in p["shapes"]:
            cfg = QuicConfiguration(is_client=False)
            cfg.load_cert_chain(os.path.join(repo, "tests", "ssl_cert.pem"), os.path.join(repo, "tests", "ssl_key.pem"))
            dcid = bytes(range(8))
            b = Buffer(capacity=T + R + pad + 64)
            b.push_uint8(0xC0 | (R & 3))
            b.push_uint32(1)
            b.push_uint8(8)
            b.push_bytes(dcid)
            b.push_uint8(8)
            b.push_bytes(bytes(8))
            b.push_uint_var(T)
            b.push_bytes(bytes(T))
            b.push_uint_var(R)
            b.push_bytes(bytes((i * 13 + R) & 0xFF for i in range(R)))
            b.push_bytes(bytes(pad))
            data = b.data
            step("T=%d R=%d len=%d" % (T, R, len(data)))
            s = QuicConnection(configuration=cfg, original_destination_connection_id=dcid)
            try:
                s.receive_datagram(data, ("9.9.9.9", 9), now=0.0)
                outs.append([T, R, len(data), "ok"])
            except BaseException as e:  # noqa
                outs.append([T, R, len(data), "exc", type(e).__name__, str(e)[:80]])
            if errmark(peek=True):
                break
        res["outs"] = outs[-40:]
        res["n"] = len(outs)
        return res
    return {"error": "unknown scenario"}


def child_main():
    path = os.environ["C04_STDERR"]
    fd = os.open(path, os.O_WRONLY | os.O_CREAT | os.O_APPEND)
    os.dup2(fd, 2)
    rd = open(path, "rb")
    rd.seek(0, 2)
    pending = [""]

    def errmark(peek=False):
        """new stderr text since the last (non-peek) call: VERIF_ACC / VERIF_BOUNDS / sanitizer lines"""
        pos = rd.tell()
        t = rd.read().decode(errors="replace")
        if peek:
            rd.seek(pos)
            return "VERIF_BOUNDS" in t or "runtime error" in t
        return t

    def step(label):
        os.write(2, ("C04_STEP %s\n" % label).encode())

    out = sys.stdout
    for line in sys.stdin:
        line = line.strip()
        if not line:
            continue
        case = json.loads(line)
        errmark()
        os.write(2, ("C04_CASE %s\n" % case.get("id", "?")).encode())
        errmark()
        try:
            k = case["kind"]
            if k == "call":
                res = child_call(case)
            elif k == "bufseq":
                res = child_bufseq(case, errmark)
            elif k == "conn":
                res = child_conn(case, errmark, step)
            elif k == "lifecycle":
                res = child_lifecycle(case)
            else:
                res = {"error": "kind"}
        except BaseException as e:  # noqa
            import traceback
            res = {"driver_error": repr(e), "tb": traceback.format_exc()[-800:]}
        res["err"] = errmark()
        out.write(json.dumps(res) + "\n")
        out.flush()


if __name__ == "__main__" and "--child" in sys.argv:
    child_main()
    sys.exit(0)

# =========================================================================================
# parent
# =========================================================================================

sys.path.insert(0, os.path.dirname(HERE))
sys.path.insert(0, os.path.join(os.path.dirname(os.path.dirname(HERE)), "tools"))
from vlib import core, corr  # noqa: E402


def load_c2vc():
    from gen import c04_c2vc
    return c04_c2vc


class Build:
    """An overlay directory holding one build of the helpers (+ symlinked python)."""

    def __init__(self, kind, trs=None):
        self.kind = kind
        t0 = time.time()
        if kind == "asan":
            self.ov = core.Overlay(asan=True)
        else:
            self.ov = core.Overlay(asan=False)
            if kind == "checked":
                g = load_c2vc()
                src = tempfile.mkdtemp(prefix="aqc04src-")
                try:
                    g.instrument(trs, src)
                    inc = sysconfig.get_paths()["include"]
                    for name, libs in (("_buffer", []), ("_crypto", ["-lcrypto"])):
                        outp = os.path.join(self.ov.dir, "aioquic", name + ".abi3.so")
                        cmd = ["gcc", "-O1", "-shared", "-fPIC", "-std=c99", "-DPy_LIMITED_API=0x030A0000", "-I" + inc,
                               os.path.join(src, name + ".c"), "-o", outp] + libs
                        r = subprocess.run(cmd, capture_output=True, text=True)
                        if r.returncode != 0:
                            raise core.BuildError("instrumented %s does not compile: %s" % (name, r.stderr[-1500:]))
                finally:
                    shutil.rmtree(src, ignore_errors=True)
        self.build_s = time.time() - t0

    def close(self):
        self.ov.close()


class Runner:
    """Persistent child process running cases inside a build; restarted after a crash."""

    def __init__(self, build, trace=False):
        self.build = build
        self.trace = trace
        self.p = None
        self.errpath = None
        self.cache = {}
        self.crashes = 0
        self.runs = 0
        self.crash_limit = 1 << 30

    def _start(self):
        fd, self.errpath = tempfile.mkstemp(prefix="aqc04err-")
        os.close(fd)
        extra = {"C04_STDERR": self.errpath, "VERIF_REPO": core.REPO}
        if self.trace:
            extra["VERIF_TRACE"] = "1"
        if self.build.kind == "asan":
            rt = subprocess.run(["clang", "-print-file-name=libclang_rt.asan-x86_64.so"], capture_output=True, text=True).stdout.strip()
            extra.update({"LD_PRELOAD": rt, "PYTHONMALLOC": "malloc",
                          "ASAN_OPTIONS": "detect_leaks=0:abort_on_error=0:allocator_may_return_null=1",
                          "UBSAN_OPTIONS": "print_stacktrace=0"})
        env = self.build.ov.env(extra)
        self.p = subprocess.Popen([sys.executable, os.path.abspath(__file__), "--child"], stdin=subprocess.PIPE,
                                  stdout=subprocess.PIPE, text=True, env=env, bufsize=1)

    def _stop(self):
        if self.p:
            try:
                self.p.stdin.close()
                self.p.wait(timeout=5)
            except Exception:
                self.p.kill()
            self.p = None
        if self.errpath and os.path.exists(self.errpath):
            os.unlink(self.errpath)
            self.errpath = None

    def close(self):
        self._stop()
        for r in getattr(self, "pool", None) or []:
            r.close()
        self.pool = None

    def prefetch(self, cases, workers=4):
        """run many cases on a pool of children of the same build; results land in this runner's cache"""
        import threading
        todo = [c for c in cases if json.dumps(c, sort_keys=True) not in self.cache]
        if len(todo) < 50:
            return
        if not getattr(self, "pool", None):
            self.pool = [Runner(self.build, self.trace) for _ in range(workers)]
            for r in self.pool:
                r.crash_limit = max(1, self.crash_limit // workers)
        pool = self.pool
        workers = len(pool)

        def work(i):
            for c in todo[i::workers]:
                pool[i].run(c)
        ths = [threading.Thread(target=work, args=(i,)) for i in range(workers)]
        for t in ths:
            t.start()
        for t in ths:
            t.join()
        for r in pool:
            self.cache.update(r.cache)
            self.runs += r.runs
            self.crashes += r.crashes
            r.runs = r.crashes = 0

    def run(self, case, timeout=120):
        key = json.dumps(case, sort_keys=True)
        if key in self.cache:
            return self.cache[key]
        if self.crashes >= self.crash_limit and case.get("kind") != "conn":
            return {"skipped": True}      # too many aborts already: each one costs a sanitizer start-up
        if self.p is None or self.p.poll() is not None:
            self._stop()
            self._start()
        self.runs += 1
        try:
            self.p.stdin.write(key + "\n")
            self.p.stdin.flush()
            r, _, _ = select.select([self.p.stdout], [], [], timeout)
            line = self.p.stdout.readline() if r else ""
        except (BrokenPipeError, OSError):
            line = ""
        if line.strip():
            res = json.loads(line)
        else:
            # crash (sanitizer abort, SIGSEGV) or hang: collect the report
            try:
                rc = self.p.wait(timeout=3)
            except Exception:
                self.p.kill()
                rc = "timeout"
            txt = ""
            try:
                txt = open(self.errpath, errors="replace").read()[-200000:]
            except Exception:
                pass
            tail = txt[txt.rfind("C04_CASE"):] if "C04_CASE" in txt else txt
            rep = summarise_report(tail)
            rep["rc"] = rc
            if signal_name(rc):
                rep["signal"] = signal_name(rc)
                rep.pop("unknown", None)
            res = {"crash": True, "rc": rc, "report": rep, "err": tail[:1500] + "\n...\n" + tail[-1500:]}
            self.crashes += 1
            self._stop()
            if not (set(rep) & {"asan", "ubsan", "signal"}) and not getattr(self, "_retrying", False):
                # the child died without a sanitizer / signal report: retry once in a fresh child
                self._retrying = True
                try:
                    self.cache.pop(key, None)
                    res2 = self.run(case, timeout)
                finally:
                    self._retrying = False
                return res2
        self.cache[key] = res
        return res


def summarise_report(txt):
    import re
    out = {}
    m = re.search(r"ERROR: AddressSanitizer: (\S+)", txt)
    if m:
        out["asan"] = m.group(1)
        m2 = re.search(r"(READ|WRITE) of size (\d+)", txt)
        if m2:
            out["access"] = m2.group(1) + " " + m2.group(2)
        fr = re.findall(r"#\d+ \S+ in (\w+) [^\n]*?(_(?:crypto|buffer)\.c:\d+)", txt.split("is located")[0])
        if fr:
            out["function"], out["where"] = fr[-1][0], fr[-1][1]   # outermost frame inside the helper = the entry point called from Python
    m = re.search(r"(_(?:crypto|buffer)\.c:\d+:\d+): runtime error: ([^\n]+)", txt)
    if m:
        out["ubsan"] = m.group(2)[:100]
        out["where"] = m.group(1)
    if "SEGV" in txt or "Segmentation" in txt:
        out.setdefault("asan", "SEGV")
    steps = re.findall(r"C04_STEP ([^\n]+)", txt)
    if steps:
        out["step"] = steps[-1]
    if not out:
        out["unknown"] = txt[-300:]
    return out


def signal_name(rc):
    import signal
    try:
        return signal.Signals(-rc).name if isinstance(rc, int) and rc < 0 else None
    except ValueError:
        return "signal %d" % -rc


def parse_err(txt, fn=None):
    """VERIF_ACC / VERIF_BOUNDS lines -> (trace [(id,off,len,size)], bounds [name...]) restricted to function fn."""
    trace, bounds, other = [], [], []
    for l in txt.split("\n"):
        l = l.strip()
        if l.startswith("VERIF_ACC "):
            _, name, a, b, c = l.split()
            f, i = name.rsplit(":", 1)
            if fn is None or f == fn:
                trace.append((int(i), int(a), int(b), int(c)))
        elif l.startswith("VERIF_BOUNDS "):
            bounds.append(l.split()[1])
        elif l and not l.startswith("C04_"):
            other.append(l)
    return trace, bounds, other


# ------------------------------------------------------------------------- model side: call vectors
class ModelInfo:
    def __init__(self):
        p = os.path.join(core.COQ, "gen", "c04_access.json")
        self.j = json.load(open(p))
        self.fn = {f["name"]: f for f in self.j["functions"]}

    def rt_ids(self, fn):
        return {e["id"] for e in self.fn[fn]["events"] if e["t"] == "acc" and e.get("rt")}

    def unconditional(self, fn):
        return self.fn[fn]["unconditional"]


def t2(x):
    """JSON round-trip turns tuples into lists: rebuild expression tuples."""
    return tuple(t2(y) for y in x) if isinstance(x, list) else x


def ev_e(e, env):
    k = e[0]
    if k == "c":
        return e[1]
    if k == "v":
        return env[e[1]]
    a, b = ev_e(e[1], env), ev_e(e[2], env)
    return a + b if k == "+" else a - b if k == "-" else a * b


def wrap(v, lo, hi):
    m = hi - lo + 1
    return (v - lo) % m + lo


def c_int(fmt_ctype, v):
    """CPython conversion of a Python int for formats B/H/I/K (no overflow check) stored into ctype."""
    lo, hi = {"int": (-(1 << 31), (1 << 31) - 1), "uint8_t": (0, 255), "uint16_t": (0, 65535), "uint32_t": (0, (1 << 32) - 1),
              "uint64_t": (0, (1 << 64) - 1), "Py_ssize_t": (-(1 << 63), (1 << 63) - 1)}[fmt_ctype]
    return wrap(v, lo, hi)


def hp_mask(cipher, sample):
    from cryptography.hazmat.primitives.ciphers import Cipher, algorithms, modes
    klen = CIPHERS[cipher][2]
    if cipher == "chacha20":
        return Cipher(algorithms.ChaCha20(KEY32[:klen], sample), mode=None).encryptor().update(bytes(5))
    return Cipher(algorithms.AES(KEY32[:klen]), modes.ECB()).encryptor().update(sample)[:5]


def call_vector(mi, case):
    """Values of the logical variables of the generated model for a direct call (None: ill-typed
    arguments, CPython rejects them before the C body runs)."""
    fn = case["fn"]
    f = mi.fn[fn]
    args = case["args"]
    kwargs = case.get("kwargs", {})
    env = {}
    spec = f["argspec"]
    pyargs = list(args)
    if fn == "Buffer_init":
        pyargs = [kwargs.get("capacity", args[0] if args else None), kwargs.get("data", args[1] if len(args) > 1 else None)]
    if fn in ("AEAD_init", "HeaderProtection_init"):
        pass
    if len(pyargs) != len(spec) and fn != "Buffer_init":
        return None
    for a, s in zip(pyargs, spec):
        if s["unit"] in ("y#", "s#"):
            if a is None and s.get("optional"):
                env[s["len"]] = 0
                env[s["optional"]] = 0
                continue
            if not (isinstance(a, dict) and ("n" in a or "hex" in a)):
                return None
            n = a["n"] if "n" in a else len(a["hex"]) // 2
            env[s["len"]] = n
            if s.get("optional"):
                env[s["optional"]] = 1
        else:
            if a is None and s.get("optional"):
                env[s["name"]] = 0
                continue
            if not isinstance(a, int) or isinstance(a, bool):
                return None
            if s["unit"] == "n":
                if not (-(1 << 63) <= a < (1 << 63)):
                    return None
                env[s["name"]] = a
            elif a < 0 and s["unit"] in ("B", "H", "I", "K") and False:
                return None
            else:
                env[s["name"]] = c_int(s["ctype"], a)
    cipher = case.get("cipher", "aes-128")
    hyps = {h["extra"][0]: h for h in f["hyps"] if h["kind"] in ("conv", "extern", "extern2") and h["extra"]}
    for v in f["vars"]:
        nm, kind = v["name"], v["kind"]
        if nm in env:
            continue
        if nm == "parsed":
            env[nm] = 1
        elif kind == "conv":
            h = hyps[nm]
            env[nm] = wrap(ev_e(t2(h["extra"][1]), env), h["extra"][2], h["extra"][3])
        elif nm.startswith("malloc_ok"):
            import re
            m = re.search(r"malloc\((\w+)\)", v["doc"])
            size = env.get(m.group(1), 0)
            env[nm] = 1 if 0 <= size < (1 << 40) else 0
        elif nm.startswith("outlen"):
            h = hyps[nm]
            upper = t2(h["cond"])[1][1]     # ('or', ('lt', upper, 0), ('le', v, upper + blk - 1))
            env[nm] = max(0, ev_e(upper, env))
        elif nm == "keylen_ok":
            want = {b"aes-128-ecb": 16, b"aes-256-ecb": 32, b"chacha20": 32}.get(mkbytes(args[0]) if isinstance(args[0], dict) else None)
            env[nm] = 1 if want is not None and env.get("keylen", env.get("key_len")) == want else 0
        elif nm == "is_chacha20":
            env[nm] = 1 if cipher == "chacha20" else 0
        elif nm.startswith("fail_"):
            env[nm] = case.get("fails", {}).get(nm, 0)
        elif nm == "u_header_0_and_0x03":
            hb = mkbytes(args[0])
            env[nm] = (hb[0] & 3) if len(hb) else 0
        elif nm == "u_self_minus_buffer_0_and_0x80":
            hb = mkbytes(args[0])
            copied = env["header_len"] if "header_len" in env else env["pn_offset"] + 4
            env[nm] = (hb[0] & 0x80) if len(hb) and copied >= 1 else 0    # nothing copied: buffer[0] of a fresh object is 0
        elif nm == "u_self_minus_buffer_0_and_0x03":
            # remove(): low bits of the first byte after unmasking -- computed with an independent AES/ChaCha20
            pkt = mkbytes(args[0])
            off = env["pn_offset"]
            val = 0
            if -3 <= off and off + 20 <= len(pkt) and len(pkt):
                m = hp_mask(cipher, pkt[off + 4:off + 20])
                val = (pkt[0] ^ (m[0] & (0x0F if pkt[0] & 0x80 else 0x1F))) & 3
            env[nm] = val
        elif kind == "loop":
            env[nm] = v["lo"]
        elif nm == "cmp":
            env[nm] = 0
        else:
            raise core.BuildError("C04 harness: no provider for model variable %s of %s (translator output changed?)" % (nm, fn))
    # the model's own hypotheses must hold for the vector (else the vector is wrong, not the code)
    return [env[v["name"]] for v in f["vars"]]


def decode_model(toks):
    """exec output -> (trace [(id,off,len,size)], outcome [status, a, b])"""
    if len(toks) < 3:
        return [], list(toks)
    body, out = toks[:-3], toks[-3:]
    tr = [tuple(body[i:i + 4]) for i in range(0, len(body) - len(body) % 4, 4)]
    return tr, out


# ------------------------------------------------------------------------- suite A: direct calls
class CallSuite:
    def __init__(self, ctx, mi, chk, asan):
        self.ctx, self.mi, self.chk, self.asan = ctx, mi, chk, asan
        self.asan_oob_budget = {}
        self.unenforced = {}     # fn -> example case (function-level contract violations observed)
        self.reported = set()
        self.suite = corr.Suite(ctx, "c04-calls", "exec_c04", self.encode, self.impl, self.oracle,
                                nontrivial=lambda c, out: len(out) > 3, ops=lambda c: [c["fn"]], rebuild=lambda c, ops: c,
                                opname=lambda o: o)

    def encode(self, case):
        v = call_vector(self.mi, case)
        if v is None:
            return [-7]     # ill-typed: model answers [-1]
        return [self.mi.fn[case["fn"]]["index"]] + v

    def impl(self, case):
        """tokens the model is expected to print, reconstructed from the CHECKED build's run"""
        if call_vector(self.mi, case) is None:
            r = self.chk.run(dict(case, kind="call"))
            ok = r.get("out", ["?"])[0] == "exc" and r["out"][1] in ("TypeError", "OverflowError")
            return [-1] if ok else ["ILL-TYPED-ARGUMENTS-NOT-REJECTED", json.dumps(r.get("out"))]
        r = self.chk.run(dict(case, kind="call"))
        if r.get("crash") or "driver_error" in r:
            return ["CHECKED-BUILD-CRASH", json.dumps(r.get("report") or r.get("driver_error"))]
        fn = case["fn"]
        trace, bounds, other = parse_err(r.get("err", ""), fn)
        rt = self.mi.rt_ids(fn)
        toks = []
        for t in trace:
            toks += list(t)
        out = r["out"]
        if bounds:
            mine = [b for b in bounds if b.rsplit(":", 1)[0] == fn]
            toks += [2, int(mine[0].rsplit(":", 1)[1]) if mine else -1, 0]
        elif out[0] == "ok":
            toks += [0, out[1], 0]
        else:
            toks += [1, EXC_CODES.get(out[1], 99), 0]
        self._last_rt = rt
        return toks

    def model_view(self, case, toks):
        """drop ghost (Coq-only) accesses from a model token list so that it is comparable with the run"""
        rt = self.mi.rt_ids(case["fn"])
        tr, out = decode_model(toks)
        res = []
        for t in tr:
            if t[0] in rt:
                res += list(t)
        return res + out

    def oracle(self, case):
        """Property on the implementation, independent of the Coq model: the sanitizer build must
        be silent and agree with the checked build whenever the checked build saw no violated
        assertion; Buffer construction must never overflow (direct API of the byte-buffer helper)."""
        fn = case["fn"]
        r = self.chk.run(dict(case, kind="call"))
        _, bounds, _ = parse_err(r.get("err", ""), None)
        if bounds:
            self.unenforced.setdefault(bounds[0], case)
            if fn == "Buffer_init":
                sig = {"site": "Buffer_init", "via": "Buffer()", "access": bounds[0]}
                return self._once(sig, "Buffer constructor: assertion %s violated (negative size / unchecked malloc)" % bounds[0])
            # run a few of the predicted-out-of-bounds calls under the sanitizers as confirmation
            k = bounds[0]
            if self.asan_oob_budget.get(fn, 0) < 1:
                self.asan_oob_budget[fn] = 1
                a = self.asan.run(dict(case, kind="call"))
                self.unenforced[k] = dict(case, asan=a.get("report") if a.get("crash") else "silent (intra-object or unused padding)")
            return None
        if fn == "Buffer_init" and r.get("out", [""])[0] == "ok":
            cap = (case.get("kwargs", {}).get("capacity") if "capacity" in case.get("kwargs", {}) else None)
            if isinstance(cap, int) and (cap < 0 or cap >= (1 << 47)) and "data" not in case.get("kwargs", {}):
                sig = {"site": "Buffer_init", "via": "Buffer()", "access": "malloc-unchecked"}
                return self._once(sig, "Buffer(capacity=%d) returned an object (malloc failure / negative size not detected)" % cap)
        a = self.asan.run(dict(case, kind="call"))
        if a.get("skipped"):
            return None
        if a.get("crash"):
            rep = a.get("report", {})
            sig = {"site": rep.get("function", fn), "via": "direct-call", "sanitizer": rep.get("asan") or rep.get("ubsan")}
            return ("sanitizer report on a call the checked build considers in bounds: %s" % json.dumps(rep), sig)
        if a.get("out") != r.get("out") and not r.get("crash"):
            return ("sanitizer build and checked build disagree on the outcome: %s vs %s" % (a.get("out"), r.get("out")),
                    {"site": fn, "kind": "outcome-mismatch"})
        return None

    def _once(self, sig, what):
        return (what, sig)

    def run(self, cases):
        # the generic Suite compares raw tokens; ghost accesses are filtered on the model side first
        orig_run_model = core.run_model

        def filtered(name, cs, shards=None):
            outs = orig_run_model(name, cs, shards)
            return outs
        st = self.suite
        # wrap encode/compare: Suite calls core.run_model itself, so pre-filter via a thin subclass trick
        st.run(cases)
        return st


# Suite compares model tokens with impl tokens verbatim; to drop ghost accesses we make impl() produce
# exactly the model's view instead (see CallSuite.impl) and patch the model output through this hook.
class FilteredSuite(corr.Suite):
    def __init__(self, *a, view=None, **kw):
        super().__init__(*a, **kw)
        self.view = view

    def disagree(self, case):
        exp = self.impl(case)
        got = self.view(case, core.run_model(self.model, [self.encode(case)], shards=1)[0])
        return exp != got, exp, got

    def run(self, cases, label=""):
        real = core.run_model
        view = self.view

        def patched(name, cs, shards=None):
            outs = real(name, cs, shards)
            return [view(c, o) for c, o in zip(cases, outs)]
        core.run_model = patched
        try:
            return super().run(cases, label)
        finally:
            core.run_model = real


# ------------------------------------------------------------------------- Buffer reference (oracle)
class RefBuffer:
    """The property for the byte-buffer helper coded directly: an operation that fits succeeds and
    moves the cursor; one that does not raises the documented exception and changes nothing."""

    def __init__(self, cap=None, data=None):
        self.mem = bytearray(data) if data is not None else bytearray(cap)
        self.known = [True] * len(self.mem)
        self.pos = 0

    def op(self, name, args):
        cap, pos = len(self.mem), self.pos
        RE, WE = "BufferReadError", "BufferWriteError"

        def ssize(v):
            if not isinstance(v, int) or isinstance(v, bool):
                return "TypeError"
            if not (-(1 << 63) <= v < (1 << 63)):
                return "OverflowError"
            return None
        if name in ("eof", "tell", "capacity", "data"):
            if args and name in ("eof", "tell"):
                pass
            if name == "eof":
                return ("ok", 0, int(pos == cap))
            if name == "tell":
                return ("ok", 0, pos)
            if name == "capacity":
                return ("ok", 0, cap)
            return ("ok", pos, bytes(self.mem[:pos]))
        if name in ("pull_uint8", "pull_uint16", "pull_uint32", "pull_uint64"):
            n = int(name[9:]) // 8
            if pos + n > cap:
                return ("exc", RE)
            v = int.from_bytes(self.mem[pos:pos + n], "big")
            self.pos += n
            return ("ok", 0, v)
        if name == "pull_uint_var":
            if pos + 1 > cap:
                return ("exc", RE)
            n = 1 << (self.mem[pos] >> 6)
            if pos + n > cap:
                return ("exc", RE)
            v = int.from_bytes(self.mem[pos:pos + n], "big") & ((1 << (8 * n - 2)) - 1)
            self.pos += n
            return ("ok", 0, v)
        if name == "pull_bytes":
            e = ssize(args[0]) if len(args) == 1 else "TypeError"
            if e:
                return ("exc", e)
            n = args[0]
            if n < 0 or pos + n > cap:
                return ("exc", RE)
            self.pos += n
            return ("ok", n, bytes(self.mem[pos:pos + n]))
        if name == "seek":
            e = ssize(args[0]) if len(args) == 1 else "TypeError"
            if e:
                return ("exc", e)
            if args[0] < 0 or args[0] > cap:
                return ("exc", RE)
            self.pos = args[0]
            return ("ok", 0, None)
        if name == "data_slice":
            if len(args) != 2:
                return ("exc", "TypeError")
            for a in args:
                e = ssize(a)
                if e:
                    return ("exc", e)
            a, b = args
            if a < 0 or a > cap or b < 0 or b > cap or b < a:
                return ("exc", RE)
            return ("ok", b - a, bytes(self.mem[a:b]))
        if name == "push_bytes":
            if len(args) != 1 or not isinstance(args[0], (bytes, bytearray)):
                return ("exc", "TypeError")
            d = bytes(args[0])
            if pos + len(d) > cap:
                return ("exc", WE)
            self.mem[pos:pos + len(d)] = d
            for i in range(pos, pos + len(d)):
                self.known[i] = True
            self.pos += len(d)
            return ("ok", 0, None)
        if name in ("push_uint8", "push_uint16", "push_uint32", "push_uint64", "push_uint_var"):
            if len(args) != 1 or not isinstance(args[0], int) or isinstance(args[0], bool):
                return ("exc", "TypeError")
            v = args[0]
            if name == "push_uint_var":
                v &= (1 << 64) - 1     # format K: no overflow check (wraps; F12 in DESIGN.md, a C17 matter)
                if v <= 0x3F:
                    n, enc = 1, v
                elif v <= 0x3FFF:
                    n, enc = 2, v | 0x4000
                elif v <= 0x3FFFFFFF:
                    n, enc = 4, v | 0x80000000
                elif v <= 0x3FFFFFFFFFFFFFFF:
                    n, enc = 8, v | 0xC000000000000000
                else:
                    return ("exc", "ValueError")
            else:
                n = int(name[9:]) // 8
                enc = v & ((1 << (8 * n)) - 1)
            if pos + n > cap:
                return ("exc", WE)
            self.mem[pos:pos + n] = enc.to_bytes(n, "big")
            for i in range(pos, pos + n):
                self.known[i] = True
            self.pos += n
            return ("ok", 0, None)
        raise KeyError(name)


BUF_OPS = ["data_slice", "eof", "pull_bytes", "pull_uint8", "pull_uint16", "pull_uint32", "pull_uint64", "pull_uint_var",
           "push_bytes", "push_uint8", "push_uint16", "push_uint32", "push_uint64", "push_uint_var", "seek", "tell", "capacity", "data"]
BUF_FN = {"data_slice": "Buffer_data_slice", "eof": "Buffer_eof", "pull_bytes": "Buffer_pull_bytes", "pull_uint8": "Buffer_pull_uint8",
          "pull_uint16": "Buffer_pull_uint16", "pull_uint32": "Buffer_pull_uint32", "pull_uint64": "Buffer_pull_uint64",
          "pull_uint_var": "Buffer_pull_uint_var", "push_bytes": "Buffer_push_bytes", "push_uint8": "Buffer_push_uint8",
          "push_uint16": "Buffer_push_uint16", "push_uint32": "Buffer_push_uint32", "push_uint64": "Buffer_push_uint64",
          "push_uint_var": "Buffer_push_uint_var", "seek": "Buffer_seek", "tell": "Buffer_tell", "capacity": "Buffer_capacity_getter",
          "data": "Buffer_data_getter"}
PUSH_BITS = {"push_uint8": 8, "push_uint16": 16, "push_uint32": 32, "push_uint64": 64, "push_uint_var": 64}


def buf_well_typed(name, pyargs):
    """Would CPython's argument parsing accept these arguments for this method?"""
    if name in ("eof", "tell", "pull_uint8", "pull_uint16", "pull_uint32", "pull_uint64", "pull_uint_var", "capacity", "data"):
        return True       # METH_VARARGS without parsing: extra arguments are ignored
    if name in ("pull_bytes", "seek"):
        return len(pyargs) == 1 and isinstance(pyargs[0], int) and not isinstance(pyargs[0], bool) and -(1 << 63) <= pyargs[0] < (1 << 63)
    if name == "data_slice":
        return len(pyargs) == 2 and all(isinstance(a, int) and not isinstance(a, bool) and -(1 << 63) <= a < (1 << 63) for a in pyargs)
    if name == "push_bytes":
        return len(pyargs) == 1 and isinstance(pyargs[0], bytes)
    return len(pyargs) == 1 and isinstance(pyargs[0], int) and not isinstance(pyargs[0], bool)


class BufSuite:
    def __init__(self, ctx, mi, chk, asan):
        self.ctx, self.mi, self.chk, self.asan = ctx, mi, chk, asan
        self.suite = corr.Suite(ctx, "c04-buffer-seq", "exec_cbuf", self.encode, self.impl, self.oracle,
                                ops=lambda c: c["ops"], rebuild=lambda c, ops: dict(c, ops=ops),
                                nontrivial=lambda c, out: len(c["ops"]) >= 2 and 0 in out[0::3],
                                opname=lambda o: o[0])

    def ref(self, case):
        return RefBuffer(data=bytes.fromhex(case["data"])) if "data" in case else RefBuffer(cap=case["cap"])

    def encode(self, case):
        """[cap; pos; (op, a1, a2)...]; ill-typed calls never reach the C body and are skipped for the
        model; pull_uint_var carries the top two bits of the byte under the cursor (from the reference)."""
        rb = self.ref(case)
        toks = [len(rb.mem), 0]
        for op in case["ops"]:
            name, pyargs = op[0], [mkbytes(a) for a in op[1:]]
            if not buf_well_typed(name, pyargs):
                continue
            code = BUF_OPS.index(name)
            a1 = a2 = 0
            if name in ("pull_bytes", "seek"):
                a1 = pyargs[0]
            elif name == "data_slice":
                a1, a2 = pyargs
            elif name == "push_bytes":
                a1 = len(pyargs[0])
            elif name in PUSH_BITS:
                a1 = pyargs[0] & ((1 << PUSH_BITS[name]) - 1)
            elif name == "pull_uint_var":
                a1 = (rb.mem[rb.pos] >> 6) if rb.pos < len(rb.mem) else 0
            toks += [code, a1, a2]
            rb.op(name, pyargs)
        return toks

    def impl(self, case):
        r = self.chk.run(dict(case, kind="bufseq"))
        if r.get("crash") or "driver_error" in r:
            return ["CHECKED-BUILD-CRASH", json.dumps(r.get("report") or r.get("driver_error"))]
        toks = []
        for op, o in zip(case["ops"], r["ops"]):
            name, pyargs = op[0], [mkbytes(a) for a in op[1:]]
            if not buf_well_typed(name, pyargs):
                continue
            _, bounds, _ = parse_err(o["err"], None)
            if bounds:
                toks += [2, int(bounds[0].rsplit(":", 1)[1]), o["tell"]]
            elif o["r"][0] == "ok":
                toks += [0, o["r"][1], o["tell"]]
            else:
                toks += [1, EXC_CODES.get(o["r"][1], 99), o["tell"]]
        return toks

    def oracle(self, case):
        r0 = self.chk.run(dict(case, kind="bufseq"))
        label = getattr(self, "chk_label", "checked")
        if getattr(self, "asan_only_if_clean", False):
            # fallback search (no instrumented build): the plain build is judged completely first (process death, acceptance of
            # an out-of-range argument, cursor / length / content); the sanitizer build runs only when it is clean there
            bad = self.judge(case, [(label, r0)])
            if bad:
                return bad
        runs = [(label, r0)]
        if "VERIF_BOUNDS" not in json.dumps(r0):
            ra = self.asan.run(dict(case, kind="bufseq"))
            if not ra.get("skipped"):
                runs.append(("asan", ra))
        return self.judge(case, runs)

    def judge(self, case, runs):
        for which, r in runs:
            if "driver_error" in r and "ops" not in r:
                return ("%s build: the Buffer driver failed: %s" % (which, r["driver_error"]), {"site": "harness", "via": "Buffer-methods"})
            if r.get("crash"):
                rep = r.get("report", {})
                return ("%s build: the process died (%s) running %s" % (which, json.dumps(rep), json.dumps(case.get("ops"))[:300]),
                        {"site": rep.get("function", "Buffer"), "via": "Buffer-methods",
                         "sanitizer": rep.get("asan") or rep.get("ubsan") or rep.get("signal")})
        rb2 = self.ref(case)
        for i, op in enumerate(case["ops"]):
            name, pyargs = op[0], [mkbytes(a) for a in op[1:]]
            if buf_well_typed(name, pyargs):
                exp = rb2.op(name, pyargs)
            else:
                exp = ("exc", "TypeError|OverflowError")
            for which, r in runs:
                o = r["ops"][i]
                _, bounds, other = parse_err(o["err"], None)
                if bounds:
                    return ("%s build: assertion %s fired in %s%r" % (which, bounds[0], name, op[1:]),
                            {"site": bounds[0].rsplit(":", 1)[0], "via": "Buffer-methods", "access": bounds[0]})
                got = o["r"]
                if exp[0] == "exc":
                    if got[0] != "exc" or got[1] not in exp[1].split("|"):
                        return ("%s build: %s%r on a buffer of %d bytes (cursor %d): expected %s, got %s; cursor afterwards %s" % (
                            which, name, op[1:], len(rb2.mem), rb2.pos, exp[1], got, o["tell"]),
                            {"site": BUF_FN[name], "via": "Buffer-methods", "kind": "accepted-out-of-range"})
                else:
                    if got[0] != "ok":
                        return ("%s build: %s%r expected success, got %s" % (which, name, op[1:], got),
                                {"site": BUF_FN[name], "via": "Buffer-methods", "kind": "spurious-reject"})
                    val = exp[2]
                    if isinstance(val, bytes):
                        # uninitialised malloc'ed bytes are not comparable: compare lengths, and contents only where written
                        if got[1] != len(val):
                            return ("%s build: %s%r returned %d bytes, expected %d" % (which, name, op[1:], got[1], len(val)),
                                    {"site": BUF_FN[name], "via": "Buffer-methods", "kind": "length"})
                    elif name in ("tell", "capacity", "eof") and got[2] != val:
                        return ("%s build: %s returned %r, expected %r" % (which, name, got[2], val),
                                {"site": BUF_FN[name], "via": "Buffer-methods", "kind": "value"})
                if o["tell"] != rb2.pos:
                    beyond = not (0 <= o["tell"] <= len(rb2.mem))
                    return ("%s build: cursor %d after %s%r, expected %d%s" % (which, o["tell"], name, op[1:], rb2.pos,
                                                                               " (outside the buffer of %d bytes)" % len(rb2.mem) if beyond else ""),
                            {"site": BUF_FN[name], "via": "Buffer-methods", "kind": "cursor-out-of-range" if beyond else "cursor"})
        # written bytes landed where the reference put them (catches in-bounds but misplaced stores)
        for which, r in runs:
            fin = r.get("final")
            if fin and not fin.startswith("exc:"):
                fb = bytes.fromhex(fin)
                for i, k in enumerate(rb2.known):
                    if k and i < len(fb) and fb[i] != rb2.mem[i]:
                        return ("%s build: byte %d of the buffer is %02x, reference %02x" % (which, i, fb[i], rb2.mem[i]),
                                {"site": "Buffer", "via": "Buffer-methods", "kind": "misplaced-store"})
        return None


# ------------------------------------------------------------------------- case generation
def gen_call_cases(ctx, mi):
    rng = ctx.rng
    cases = []

    def B(n, seed=0, first=None):
        d = {"n": n, "seed": seed}
        if first is not None:
            d["first"] = first
        return d
    T = 16
    # AEAD.encrypt: plaintext 0..1600 (all in thorough, boundaries + stride in quick), header lengths
    lens = sorted(set(list(range(0, 24 if not ctx.thorough else 40)) + list(range(1476, 1520)) + list(range(40, 1460, ctx.n(197, 7))) + [1599, 1600, 1601, 3000, 70000]))
    for c in ("aes-128", "aes-256", "chacha20"):
        for n in lens if c == "aes-128" else lens[:: 6] + [1484, 1485, 1500, 1501]:
            for hl in (0, 27) if n % 5 == 0 else (11,):
                cases.append({"fn": "AEAD_encrypt", "cipher": c, "args": [B(n, 1), B(hl, 2), rng.choice([0, 1, 2 ** 32, 2 ** 64 - 1, 2 ** 64 + 5, -1])]})
    # AEAD.decrypt: ciphertext lengths around 16 and 1500; authentic and forged
    for c in ("aes-128", "chacha20"):
        for n in sorted(set(list(range(0, 34)) + list(range(1490, 1510)) + list(range(34, 1490, ctx.n(131, 11))) + [5000])):
            cases.append({"fn": "AEAD_decrypt", "cipher": c, "args": [B(n, 3), B(9, 4), 7], "fails": {"fail_EVP_CipherFinal_ex": 1} if 16 <= n <= 1500 else {}})
            if 16 <= n <= 1500 and n % 3 == 0:
                cases.append({"fn": "AEAD_decrypt", "cipher": c, "valid": True, "args": [B(n, 3), B(9, 4), 7]})
    # HeaderProtection.apply: header lengths x payload lengths, every pn length
    hls = [0, 1, 2, 3, 4, 5, 9, 11, 27, 50, 1400, 1480, 1496, 1499, 1500, 1501, 1600]
    pls = [0, 1, 15, 16, 17, 18, 19, 20, 21, 40, 100, 1000, 1200, 1400, 1473, 1484, 1485, 1489, 1490, 1499, 1500, 1501, 1516, 2000]
    for c in ("aes-128", "chacha20"):
        for hl in hls:
            for pl in pls:
                if c == "chacha20" and (hl + pl) % 3:
                    continue
                first = rng.choice([0x40, 0xC0]) | rng.randrange(4)
                cases.append({"fn": "HeaderProtection_apply", "cipher": c, "args": [B(hl, 5, first), B(pl, 6)]})
        for total in range(1495, 1506):
            for hl in (11, 27):
                cases.append({"fn": "HeaderProtection_apply", "cipher": c, "args": [B(hl, 5, 0x41), B(total - hl, 6)]})
    # HeaderProtection.remove: (packet length, pn offset) grid + boundaries of every guard/VC
    Ls = sorted(set(list(range(0, 48)) + [100, 1199, 1200, 1479, 1480, 1496, 1499, 1500, 1501, 1515, 1516, 1517, 1520, 1521, 2000, 4000, 65535]))
    offs = sorted(set(list(range(0, 30)) + [100, 1400, 1476, 1479, 1480, 1481, 1494, 1495, 1496, 1497, 1499, 1500, 1501, 1980, 3000, 65515,
                                           2 ** 31 - 5, 2 ** 31 - 4, 2 ** 31, 2 ** 32 - 1, 2 ** 32 - 4, 2 ** 32 - 5, 2 ** 32, -1]))
    for c in ("aes-128", "chacha20"):
        for L in Ls:
            for off in offs:
                near = (off & 0xFFFFFFFF) < (1 << 31) and abs(L - ((off & 0xFFFFFFFF) + 20)) <= 2
                if not near and (L * 31 + off) % (3 if ctx.thorough else 17) and not (L in (9, 1500, 1520, 65535) and off in (9, 1496, 1497, 1500)):
                    continue
                if c == "chacha20" and not near and (L + off) % 3:
                    continue
                cases.append({"fn": "HeaderProtection_remove", "cipher": c, "args": [B(L, 8, rng.choice([0x40, 0xC3, 0x00, 0xFF])), off]})
    # constructors
    for nm in (b"aes-128-gcm", b"aes-256-gcm", b"chacha20-poly1305", b"nope", b""):
        for kl in (0, 15, 16, 17, 31, 32, 33, 64, 100):
            for il in (0, 11, 12, 13, 40):
                if (kl + il) % 2 and nm != b"aes-128-gcm":
                    continue
                fails = {}
                good = {b"aes-128-gcm": 16, b"aes-256-gcm": 32, b"chacha20-poly1305": 32}.get(nm)
                if good is None:
                    fails["fail_EVP_get_cipherbyname"] = 1
                elif kl != good:
                    fails["fail_value"] = 1      # create_ctx fails in set_key_length
                cases.append({"fn": "AEAD_init", "args": [{"hex": nm.hex()}, B(kl), B(il)], "fails": fails})
    for nm in (b"aes-128-ecb", b"aes-256-ecb", b"chacha20", b"chacha2", b"nope"):
        for kl in (0, 1, 15, 16, 17, 31, 32, 33, 64, 65):
            good = {b"aes-128-ecb": 16, b"aes-256-ecb": 32, b"chacha20": 32}.get(nm)
            fails = {}
            if good is None:
                fails["fail_EVP_get_cipherbyname"] = 1
            elif kl != good:
                fails["fail_EVP_CipherInit_ex"] = 0
            cases.append({"fn": "HeaderProtection_init", "args": [{"hex": nm.hex()}, B(kl)], "fails": fails})
    for cap in (0, 1, 2, 31, 32, 1200, -1, -2, -(2 ** 63), 2 ** 63 - 1, 2 ** 62, 2 ** 48, 2 ** 63, {"t": "str"}, {"t": "none"}):
        cases.append({"fn": "Buffer_init", "args": [], "kwargs": {"capacity": cap}})
    for n in (0, 1, 5, 32, 1200, 70000):
        cases.append({"fn": "Buffer_init", "args": [], "kwargs": {"data": B(n, 9)}})
        cases.append({"fn": "Buffer_init", "args": [], "kwargs": {"data": B(n, 9), "capacity": -5}})
    cases.append({"fn": "Buffer_init", "args": [], "kwargs": {}})
    # ill-typed arguments for the crypto entry points
    for fn, good in (("AEAD_encrypt", [B(20), B(5), 1]), ("AEAD_decrypt", [B(20), B(5), 1]), ("HeaderProtection_apply", [B(11, 0, 0x41), B(30)]),
                     ("HeaderProtection_remove", [B(40), 9])):
        for i in range(len(good)):
            for bad in ({"t": "none"}, {"t": "str"}, {"t": "float"}, {"t": "list"}):
                a = list(good)
                a[i] = bad
                cases.append({"fn": fn, "args": a})
        cases.append({"fn": fn, "args": good[:-1]})
    return cases


INT_POOL = [0, 1, 2, 3, 4, 5, 7, 8, 9, 15, 16, 17, 31, 32, 33, 63, 64, 65, 255, 256, 16383, 16384, 2 ** 30 - 1, 2 ** 30, 2 ** 31, 2 ** 32 - 1,
            2 ** 32, 2 ** 62 - 1, 2 ** 62, 2 ** 63 - 1, 2 ** 63, 2 ** 64 - 1, 2 ** 64, 2 ** 64 + 5, -1, -2, -8, -(2 ** 31), -(2 ** 63), -(2 ** 63) - 1]


def gen_buf_case(rng, small=False):
    case = {}
    if rng.random() < 0.35:
        n = rng.randrange(0, 33)
        data = bytes(rng.choice([0x00, 0x3F, 0x40, 0x7F, 0x80, 0xBF, 0xC0, 0xFF, rng.randrange(256)]) for _ in range(n))
        case["data"] = data.hex()
        cap = n
    else:
        cap = rng.randrange(0, 33)
        case["cap"] = cap
    ops = []
    for _ in range(rng.randrange(1, 5 if small else 14)):
        name = rng.choice(BUF_OPS[:15] * 3 + BUF_OPS)
        r = rng.random()

        def anyint():
            return rng.choice(INT_POOL) if rng.random() < 0.45 else rng.randrange(-2, cap + 3)
        if name in ("pull_bytes", "seek"):
            args = [anyint()]
        elif name == "data_slice":
            args = [anyint(), anyint()]
        elif name == "push_bytes":
            k = rng.choice([0, 1, 2, cap, cap + 1, rng.randrange(0, cap + 2)])
            args = [{"n": k, "seed": rng.randrange(100)}]
        elif name in PUSH_BITS:
            args = [rng.choice(INT_POOL) if rng.random() < 0.7 else rng.randrange(0, 1 << 16)]
        else:
            args = []
        if r < 0.06:       # wrong types / arity
            args = rng.choice([[{"t": "none"}], [{"t": "str"}], [{"t": "float"}], [], [1, 2, 3], [{"t": "bytearray"}], [{"n": 2}]])
            if name in ("eof", "tell", "capacity", "data") or name.startswith("pull_uint"):
                args = []
        ops.append([name] + args)
    case["ops"] = ops
    return case


def int_boundaries(cap):
    """Integer argument classes that matter for C conversions (Py_ssize_t 'n' -> int / unsigned / pointer arithmetic), for a
    buffer of `cap` bytes: 0, +-1, cap+-1, +-2^15, +-2^16, +-2^31, +-2^31+-1, +-2^32, +-2^32+-k, +-2^32+cap(+-1), k*2^32+small,
    +-2^63, +-2^63-+1, -2^63+k, 2^64 (the last ones are rejected by CPython's own conversion)."""
    vals = {0, 1, -1, 2, cap - 1, cap, cap + 1, -cap}
    for p in (15, 16, 31, 32):
        for s in (1, -1):
            vals |= {s * (1 << p), s * (1 << p) + 1, s * (1 << p) - 1}
    for s in (1, -1):
        for k in (2, 4, 8):
            vals |= {s * (1 << 32) + k, s * (1 << 32) - k}
        vals |= {s * (1 << 32) + cap, s * (1 << 32) + cap - 1, s * (1 << 32) + cap + 1, s * (1 << 33), s * (1 << 33) + 1,
                 s * 3 * (1 << 32) + 2, s * (1 << 48), s * (1 << 62)}
    vals |= {(1 << 63) - 1, (1 << 63), -(1 << 63), -(1 << 63) + 1, -(1 << 63) + 4, -(1 << 63) + cap, -(1 << 63) - 1,
             (1 << 63) - 1 - cap, 1 << 64, (1 << 64) + 4, (1 << 64) - 1}
    return sorted(vals)


def gen_buf_boundary(thorough=False):
    """every integer argument of every Buffer method (seek, pull_bytes, data_slice start / stop) at every class of
    int_boundaries, on small capacities, alone and followed by the operations that would USE a bogus cursor (push / pull)"""
    out = []
    for cap in ((0, 1, 8, 9, 32) if thorough else (0, 1, 8)):
        half = cap // 2
        for v in int_boundaries(cap):
            out.append({"cap": cap, "ops": [["seek", v], ["tell"], ["push_uint8", 1], ["tell"]]})
            out.append({"cap": cap, "ops": [["seek", v], ["pull_uint8"], ["eof"]]})
            out.append({"cap": cap, "ops": [["seek", v], ["push_bytes", {"n": 2, "seed": 3}], ["data"]]})
            out.append({"cap": cap, "ops": [["pull_bytes", v], ["tell"]]})
            out.append({"cap": cap, "ops": [["seek", half], ["pull_bytes", v], ["tell"], ["pull_uint8"]]})
            out.append({"cap": cap, "ops": [["data_slice", v, v]]})
            out.append({"cap": cap, "ops": [["data_slice", v, v + cap]]})
            out.append({"cap": cap, "ops": [["data_slice", v, v + 1]]})
            out.append({"cap": cap, "ops": [["data_slice", 0, v]]})
            out.append({"cap": cap, "ops": [["data_slice", v, cap]]})
            out.append({"cap": cap, "ops": [["seek", half], ["data_slice", half, v], ["tell"]]})
    return out


def gen_buf_exhaustive(thorough=True):
    """all sequences of length <= 2 over a small op alphabet on capacities 0..3"""
    alpha = [["pull_uint8"], ["pull_uint16"], ["pull_uint_var"], ["push_uint8", 0xC1], ["push_uint16", 7], ["push_uint_var", 64], ["push_uint_var", 2 ** 62],
             ["push_bytes", {"n": 2, "seed": 1}], ["pull_bytes", 2], ["pull_bytes", -1], ["seek", 0], ["seek", 1], ["seek", 4], ["data_slice", 1, 3],
             ["data_slice", 2, 1], ["data"], ["eof"], ["push_uint32", 1], ["pull_uint32"], ["push_uint64", 1], ["pull_uint64"]]
    out = []
    if not thorough:
        alpha = alpha[:15]
    for cap in range(0, 4 if thorough else 3):
        for a in alpha:
            out.append({"cap": cap, "ops": [a]})
            for b in alpha:
                out.append({"cap": cap, "ops": [a, b]})
    for cap in ((8, 9) if thorough else (8,)):
        for a in alpha:
            for b in alpha:
                out.append({"cap": cap, "ops": [["push_uint_var", 2 ** 62], ["seek", 0], a, b]})
    return out


def gen_conn_cases(ctx):
    cs = []
    short = sorted(set(list(range(1, 64)) + [100, 1199, 1200, 1201, 1499, 1500, 1501, 1516, 1517, 1520, 1521, 2000, 65535]))
    cs.append({"kind": "conn", "scenario": "recv_short", "params": {"target": "server", "datagrams": short}})
    cs.append({"kind": "conn", "scenario": "recv_short", "params": {"target": "client", "datagrams": short}})
    cs.append({"kind": "conn", "scenario": "recv_short", "params": {"target": "server", "cid_len": 20, "datagrams": short[:50]}})
    cs.append({"kind": "conn", "scenario": "recv_short", "params": {"target": "server", "cipher": "chacha20", "datagrams": short[:40]}})
    # raw datagrams of every length class 0..65535: boundaries + stride, several first bytes
    lens = sorted(set([0, 1, 2, 5, 6, 7, 20, 21, 22, 23, 24, 25, 26, 27, 28, 29, 30, 46, 47, 48, 1199, 1200, 1201, 1472, 1473, 1499, 1500, 1501,
                       1516, 1517, 1520, 1521, 1522, 4096, 16383, 16384, 65506, 65507, 65527, 65534, 65535]
                      + list(range(0, 65536, ctx.n(2621, 257)))))
    raws = []
    for L in lens:
        for first in (0x00, 0x40, 0xC0, 0xC3, 0xE0, 0xF0, 0xFF):
            if first not in (0x40, 0xC0) and L % 4:
                continue
            raws.append({"n": L, "seed": L % 251, "first": first})
    cs.append({"kind": "conn", "scenario": "recv_raw", "params": {"target": "server", "datagrams": raws}})
    cs.append({"kind": "conn", "scenario": "recv_raw", "params": {"target": "client", "datagrams": raws[::3]}})
    # Initial packets: token length x rest length grid, padded to >= 1200
    shapes = []
    for T in (0, 1, 8, 63, 64, 1000, 1100, 1440, 1460, 1464, 1465, 1466, 1467, 1468, 1469, 1470, 1480, 1500, 2000, 16383, 16384, 60000):
        for R in (0, 1, 4, 19, 20, 21, 24, 100, 1162, 1200):
            if T > 1440 and R not in (20, 24, 100):
                continue
            shapes.append([T, R, max(0, 1200 - (T + R + 30))])
    cs.append({"kind": "conn", "scenario": "recv_initial", "params": {"shapes": [x for x in shapes if x[0] <= 1440]}})
    cs.append({"kind": "conn", "scenario": "recv_initial", "params": {"shapes": [x for x in shapes if x[0] > 1440]}})
    for m in MDS_LIST:
        cs.append({"kind": "conn", "scenario": "pair_mds", "params": {"mds_c": m, "mds_s": m, "bytes": 3 * m + 500, "datagram": [m - 60, m - 40, m - 30]}})
    for m in ((1501, 1517, 1530, 1540, 2000) if ctx.thorough else (1501, 1517)):
        cs.append({"kind": "conn", "scenario": "pair_mds", "params": {"mds_c": 1200, "mds_s": m, "bytes": 3 * m}})
        cs.append({"kind": "conn", "scenario": "pair_mds", "params": {"mds_c": m, "mds_s": 1200, "bytes": 3 * m, "cipher": "chacha20"}})
    return cs


_MI = {}


def access_rw(name):
    """'read' / 'write' of an assertion id such as HeaderProtection_remove:3 (from the access list)"""
    if "mi" not in _MI:
        _MI["mi"] = ModelInfo()
    fn, i = name.rsplit(":", 1)
    for e in _MI["mi"].fn.get(fn, {"events": []})["events"]:
        if e["t"] == "acc" and e["id"] == int(i):
            return "write" if e["kind"] in ("w", "rw") else "read"
    return "?"


def conn_findings(case, res_by_build):
    """-> list of (what, signature, detail) for a connection-level scenario."""
    out = []
    sc = case["scenario"]
    via = {"recv_short": "receive_datagram", "recv_raw": "receive_datagram", "recv_initial": "receive_datagram",
           "pair_mds": "datagrams_to_send(max_datagram_size>1500)"}[sc]
    for which, r in res_by_build:
        if r.get("crash"):
            rep = r.get("report", {})
            site = rep.get("function") or "?"
            out.append(("%s build, scenario %s %s: %s" % (which, sc, rep.get("step", ""), json.dumps(rep)),
                        {"site": site, "via": via, "rw": rep.get("access", "?").split(" ")[0].lower(), "detector": "sanitizer"}, rep))
            continue
        if "driver_error" in r:
            out.append(("scenario driver failed: %s" % r["driver_error"], {"site": "harness", "via": sc}, r))
            continue
        _, bounds, other = parse_err(r.get("err", ""), None)
        for b in bounds[:1]:
            import re
            steps = re.findall(r"C04_STEP ([^\n]+)\n(?:(?!C04_STEP).)*?VERIF_BOUNDS", r.get("err", ""), re.S)
            out.append(("%s build, scenario %s (%s): assertion %s fired" % (which, sc, steps[0] if steps else "", b),
                        {"site": b.rsplit(":", 1)[0], "via": via, "rw": access_rw(b), "detector": "assertion"},
                        {"assertion": b, "step": steps[0] if steps else None}))
        for o in other:
            if "runtime error" in o:
                out.append(("%s build: UBSan: %s" % (which, o[:160]), {"site": "ubsan", "via": via}, {"ubsan": o[:200]}))
                break
    return out


# ------------------------------------------------------------------------- run / replay
def zl(v):
    return str(int(v)) if int(v) >= 0 else "(%d)" % int(v)


def check_call_sites(ctx, site_obs):
    """Cross-check of the generated caller model: evaluate gen/CCallers.v (vm_compute) on the named quantities recorded
    in the implementation and compare with the argument lengths the implementation really passed."""
    pre = ("From Coq Require Import ZArith List Bool.\nFrom AQ Require Import lib.Base model.CCallBase gen.CCallers.\n"
           "Import ListNotations.\nOpen Scope Z_scope.")
    bl = lambda v: "true" if v else "false"  # noqa: E731
    seal = sorted(site_obs["seal"])
    opn = sorted(site_obs["open"])
    exprs = []
    for t in seal:
        exprs.append("let '(pc, h, p) := end_packet_site %s %s %s %s %s %s %s %s %s in [b2z pc; h; p]" % (
            zl(t[0]), zl(t[1]), zl(t[2]), bl(t[3]), bl(t[4]), bl(t[5]), bl(t[6]), bl(t[7]), zl(t[8])))
    for t in opn:
        exprs.append("let '(L, e) := receive_datagram_site %s %s %s %s in [L; e]" % (zl(t[0]), zl(t[1]), zl(t[2]), zl(t[3])))
    stats = {"seal_sites": len(seal), "open_sites": len(opn), "seal_without_call": len([t for t in seal if t[9] < 0]),
             "mismatches": 0, "pull_header_post_failures": 0}
    if not exprs:
        return stats
    try:
        outs = core.run_vm(pre, exprs)
    except Exception as e:  # the generated file does not build: reported as proof/translator failure by main.py
        stats["error"] = str(e)[-300:]
        return stats
    for t, o in zip(seal, outs[:len(seal)]):
        want = [0] if t[9] < 0 else [1, t[9], t[10]]
        got = o[:1] if o[:1] == [0] else o
        if got != want:
            stats["mismatches"] += 1
            ctx.violation("correspondence", "c04-callers: generated end_packet_site %r != implementation %r for named quantities %r" % (o, want, t[:9]),
                          {"kind": "conn", "site": "seal", "named": list(t[:9]), "impl": list(t[9:]), "model": o, "scenario": site_obs["seal"][t]},
                          signature={"site": "end_packet_site"})
    for t, o in zip(opn, outs[len(seal):]):
        cap, t0, t1, pl, L, e = t
        if o != [L, e]:
            stats["mismatches"] += 1
            ctx.violation("correspondence", "c04-callers: generated receive_datagram_site %r != implementation %r for named quantities %r" % (o, [L, e], t[:4]),
                          {"kind": "conn", "site": "open", "named": list(t[:4]), "impl": [L, e], "model": o, "scenario": site_obs["open"][t]},
                          signature={"site": "receive_datagram_site"})
        # pull_header_post (generated from pull_quic_header) and the premises of callers_as_modelled on the real run
        if not (0 <= t0 < t1 <= cap and (pl == t1 - t0 or (t1 - t0 <= pl and t0 + pl <= cap) or pl == cap - t0)):
            stats["pull_header_post_failures"] += 1
            ctx.violation("correspondence", "c04-callers: pull_quic_header left (capacity, tell before, tell after, packet_length) = %r outside pull_header_post" % (t[:4],),
                          {"kind": "conn", "site": "open", "named": list(t[:4]), "scenario": site_obs["open"][t]}, signature={"site": "pull_header_post"})
    return stats


LIFECYCLE = ["aead_new_encrypt", "aead_new_decrypt", "aead_badinit_encrypt", "hp_new_apply", "hp_new_remove", "buffer_new", "buffer_reinit"]


def run_lifecycle(chk, asan):
    """Native objects used before / after a failed __init__ and Buffer re-__init__ (direct API only; outside the property's
    quantifier and outside the op model): outcome on both builds, recorded in the evidence."""
    out = {}
    for w in LIFECYCLE:
        case = {"kind": "lifecycle", "what": w}
        r = chk.run(case, timeout=60)
        ent = {"checked": ("crash rc=%s %s" % (r.get("rc"), json.dumps(r.get("report"))[:200])) if r.get("crash") else r.get("out")}
        if r.get("crash") and w in ("aead_new_encrypt", "hp_new_remove"):
            ra = asan.run(case, timeout=120)
            ent["sanitizer"] = ("crash rc=%s %s" % (ra.get("rc"), json.dumps(ra.get("report"))[:300])) if ra.get("crash") else ra.get("out", ra)
        out[w] = ent
    return out


def run_fallback_search(ctx, why):
    """The proof side is broken (translator failed closed / instrumented build does not compile): the search for a CONCRETE
    failing input still runs, on the PLAIN and on the SANITIZER (ASan+UBSan) build of the current C sources -- they need neither
    the translator nor the model.  Buffer method sequences are judged by the reference buffer (RefBuffer: an operation that
    does not fit raises and changes nothing; so `accepted although out of range`, a cursor outside the buffer, a slice longer
    than the buffer are failures) and by the process itself (a signal / a sanitizer report = the failing call sequence); the
    connection scenarios by the sanitizers.  Every case runs in a child process that is restarted after a crash, so the call
    sequence that killed it is known exactly.  -> coverage dict"""
    import threading
    t0 = time.time()
    st = {"reason": why[:300], "buffer_cases": 0, "buffer_failures": 0, "plain_crashes": 0, "sanitizer_crashes": 0,
          "conn_scenarios": 0, "conn_findings": 0, "signatures": {}, "truncated": None}
    box = {}

    def mk(kind):
        try:
            box[kind] = Build(kind)
        except Exception as e:  # noqa
            box[kind] = e
    ths = [threading.Thread(target=mk, args=(k,)) for k in ("plain", "asan")]
    for t in ths:
        t.start()
    for t in ths:
        t.join()
    builds = [b for b in box.values() if isinstance(b, Build)]
    plain = asan = None
    samples = []
    distinct = set()
    try:
        for k in ("plain", "asan"):
            if isinstance(box[k], Exception):
                # the C sources themselves do not compile: already a build violation of its own
                ctx.violation("build", "C04 fallback search: the %s build of the current C sources failed: %r" % (k, box[k]), None,
                              no_input=True)
                st["truncated"] = "%s build failed" % k
                return {"evaluations": 0, "distinct_nontrivial": 0, "rule": "fallback search could not start", "samples": [],
                        "fallback_search": st}
        plain = Runner(box["plain"], trace=False)
        asan = Runner(box["asan"])
        asan.crash_limit = 40
        st["build_s"] = {"plain": round(box["plain"].build_s, 1), "asan": round(box["asan"].build_s, 1)}
        bs = BufSuite.__new__(BufSuite)
        bs.ctx, bs.mi, bs.chk, bs.asan = ctx, None, plain, asan
        bs.chk_label = "plain"
        bs.asan_only_if_clean = True
        shr = corr.Suite(ctx, "c04-buffer-seq", None, None, None, bs.oracle, ops=lambda c: c["ops"],
                         rebuild=lambda c, ops: dict(c, ops=ops))
        budget_s = 60.0 * float(os.environ.get("VERIF_BUDGET", "1") or 1) * (6 if ctx.thorough else 1)
        crash_budget = 80 if not ctx.thorough else 400
        cases = corr.load_corpus("C04", "c04-buffer-seq") + gen_buf_boundary(ctx.thorough) + gen_buf_exhaustive(ctx.thorough)
        cases += [gen_buf_case(ctx.rng, small=(i % 3 == 0)) for i in range(ctx.n(1500, 40000))]
        reported = {}

        def keyof(case, bad):
            return json.dumps({"site": bad[1].get("site"), "kind": bad[1].get("kind"),
                               "died": " ".join(str(bad[1].get("sanitizer") or "").split()[:3]) or None,
                               "first_op": (case["ops"][0][0] if bad[1].get("sanitizer") and case.get("ops") else None)}, sort_keys=True)
        for case in cases:
            if time.time() - t0 > budget_s:
                st["truncated"] = "time budget (%d s) after %d buffer cases" % (budget_s, st["buffer_cases"])
                break
            if plain.crashes >= crash_budget:
                st["truncated"] = "crash budget (%d child processes killed) after %d buffer cases" % (crash_budget, st["buffer_cases"])
                break
            st["buffer_cases"] += 1
            distinct.add(json.dumps(case, sort_keys=True))
            if len(samples) < 3:
                samples.append({"suite": "fallback-buffer-seq", "case": _short(case)})
            try:
                bad = bs.oracle(case)
            except Exception as e:  # noqa -- the driver itself must not stop the search
                bad = ("buffer oracle raised %r" % (e,), {"site": "harness", "via": "Buffer-methods"})
            if not bad:
                continue
            st["buffer_failures"] += 1
            key = keyof(case, bad)
            st["signatures"][key] = st["signatures"].get(key, 0) + 1
            if key in reported:
                continue
            reported[key] = True

            def same(x, key=key):
                b = corr._safe(bs.oracle, x)
                return bool(b) and keyof(x, b) == key
            small = shr.shrink(case, same, max_steps=12 if bad[1].get("sanitizer") else 40)
            what, sig = corr._safe(bs.oracle, small) or bad
            conf = asan.run(dict(small, kind="bufseq"), timeout=120)
            confirm = conf.get("report") if conf.get("crash") else (
                "skipped (crash limit)" if conf.get("skipped") else "sanitizer child survived; per-op results: %s"
                % json.dumps([[o["r"], o["tell"]] for o in conf.get("ops", [])])[:600])
            ctx.violation("impl-violation", "c04-buffer-seq (fallback search, no model): " + what, _short(dict(small, kind="bufseq"), 3000),
                          signature=dict(sig, via="Buffer-methods"), extra={"sanitizer_on_minimised_case": confirm,
                                                                            "proof_side": "unavailable: " + why[:300]})
        st["plain_crashes"], st["sanitizer_crashes"] = plain.crashes, asan.crashes
        # connection scenarios (network datagrams, max_datagram_size settings) on both builds
        seen = set()
        asan.crash_limit = 1 << 30
        for case in [dict(c, kind="conn") for c in corr.load_corpus("C04", "c04-conn")] + gen_conn_cases(ctx):
            if time.time() - t0 > 2.2 * budget_s:
                st["truncated"] = (st["truncated"] or "") + " conn scenarios: time budget"
                break
            st["conn_scenarios"] += 1
            distinct.add(json.dumps(case, sort_keys=True, default=str)[:2000])
            r = plain.run(case, timeout=300)
            results = [("plain", r)]
            found = conn_findings(case, results)
            if not found:
                results.append(("sanitizer", asan.run(case, timeout=300)))
                found = conn_findings(case, results)
            for what, sig, detail in found:
                st["conn_findings"] += 1
                k = json.dumps({"site": sig.get("site"), "via": sig.get("via"), "rw": sig.get("rw")}, sort_keys=True)
                if k in seen:
                    continue
                seen.add(k)
                small = minimise_conn(case, dict(sig, detector="sanitizer"), plain, asan)
                ctx.violation("impl-violation", "c04-conn (fallback search, no model): " + what, _short(small, 3000),
                              signature={"site": sig.get("site"), "via": sig.get("via"), "rw": sig.get("rw")}, extra={"detail": detail})
        st["wall_s"] = round(time.time() - t0, 1)
        return {"evaluations": st["buffer_cases"] + st["conn_scenarios"], "distinct_nontrivial": len(distinct),
                "rule": "FALLBACK (translator / instrumented build unavailable): Buffer method sequences (integer boundary classes of every "
                        "integer argument on capacities 0..8, small-scope exhaustive, random) judged by the reference buffer and by process "
                        "death / sanitizer reports on the plain and the ASan+UBSan build; connection scenarios on both builds; "
                        "distinct = distinct case, every case performs at least one native call",
                "samples": samples, "fallback_search": st}
    finally:
        for r in (plain, asan):
            if r is not None:
                try:
                    r.close()
                except Exception:
                    pass
        for b in builds:
            b.close()


def setup_builds(ctx):
    g = load_c2vc()
    model, trs, text, summary = g.build(core.REPO)
    import threading
    box = {}

    def mk(kind, *a):
        try:
            box[kind] = Build(kind, *a)
        except Exception as e:  # noqa
            box[kind] = e
    ths = [threading.Thread(target=mk, args=("checked", trs)), threading.Thread(target=mk, args=("asan",))]
    for t in ths:
        t.start()
    for t in ths:
        t.join()
    for k in ("checked", "asan"):
        if isinstance(box[k], Exception):
            for b in box.values():
                if isinstance(b, Build):
                    b.close()
            raise box[k]
    chk_b, asan_b = box["checked"], box["asan"]
    chk = Runner(chk_b, trace=True)
    asan = Runner(asan_b)
    asan.crash_limit = 12
    chk.quiet = Runner(chk_b, trace=False)     # same build, tracing off: connection scenarios
    return g, model, chk_b, asan_b, chk, asan


def run(ctx):
    t0 = time.time()
    builds = []
    extra = {}
    try:
        try:
            g, model, chk_b, asan_b, chk, asan = setup_builds(ctx)
        except Exception as e:  # translator / instrumented build failure: fail closed, but still look for an input
            ctx.violation("build", "C04 translator or instrumented/sanitizer build failed: %r" % (e,), None, no_input=True)
            # the proof side is gone for this tree; the implementation-level search (plain + sanitizer build of the same C
            # sources, Buffer method-sequence oracle, connection scenarios) still runs: a crash / sanitizer report /
            # out-of-range acceptance is reported as impl-violation with the concrete call sequence
            cov = run_fallback_search(ctx, repr(e))
            extra.update({k: v for k, v in cov.items() if k == "fallback_search"})
            return cov
        builds = [chk_b, asan_b]
        mi = ModelInfo()
        nvc = sum(1 for f in mi.j["functions"] for e in f["events"] if e["t"] == "acc")
        refuted = {f["name"]: [e["id"] for e in f["events"] if e["t"] == "acc" and e.get("witness")] for f in mi.j["functions"]}
        refuted = {k: v for k, v in refuted.items() if v}
        extra["vcs_generated"] = nvc
        extra["vcs_refuted_becoming_contract_clauses"] = refuted
        extra["build_s"] = {"checked": round(chk_b.build_s, 1), "asan": round(asan_b.build_s, 1)}

        phases = {"setup": round(time.time() - t0, 1)}
        tp = time.time()
        # ---- A: direct calls, model <-> checked build (trace + outcome), sanitizer agreement
        cs = CallSuite(ctx, mi, chk, asan)
        cs.suite.__class__ = FilteredSuite
        cs.suite.view = cs.model_view
        call_cases = [c["case"] if "case" in c else c for c in corr.load_corpus("C04", "c04-calls")] + gen_call_cases(ctx, mi)
        w = max(2, min(6, core.NPROC // 2))
        chk.prefetch([dict(c, kind="call") for c in call_cases], w)
        asan.prefetch([dict(c, kind="call") for c in call_cases if not parse_err(chk.run(dict(c, kind="call")).get("err", ""), None)[1]], w)
        cs.suite.run(call_cases)
        extra["function_level_contract_violations"] = {k: _short(v) for k, v in sorted(cs.unenforced.items())}

        phases["calls"] = round(time.time() - tp, 1)
        tp = time.time()
        # ---- B: Buffer method sequences
        bs = BufSuite(ctx, mi, chk, asan)
        bcases = corr.load_corpus("C04", "c04-buffer-seq") + gen_buf_exhaustive(ctx.thorough)
        bnd = gen_buf_boundary(ctx.thorough)
        extra["buffer_boundary_cases"] = len(bnd)
        bcases += bnd
        bcases += [gen_buf_case(ctx.rng, small=(i % 3 == 0)) for i in range(ctx.n(1500, 40000))]
        chk.prefetch([dict(c, kind="bufseq") for c in bcases], w)
        asan.prefetch([dict(c, kind="bufseq") for c in bcases if "VERIF_BOUNDS" not in json.dumps(chk.run(dict(c, kind="bufseq")))], w)
        bs.suite.run(bcases)

        phases["buffer"] = round(time.time() - tp, 1)
        tp = time.time()
        # ---- C: real connections: network datagrams, max_datagram_size settings
        conn_stats = {"scenarios": 0, "datagrams_injected": 0, "pairs": 0, "findings": 0, "notes": []}
        seen = set()
        site_obs = {"seal": {}, "open": {}}
        for case in [dict(c, kind="conn") for c in corr.load_corpus("C04", "c04-conn")] + gen_conn_cases(ctx):
            conn_stats["scenarios"] += 1
            # checked build first; the sanitizer build runs the scenario only when no assertion fired
            # (an aborting sanitizer child costs a restart), and confirms each minimised finding once
            r = chk.quiet.run(case, timeout=300)
            for k in ("seal", "open"):
                for t in (r.get("sites") or {}).get(k, []):
                    site_obs[k].setdefault(tuple(t), _short({"scenario": case.get("scenario"), "params": case.get("params")}, 300))
            results = [("checked", r)]
            found = conn_findings(case, results)
            if not found:
                ra = asan.run(case, timeout=300)
                results.append(("sanitizer", ra))
                found = conn_findings(case, results)
            if not r.get("crash"):
                conn_stats["datagrams_injected"] += r.get("n", 0)
            if case["scenario"] == "pair_mds":
                conn_stats["pairs"] += 1
                if not r.get("crash"):
                    conn_stats["notes"].append({"mds": case["params"], "handshake": r.get("handshake"), "delivered": r.get("delivered"),
                                                "max_sent": r.get("max_sent"), "exceptions": r.get("notes")})
            for what, sig, detail in found:
                conn_stats["findings"] += 1
                k = json.dumps({"site": sig.get("site"), "via": sig.get("via"), "rw": sig.get("rw")}, sort_keys=True)
                if k in seen:
                    continue
                seen.add(k)
                small = minimise_conn(case, sig, chk.quiet, asan)
                conf = asan.run(small, timeout=300)
                confirm = conf.get("report") if conf.get("crash") else "sanitizers silent (overflow stays inside the Python object / allocation slack)"
                ctx.violation("impl-violation", "c04-conn: " + what, _short(small, 3000),
                              signature={"site": sig.get("site"), "via": sig.get("via"), "rw": sig.get("rw")},
                              extra={"detail": detail, "sanitizer_on_minimised_case": confirm})
        phases["connections"] = round(time.time() - tp, 1)
        tp = time.time()
        # ---- D: generated caller model <-> implementation; object lifecycle outside the op model
        extra["caller_model_crosscheck"] = check_call_sites(ctx, site_obs)
        extra["uninitialised_object_calls"] = run_lifecycle(chk.quiet, asan)
        phases["callers_lifecycle"] = round(time.time() - tp, 1)
        extra["connections"] = conn_stats
        extra["phase_wall_s"] = phases
        extra["runner"] = {"checked_runs": chk.runs, "asan_runs": asan.runs, "asan_crashes": asan.crashes, "checked_crashes": chk.crashes}
        cov = corr.merge_coverage(
            [cs.suite, bs.suite],
            "direct calls at every guard/VC boundary (-1/0/+1), plaintext 0..1600, (packet length, pn offset) grid, header lengths, "
            "constructor arguments, ill-typed arguments; random + small-scope-exhaustive Buffer method sequences on capacities 0..32 with "
            "arbitrary int/bytes arguments; real QuicConnection pairs for each max_datagram_size, datagram lengths 0..65535. "
            "distinct = distinct model token encoding; non-trivial = performs at least one memory access / at least one successful op",
            extra)
        cov["evaluations"] += conn_stats["scenarios"]
        return cov
    finally:
        for r in ("chk", "asan"):
            if r in locals() and locals()[r] is not None:
                try:
                    locals()[r].close()
                    if getattr(locals()[r], "quiet", None):
                        locals()[r].quiet.close()
                except Exception:
                    pass
        for b in builds:
            b.close()
        extra["dynamic_wall_s"] = round(time.time() - t0, 1)


def minimise_conn(case, sig, chk, asan):
    """Reduce a batch scenario to the single datagram / shape that triggers the finding."""
    p = case.get("params", {})
    key = "datagrams" if "datagrams" in p else "shapes" if "shapes" in p else None
    if not key:
        return case
    items = p[key]
    import re
    want = None
    dets = (("checked", chk),) if sig.get("detector") == "assertion" else (("sanitizer", asan),)
    for which, rn in dets:
        r = rn.run(case, timeout=300)
        for f in conn_findings(case, [(which, r)]):
            if f[1].get("site") == sig.get("site") and f[1].get("rw") == sig.get("rw"):
                step = (f[2] or {}).get("step") or ""
                m = re.search(r"T=(\d+) R=(\d+)", step)
                if m:
                    want = [x for x in items if x[0] == int(m.group(1)) and x[1] == int(m.group(2))]
                m = re.search(r"^len=(\d+)", step)
                if m:
                    want = [x for x in items if (x if isinstance(x, int) else x.get("n")) == int(m.group(1))]
    for it in (want or items)[:12]:
        c1 = dict(case, params=dict(p, **{key: [it]}))
        for which, rn in dets:
            r = rn.run(c1, timeout=120)
            f = conn_findings(c1, [(which, r)])
            if any(x[1].get("site") == sig.get("site") and x[1].get("rw") == sig.get("rw") for x in f):
                return c1
    return case


def _short(c, limit=900):
    s = json.dumps(c, default=str)
    return json.loads(s) if len(s) <= limit else s[:limit] + "..."


def replay_fallback(ctx, rep, why):
    """replay on the plain and the sanitizer build (the translator / instrumented build is unavailable for this tree)"""
    case = rep["case"]
    if isinstance(case, str):
        return {"error": "case was truncated in the replay file"}
    kind = case.get("kind") or ("bufseq" if "ops" in case else "call")
    builds, runners, out = [], [], {"proof_side": "unavailable: " + why[:300]}
    try:
        for which, bk in (("plain", "plain"), ("sanitizer", "asan")):
            b = Build(bk)
            builds.append(b)
            rn = Runner(b)
            runners.append(rn)
            r = rn.run(dict(case, kind=kind), timeout=300)
            out[which] = {k: (v if k != "err" else v[-1500:]) for k, v in r.items()}
        if kind == "bufseq":
            bs = BufSuite.__new__(BufSuite)
            bs.ctx, bs.mi, bs.chk, bs.asan = ctx, None, runners[0], runners[1]
            bs.chk_label, bs.asan_only_if_clean = "plain", True
            out["oracle"] = bs.oracle(dict(case, kind=kind))
        return out
    finally:
        for rn in runners:
            rn.close()
        for b in builds:
            b.close()


def replay(ctx, rep):
    try:
        g, model, chk_b, asan_b, chk, asan = setup_builds(ctx)
    except Exception as e:  # noqa -- translator / instrumented build failed on this tree
        return replay_fallback(ctx, rep, repr(e))
    try:
        case = rep["case"]
        if isinstance(case, str):
            return {"error": "case was truncated in the replay file"}
        kind = case.get("kind") or ("bufseq" if "ops" in case else "call")
        out = {}
        for which, rn in (("checked", chk.quiet if kind == "conn" else chk), ("sanitizer", asan)):
            r = rn.run(dict(case, kind=kind), timeout=300)
            out[which] = {k: (v if k != "err" else v[-1500:]) for k, v in r.items()}
        if kind == "call":
            mi = ModelInfo()
            v = call_vector(mi, case)
            if v is not None:
                out["model"] = core.run_model("exec_c04", [[mi.fn[case["fn"]]["index"]] + v], shards=1)[0]
        return out
    finally:
        chk.close()
        chk.quiet.close()
        asan.close()
        chk_b.close()
        asan_b.close()
