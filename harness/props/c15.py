"""C15  HTTP/3 applications only ever see well-formed messages.

Tie (re-run on every check):
  * suite `validate`: exhaustive + random correspondence of coq/model/H3Validate.v (extracted driver) against the
    real validate_header_name / validate_header_value / validate_{request,response,push_promise}_headers /
    validate_trailers and Python's int(bytes);
  * suite `stream`: op-sequence correspondence of the content-length bookkeeping model against a real H3Connection
    (stub QuicConnection, HEADERS blocks encoded by a real pylsqpack encoder, DATA frames cut at chosen points);
  * suite `e2e`: single HEADERS / trailers / PUSH_PROMISE frames through a real H3Connection, model = validators;
  * suite `events`: whole connections (several streams, random chunking, QPACK encoder stream before / after the
    message streams = BLOCKED / RESUME schedules, local end of stream, mutated header lists and bodies) through the
    composed model coq/model/H3Events.v (exec_h3events: C14's receive path H3Parse.v with the real Gallina validators
    plugged in; only QPACK's answers are recorded from the real pylsqpack) against a real H3Connection, every event
    and close code compared.
Every suite also runs the *implementation oracle*: the property's rules coded directly in Python (independent of the
model) on the implementation's observable behaviour (return / exception class / events / close code)."""
import itertools
import json

from vlib import core, corr

DEPENDS = ["C15Tables (generated)", "H3Validate", "H3ValidateSpec", "H3ValidateProofs", "H3StreamProofs", "Base", "Tok", "C15",
           "H3Parse (C14's model, read-only)", "H3Events", "H3EventsSpec", "H3EventsProofs", "H3EventsLoop", "H3EventsConn", "H3EventsThm",
           "harness/props/h3common.py (C14/C16: stub transport, recording QPACK proxies, generators)"]
TRUSTED_BASE = [
    "extraction (ExtrOcamlBasic only; Z kept as the extracted inductive) + coq/extract/driver.ml for running the model",
    "tools/gen/c15_tables.py (Python ast -> coq/gen/C15Tables.v: constants, per-character predicates, pseudo-header tables, "
    "exception classes caught around int()); shape check of validate_headers",
    "correspondence harness harness/props/c15.py + harness/vlib/corr.py (decides what 'agree' means)",
    "modelled, not verified: validate_headers control flow, CPython 3.12 int(bytes) grammar incl. the 4300-digit limit, "
    "the DATA/HEADERS content-length bookkeeping of _receive_request_or_push_data restricted to whole HEADERS frames and "
    "DATA frames cut inside the payload (H3Validate's stream model); the full frame parser, stream table and resume pass are "
    "C14's hand-written model coq/model/H3Parse.v, tied to the code by correspondence runs (suite events here, C14's suites)",
    "QPACK (pylsqpack) is an oracle in the composed model: any header list / blocked / failed for any bytes; the events "
    "theorems hold for every such oracle",
]
ASSUMPTIONS = [
    "header lists reaching the validators are lists of (bytes, bytes) pairs (what pylsqpack's decoder returns)",
    "sys.get_int_max_str_digits() is the default 4300",
    "content_length_matches (H3Validate stream model): QUIC events carry whole HEADERS frames; DATA frames may be cut anywhere inside the payload; no QPACK blocking",
    "events_* theorems (composed model): trace_ok = QUIC delivers no stream data after a stream's FIN and the application ends "
    "the sending side of a stream at most once; fx_pushblock = the tree has fix c68d1c5 (a blocked PUSH_PROMISE is resumed as "
    "a PUSH_PROMISE); every other fix flag, every byte string, chunking, interleaving and QPACK answer is arbitrary",
]

H3_MESSAGE_ERROR = 0x10E
EXN_KINDS = {"ValueError": 1, "TypeError": 2, "OverflowError": 3, "UnicodeDecodeError": 4, "UnicodeError": 4,
             "AttributeError": 5, "IndexError": 6, "KeyError": 7, "AssertionError": 8}
KINDS = ["request", "response", "push_promise", "trailers"]
ALPHA13 = [0x00, 0x09, 0x0A, 0x0D, 0x20, 0x21, 0x3A, 0x41, 0x5A, 0x61, 0x7F, 0x80, 0xFF]


def hx(b):
    return bytes(b).hex()


def unhx(s):
    return bytes.fromhex(s)


def hdrs(pairs):
    return [[hx(k), hx(v)] for k, v in pairs]


def unhdrs(h):
    return [(unhx(k), unhx(v)) for k, v in h]


# ------------------------------------------------------------------ the property, coded directly (independent of the model)
KNOWN_PSEUDO = {
    0: {b":method", b":scheme", b":authority", b":path", b":protocol"},
    1: {b":status"},
    2: {b":method", b":scheme", b":authority", b":path"},
    3: set(),
}


def name_rule(name):
    for c in name:
        if c < 0x20 or c == 0x7F:
            return "name-control"
        if c == 0x20:
            return "name-space"
        if c >= 0x80:
            return "name-non-ascii"
        if chr(c).isupper():
            return "name-uppercase"
    return None


def value_rule(value):
    if b"\x00" in value or b"\r" in value or b"\n" in value:
        return "value-nul-cr-lf"
    if value[:1] in (b" ", b"\t"):
        return "value-leading-whitespace"
    if value[-1:] in (b" ", b"\t"):
        return "value-trailing-whitespace"
    return None


def rule_broken(kind, headers):
    """Name of the first rule of the property sentence that `headers` breaks for message kind, else None."""
    for name, value in headers:
        r = name_rule(name) or value_rule(value)
        if r:
            return r
    regular_seen = False
    seen = set()
    for name, _ in headers:
        if name[:1] == b":":
            if regular_seen:
                return "pseudo-after-regular"
            if name in seen:
                return "pseudo-repeated"
            if name not in KNOWN_PSEUDO[kind]:
                return "trailer-pseudo" if kind == 3 else "pseudo-unknown"
            seen.add(name)
        else:
            regular_seen = True
    if kind in (0, 2) and b":method" not in seen:
        return "request-without-method"
    if kind == 1 and b":status" not in seen:
        return "response-without-status"
    return None


def declared_content_length(headers):
    """The content-length a well-formed header list declares (None if absent or not all equal)."""
    vals = [v for k, v in headers if k == b"content-length"]
    if not vals:
        return None
    try:
        ns = {int(v.decode("ascii")) for v in vals}
    except (ValueError, UnicodeDecodeError):
        return "invalid"
    return ns.pop() if len(ns) == 1 else "conflicting"


# ------------------------------------------------------------------ suite `validate`
def v_encode(case):
    t = []
    for op in case["ops"]:
        if op[0] == "v":
            t += [op[1], len(op[2])]
            for k, v in op[2]:
                kb, vb = unhx(k), unhx(v)
                t += [len(kb)] + list(kb) + [len(vb)] + list(vb)
        else:
            b = unhx(op[1])
            t += [{"name": 4, "value": 5, "int": 6}[op[0]], len(b)] + list(b)
    return t


def _exn_tokens(e):
    from aioquic.h3.connection import ProtocolError
    if isinstance(e, ProtocolError):
        return [1, int(e.error_code)]
    return [2, EXN_KINDS.get(type(e).__name__, 99)]


_VCACHE = {}


def _call_validator(kind, headers):
    """Returns (exception or None, expected_content_length stored on the stream or None).  The result of the real
    call is remembered for the current batch: the comparison with the model and the oracle look at the same run."""
    key = (kind, tuple(headers))
    r = _VCACHE.get(key)
    if r is None:
        r = _VCACHE[key] = _call_validator_uncached(kind, headers)
    return r


def _call_validator_uncached(kind, headers):
    from aioquic.h3 import connection as h3c
    stream = h3c.H3Stream(0)
    try:
        if kind == 0:
            h3c.validate_request_headers(headers, stream)
        elif kind == 1:
            h3c.validate_response_headers(headers, stream)
        elif kind == 2:
            h3c.validate_push_promise_headers(headers)
        else:
            h3c.validate_trailers(headers)
    except Exception as e:
        return e, None
    return None, stream.expected_content_length


def v_impl(case):
    from aioquic.h3 import connection as h3c
    out = []
    for op in case["ops"]:
        if op[0] == "v":
            e, ecl = _call_validator(op[1], unhdrs(op[2]))
            out += _exn_tokens(e) if e is not None else ([0, 0] if ecl is None else [0, 1, ecl])
        elif op[0] == "name":
            try:
                h3c.validate_header_name(unhx(op[1]))
                out += [0]
            except Exception as e:
                out += _exn_tokens(e)
        elif op[0] == "value":
            try:
                h3c.validate_header_value(b"x", unhx(op[1]))
                out += [0]
            except Exception as e:
                out += _exn_tokens(e)
        else:
            try:
                out += [0, int(unhx(op[1]))]
            except Exception as e:
                out += _exn_tokens(e)
    return out


def v_oracle(case):
    from aioquic.h3 import connection as h3c
    for i, op in enumerate(case["ops"]):
        if op[0] == "v":
            kind, headers = op[1], unhdrs(op[2])
            e, ecl = _call_validator(kind, headers)
            broken = rule_broken(kind, headers)
            if e is None:
                if broken:
                    return ("validate_%s accepts a header list breaking rule '%s' (op %d): %r" % (KINDS[kind], broken, i, headers),
                            {"site": "validate_headers", "kind": KINDS[kind], "rule": broken})
                d = declared_content_length(headers)
                if d == "conflicting":
                    return ("validate_%s accepts conflicting content-length declarations (op %d): %r" % (KINDS[kind], i, headers),
                            {"site": "validate_headers", "rule": "content-length-conflicting"})
                if kind in (0, 1) and ecl != d:
                    return ("validate_%s stored expected_content_length=%r for declared %r (op %d)" % (KINDS[kind], ecl, d, i),
                            {"site": "validate_headers", "kind": KINDS[kind], "rule": "expected-content-length"})
                if ecl is not None and ecl < 0:
                    return ("negative expected_content_length accepted (op %d)" % i,
                            {"site": "validate_headers", "kind": KINDS[kind], "rule": "content-length-negative"})
            elif not (isinstance(e, h3c.ProtocolError) and int(e.error_code) == H3_MESSAGE_ERROR):
                return ("validate_%s raised %s instead of the HTTP/3 message error (op %d): %r" % (KINDS[kind], type(e).__name__, i, headers),
                        {"site": "validate_headers", "kind": KINDS[kind], "exception": type(e).__name__})
        elif op[0] in ("name", "value"):
            b = unhx(op[1])
            try:
                if op[0] == "name":
                    h3c.validate_header_name(b)
                else:
                    h3c.validate_header_value(b"x", b)
                e = None
            except Exception as ex:
                e = ex
            broken = name_rule(b) if op[0] == "name" else value_rule(b)
            if e is None and broken:
                return ("validate_header_%s accepts %r breaking rule '%s'" % (op[0], b, broken),
                        {"site": "validate_header_" + op[0], "rule": broken})
            if e is not None and not (isinstance(e, h3c.ProtocolError) and int(e.error_code) == H3_MESSAGE_ERROR):
                return ("validate_header_%s raised %s on %r" % (op[0], type(e).__name__, b),
                        {"site": "validate_header_" + op[0], "exception": type(e).__name__})
    return None


GOOD = {b":method": b"GET", b":scheme": b"https", b":authority": b"h", b":path": b"/", b":status": b"200",
        b":protocol": b"websocket"}
BASE = {
    0: [(b":method", b"GET"), (b":scheme", b"https"), (b":authority", b"h"), (b":path", b"/")],
    1: [(b":status", b"200")],
    2: [(b":method", b"GET"), (b":scheme", b"https"), (b":authority", b"h"), (b":path", b"/")],
    3: [],
}


def small_strings(alpha, maxlen):
    for n in range(maxlen + 1):
        for t in itertools.product(alpha, repeat=n):
            yield bytes(t)


def batch(ops, size):
    ops = list(ops)
    return [{"ops": ops[i:i + size]} for i in range(0, len(ops), size)]


def v_exhaustive_chars(maxlen):
    """All names / values of length <= maxlen over the 13-byte boundary alphabet, plus all 256 single bytes (and each
    byte in first / middle / last position of an otherwise good string), alone and inside a header list of every kind."""
    strings = list(small_strings(ALPHA13, maxlen))
    strings += [bytes([b]) for b in range(256) if b not in ALPHA13]
    pos = []
    for b in range(256):
        pos += [bytes([b]) + b"ab", b"a" + bytes([b]) + b"b", b"ab" + bytes([b])]
    ops = []
    for s in strings + pos:
        ops.append(["name", hx(s)])
        ops.append(["value", hx(s)])
        for kind in range(4):
            ops.append(["v", kind, hdrs(BASE[kind] + [(s, b"v")])])
            ops.append(["v", kind, hdrs(BASE[kind] + [(b"x", s)])])
    for a in small_strings(ALPHA13, 1):
        for b in small_strings(ALPHA13, 1):
            for kind in range(4):
                ops.append(["v", kind, hdrs(BASE[kind] + [(a, b)])])
                ops.append(["v", kind, hdrs([(a, b)] + BASE[kind])])
    # pseudo-header values over the alphabet (value rules apply to pseudo-headers too)
    for s in small_strings(ALPHA13, 2):
        ops.append(["v", 1, hdrs([(b":status", s)])])
        ops.append(["v", 0, hdrs([(b":method", s), (b":authority", b"h")])])
    return batch(ops, 64)


ATOMS_FULL = [(k, GOOD[k]) for k in (b":method", b":scheme", b":authority", b":path", b":status", b":protocol")] + [
    (b":x", b"1"), (b":", b"1"), (b"a", b"1"), (b"content-length", b"0")]
ATOMS_SMALL = [(k, GOOD[k]) for k in (b":method", b":scheme", b":authority", b":path", b":status")] + [(b"a", b"1")]


def v_exhaustive_pseudo(full_len, small_len):
    """All sequences (subsets, orders, duplicates) of header atoms up to the given lengths, for every kind."""
    ops = []
    seen = set()
    for atoms, n in ((ATOMS_FULL, full_len), (ATOMS_SMALL, small_len)):
        for ln in range(n + 1):
            for seq in itertools.product(range(len(atoms)), repeat=ln):
                key = tuple(atoms[i][0] for i in seq)
                if key in seen:
                    continue
                seen.add(key)
                h = hdrs([atoms[i] for i in seq])
                for kind in range(4):
                    ops.append(["v", kind, h])
    # the stricter scheme / authority / path rules of the code
    for scheme in (b"http", b"https", b"ftp", b"", b"HTTP"):
        for auth in (None, b"", b"h"):
            for path in (None, b"", b"/"):
                items = [(b":method", b"GET"), (b":scheme", scheme)]
                if auth is not None:
                    items.append((b":authority", auth))
                if path is not None:
                    items.append((b":path", path))
                for perm in itertools.permutations(items):
                    for kind in (0, 2):
                        ops.append(["v", kind, hdrs(list(perm))])
    for te in (b"trailers", b"", b"gzip", b"Trailers", b"trailers "):
        for kind in range(4):
            ops.append(["v", kind, hdrs(BASE[kind] + [(b"transfer-encoding", te)])])
    return batch(ops, 64)


WS = [b"", b" ", b"\t", b"\x0b", b"\x0c", b"\n", b"\r", b"\x1c", b"\x1f", b"\x85", b"\xa0", b"\x00", b"  "]
SIGNS = [b"", b"+", b"-", b"+-", b"--", b"+ ", b"- "]
BODIES = [b"", b"0", b"7", b"10", b"007", b"1_0", b"_1", b"1_", b"1__0", b"1_0_0", b"0_", b"_", b"1e3", b"0x10", b"0b1",
          b"1.0", b"\xd9\xa1", b"12a", b"1 2", b"1\x002", b"18446744073709551616", b"99999999999999999999999999",
          b"1_000_000", b":", b"/", b"09", b"0_0", b"1,000", b"\xef\xbc\x91", b"0" * 30 + b"5"]


def cl_spellings(ws):
    for pre in ws:
        for sign in SIGNS:
            for body in BODIES:
                for post in ws:
                    yield pre + sign + body + post


def long_spellings():
    out = []
    for n in (639, 640, 641, 4299, 4300, 4301, 5000):
        out += [b"1" * n, b"0" * n, b"-" + b"1" * n, b"9" * n + b"x", b" " + b"7" * n + b" "]
    out += [b"1_" * 4299 + b"1", b"1_" * 4300 + b"1", b"1" * 4300 + b"_", b"0" * 4301 + b"_", b"1" * 4301 + b"__1"]
    return out


def v_content_length(thorough):
    ops = []
    ws = WS if thorough else WS[:9]
    for s in cl_spellings(ws):
        ops.append(["int", hx(s)])
        if value_rule(s) is None or len(s) <= 3:
            ops.append(["v", 0, hdrs(BASE[0] + [(b"content-length", s)])])
    for s in long_spellings():
        ops.append(["int", hx(s)])
        ops.append(["v", 1, hdrs(BASE[1] + [(b"content-length", s)])])
    for a in (b"0", b"3", b"-1", b"x", b"1_0", b"+3"):
        for b in (b"0", b"3", b"-1", b"x", b"03"):
            for kind in range(4):
                ops.append(["v", kind, hdrs(BASE[kind] + [(b"content-length", a), (b"content-length", b)])])
                ops.append(["v", kind, hdrs(BASE[kind] + [(b"content-length", a), (b"x", b"y"), (b"content-length", b)])])
    return batch(ops, 64)


NAME_POOL = [b"a", b"accept", b"content-length", b"transfer-encoding", b"x-y", b"cookie", b"te", b"content-lengt", b"content-length2",
             b":method", b":scheme", b":authority", b":path", b":status", b":protocol", b":x", b":", b"", b"a:b", b"A", b"aZ", b"a b",
             b"\x7f", b"caf\xc3\xa9", b"a\x00", b"~", b"!", b"@", b"[", b"`", b"{", b"::", b":Method", b"content-Length"]
VALUE_POOL = [b"", b"1", b"GET", b"https", b"http", b"/", b"h", b"200", b"trailers", b"0", b"5", b"12", b"-1", b"1_0", b"+5", b" 5",
              b"5 ", b"\t5", b"a b", b"a\tb", b"a\r\nb", b"\x00", b"a\x00", b"\xff", b" ", b"\t", b"  ", b"x" * 40, b"\x0b5\x0c"]


def v_random(rng, n):
    cases = []
    for _ in range(n):
        ops = []
        for _ in range(rng.randint(1, 8)):
            kind = rng.randrange(4)
            r = rng.random()
            if r < 0.6:
                # mostly valid: base + regular headers, then one mutation
                h = list(BASE[kind])
                for _ in range(rng.randint(0, 6)):
                    h.append((rng.choice(NAME_POOL[:8]), rng.choice(VALUE_POOL[:12])))
                m = rng.random()
                if m < 0.15 and h:
                    h.pop(rng.randrange(len(h)))
                elif m < 0.3 and h:
                    h.insert(rng.randrange(len(h) + 1), rng.choice(h))
                elif m < 0.45 and h:
                    i, j = rng.randrange(len(h)), rng.randrange(len(h))
                    h[i], h[j] = h[j], h[i]
                elif m < 0.6:
                    h.insert(rng.randrange(len(h) + 1), (rng.choice(NAME_POOL), rng.choice(VALUE_POOL)))
                elif m < 0.7 and h:
                    i = rng.randrange(len(h))
                    k, v = h[i]
                    b = bytearray(v or b"x")
                    b[rng.randrange(len(b))] = rng.choice(ALPHA13)
                    h[i] = (k, bytes(b))
                elif m < 0.8 and h:
                    i = rng.randrange(len(h))
                    k, v = h[i]
                    b = bytearray(k or b"x")
                    b[rng.randrange(len(b))] = rng.choice(ALPHA13 + [0x2F, 0x40, 0x5B, 0x60, 0x7B, 0x7E])
                    h[i] = (bytes(b), v)
            elif r < 0.9:
                h = [(rng.choice(NAME_POOL), rng.choice(VALUE_POOL)) for _ in range(rng.randint(0, 12))]
            else:
                h = [(bytes(rng.randrange(256) for _ in range(rng.randint(0, 6))),
                      bytes(rng.randrange(256) for _ in range(rng.randint(0, 6)))) for _ in range(rng.randint(0, 20))]
            ops.append(["v", kind, hdrs(h)])
        cases.append({"ops": ops})
    return cases


# ------------------------------------------------------------------ real connection helpers
class StubQuic:
    """Like tests/test_h3.py FakeQuicConnection: records close(), swallows sent data."""

    def __init__(self, is_client):
        from aioquic.quic.configuration import QuicConfiguration
        self.configuration = QuicConfiguration(is_client=is_client)
        self.closed = None
        self._quic_logger = None
        self._remote_max_datagram_frame_size = None
        self._next_bidi = 0 if is_client else 1
        self._next_uni = 2 if is_client else 3
        self.sent = 0

    def close(self, error_code, reason_phrase):
        if self.closed is None:
            self.closed = (int(error_code), reason_phrase)

    def get_next_available_stream_id(self, is_unidirectional=False):
        if is_unidirectional:
            s = self._next_uni
            self._next_uni += 4
        else:
            s = self._next_bidi
            self._next_bidi += 4
        return s

    def send_stream_data(self, stream_id, data, end_stream=False):
        self.sent += len(data)


def qpack_block(headers, stream_id=0):
    """Header block from a real pylsqpack encoder (static table + literals only); None if pylsqpack refuses the list
    or its own decoder does not return the same list."""
    import pylsqpack
    try:
        enc_stream, block = pylsqpack.Encoder().encode(stream_id, headers)
    except ValueError:
        return None
    if enc_stream:
        return None
    try:
        _, back = pylsqpack.Decoder(0, 0).feed_header(stream_id, block)
    except Exception:
        return None
    if [tuple(x) for x in back] != [tuple(x) for x in headers]:
        return None
    return block


def frame(ftype, payload):
    from aioquic.buffer import encode_uint_var
    return encode_uint_var(ftype) + encode_uint_var(len(payload)) + payload


def feed(h3, stream_id, data, fin):
    from aioquic.quic.events import StreamDataReceived
    return h3.handle_event(StreamDataReceived(data=data, end_stream=fin, stream_id=stream_id))


# ------------------------------------------------------------------ suite `stream`
def s_encode(case):
    t = [int(case["client"])]
    for op in case["ops"]:
        if op[0] == "h":
            t += [0, int(op[2]), len(op[1])]
            for k, v in op[1]:
                kb, vb = unhx(k), unhx(v)
                t += [len(kb)] + list(kb) + [len(vb)] + list(vb)
        elif op[0] == "d":
            t += [1, op[1], op[2], int(op[3])]
        elif op[0] == "c":
            t += [2, op[1], int(op[2])]
        else:
            t += [3]
    return t


def _stream_events(case):
    """Drive a real H3Connection; yields per op (events, closed, exception)."""
    from aioquic.h3.connection import H3Connection
    from aioquic.buffer import encode_uint_var
    quic = StubQuic(case["client"])
    h3 = H3Connection(quic)
    res = []
    fill = 0
    for op in case["ops"]:
        if op[0] == "h":
            blk = qpack_block(unhdrs(op[1]))
            if blk is None:
                raise corr_skip("qpack")
            data, fin = frame(0x1, blk), bool(op[2])
        elif op[0] == "d":
            data = encode_uint_var(0x0) + encode_uint_var(op[1]) + bytes((fill + i) % 251 for i in range(op[2]))
            fill += op[2]
            fin = bool(op[3])
        elif op[0] == "c":
            data, fin = bytes((fill + i) % 251 for i in range(op[1])), bool(op[2])
            fill += op[1]
        else:
            data, fin = b"", True
        try:
            evs = feed(h3, 0, data, fin)
            exc = None
        except Exception as e:
            evs, exc = [], e
        res.append((evs, quic.closed, exc))
        if quic.closed is not None or exc is not None:
            break
    return res


class corr_skip(Exception):
    pass


def s_impl(case):
    from aioquic.h3.events import DataReceived, HeadersReceived
    out = []
    for evs, closed, exc in _stream_events(case):
        if exc is not None:
            out += [2, EXN_KINDS.get(type(exc).__name__, 99)]
        elif closed is not None:
            out += [1, closed[0]]
        else:
            out += [0, len(evs)]
            for e in evs:
                if isinstance(e, HeadersReceived):
                    out += [0, int(e.stream_ended), len(e.headers)]
                elif isinstance(e, DataReceived):
                    out += [1, int(e.stream_ended), len(e.data)]
                else:
                    out += [9, 0, 0]
    return out


def s_oracle(case):
    """Property on the implementation: every HeadersReceived is well formed for its position; when an event says the
    stream ended, the declared content-length equals the body bytes delivered; a rule-breaking HEADERS frame or a
    FIN with a wrong body size closes the connection with H3_MESSAGE_ERROR instead."""
    from aioquic.h3.events import DataReceived, HeadersReceived
    nheaders = 0
    body = 0
    declared = None
    first_kind = 1 if case["client"] else 0
    state = "initial"   # expected position of the next HEADERS frame
    open_frame = 0      # remaining payload of an open DATA frame, as sent by the peer
    fin_seen = False
    res = _stream_events(case)
    for i, (op, (evs, closed, exc)) in enumerate(zip(case["ops"], res)):
        if exc is not None:
            return ("handle_event raised %s at op %d" % (type(exc).__name__, i), {"site": "handle_event", "exception": type(exc).__name__})
        # what the peer sent
        breaks = None
        if op[0] == "h":
            kind = first_kind if state == "initial" else 3
            breaks = rule_broken(kind, unhdrs(op[1])) if state != "done" else None
            fin = bool(op[2])
        elif op[0] == "d":
            open_frame = op[1] - op[2]
            sent_body = op[2]
            fin = bool(op[3])
        elif op[0] == "c":
            open_frame -= op[1]
            sent_body = op[1]
            fin = bool(op[2])
        else:
            fin = True
        fin_seen = fin_seen or fin
        if closed is not None:
            if closed[0] != H3_MESSAGE_ERROR:
                if breaks:
                    return ("HEADERS breaking rule '%s' closed the connection with 0x%x, not H3_MESSAGE_ERROR (op %d)" % (breaks, closed[0], i),
                            {"site": "h3-headers", "rule": breaks, "close": closed[0]})
            return None
        if breaks:
            return ("HEADERS breaking rule '%s' did not close the connection (op %d)" % (breaks, i),
                    {"site": "h3-headers", "rule": breaks, "kind": KINDS[kind]})
        for e in evs:
            if isinstance(e, HeadersReceived):
                kind = first_kind if nheaders == 0 else 3
                nheaders += 1
                b = rule_broken(kind, [tuple(h) for h in e.headers])
                if b:
                    return ("HeadersReceived carries headers breaking rule '%s' (op %d)" % (b, i),
                            {"site": "h3-event", "rule": b, "kind": KINDS[kind]})
                if declared_content_length([tuple(h) for h in e.headers]) == "conflicting":
                    return ("HeadersReceived carries conflicting content-length declarations (op %d)" % i,
                            {"site": "h3-event", "rule": "content-length-conflicting"})
                if kind != 3:
                    declared = declared_content_length([tuple(h) for h in e.headers])
                    if declared == "invalid":
                        return ("HeadersReceived with an unparsable content-length (op %d)" % i, {"site": "h3-event", "rule": "content-length-syntax"})
            elif isinstance(e, DataReceived):
                body += len(e.data)
            if getattr(e, "stream_ended", False):
                if isinstance(declared, int) and declared != body:
                    return ("stream_ended event with declared content-length %d but %d body bytes delivered (op %d)" % (declared, body, i),
                            {"site": "h3-event", "rule": "content-length-mismatch"})
        if op[0] == "h":
            state = "after-headers" if state == "initial" else "done"
        # a complete message whose FIN was delivered with a wrong body size must have been refused
        if fin and open_frame == 0 and isinstance(declared, int) and declared != body:
            return ("FIN delivered with %d body bytes for declared content-length %d without H3_MESSAGE_ERROR (op %d)" % (body, declared, i),
                    {"site": "h3-fin", "rule": "content-length-mismatch"})
    return None


def _safe_oracle(f):
    def g(case):
        try:
            return f(case)
        except corr_skip:
            return None
    return g


def _safe_impl(f):
    def g(case):
        try:
            return f(case)
        except corr_skip:
            return ["SKIP"]
    return g


CL_CHOICES = [None, b"0", b"3", b"5", b"6", b"1_0", b"+3", b"03"]


def s_message(first_kind, cl, extra=()):
    h = list(BASE[first_kind])
    if cl is not None:
        h.append((b"content-length", cl))
    return hdrs(h + list(extra))


def body_ops(total_frames, rng=None, splits=None):
    """DATA frames as ops: each frame (size, cut points)."""
    ops = []
    for size, cuts in total_frames:
        pts = sorted(set(c for c in cuts if 0 <= c <= size))
        first = pts[0] if pts else size
        ops.append(["d", size, first, 0])
        prev = first
        for c in pts[1:] + ([size] if pts and pts[-1] != size else []):
            ops.append(["c", c - prev, 0])
            prev = c
    return ops


def s_exhaustive(maxbody):
    """content-length spellings x body sizes x frame splits x where the FIN goes, for requests and responses."""
    cases = []
    for client in (False, True):
        kind = 1 if client else 0
        for cl in CL_CHOICES:
            for nbytes in range(maxbody + 1):
                shapes = [[(nbytes, [nbytes])]]                       # one frame, whole
                if nbytes >= 1:
                    shapes.append([(nbytes, [0])])                    # header only, then the payload
                    shapes.append([(nbytes, [0, 1])])                  # header, 1 byte, rest
                if nbytes >= 2:
                    shapes.append([(1, [1]), (nbytes - 1, [nbytes - 1])])   # two frames
                    shapes.append([(nbytes, [1])])
                    shapes.append([(0, [0]), (nbytes, [nbytes - 1])])      # empty DATA frame first
                for shape in shapes:
                    ops = body_ops(shape)
                    for finmode in ("on-last", "lone", "on-headers", "trailers", "trailers-then-fin", "truncated", "none"):
                        o = [list(x) for x in ops]
                        head = ["h", s_message(kind, cl), 0]
                        if finmode == "on-last":
                            o[-1][-1] = 1
                            seq = [head] + o
                        elif finmode == "lone":
                            seq = [head] + o + [["f"]]
                        elif finmode == "on-headers":
                            seq = [["h", s_message(kind, cl), 1]]
                        elif finmode == "trailers":
                            seq = [head] + o + [["h", hdrs([(b"x-t", b"1")]), 1]]
                        elif finmode == "trailers-then-fin":
                            seq = [head] + o + [["h", hdrs([(b"x-t", b"1")]), 0], ["f"]]
                        elif finmode == "truncated":
                            if o[-1][0] == "d" and o[-1][1] > o[-1][2]:
                                seq = [head] + o[:-1] + [[o[-1][0], o[-1][1], o[-1][2], 1]]
                            elif len(o) >= 2 and o[-1][0] == "c" and o[-1][1] > 0:
                                seq = [head] + o[:-1] + [["c", o[-1][1] - 1, 1]]
                            else:
                                continue
                        else:
                            seq = [head] + o
                        cases.append({"client": client, "ops": seq})
    return cases


def s_random(rng, n):
    cases = []
    for _ in range(n):
        client = rng.random() < 0.5
        kind = 1 if client else 0
        total = rng.choice([0, 1, 2, 3, 5, 8, 20, 70, 300])
        r = rng.random()
        if r < 0.55:
            cl = str(total).encode()
        elif r < 0.75:
            cl = None
        else:
            cl = rng.choice([str(max(0, total + rng.choice([-1, 1, 2]))).encode(), b"0", b"-1", b"x", b"1_0", b"+" + str(total).encode(),
                             b"0" + str(total).encode()])
        h = list(BASE[kind])
        if cl is not None:
            h.insert(rng.randint(len(h), len(h)), (b"content-length", cl))
        if rng.random() < 0.1:
            h.append((b"content-length", rng.choice([cl or b"1", b"7"])))
        for _ in range(rng.randint(0, 3)):
            h.append((rng.choice(NAME_POOL[:6] + [b"A", b":status", b"a b"] if rng.random() < 0.1 else NAME_POOL[:2]), rng.choice(VALUE_POOL[:10])))
        ops = []
        if rng.random() < 0.95:
            ops.append(["h", hdrs(h), int(rng.random() < 0.08)])
        left = total
        while left > 0 or rng.random() < 0.15:
            size = rng.randint(0, left) if rng.random() < 0.8 else left
            cuts = sorted(rng.randint(0, size) for _ in range(rng.choice([0, 0, 1, 2, 3])))
            fr = body_ops([(size, cuts or [size])])
            ops += fr
            left -= size
            if rng.random() < 0.05:
                break
        q = rng.random()
        if q < 0.35 and ops:
            ops[-1][-1] = 1
        elif q < 0.6:
            ops.append(["f"])
        elif q < 0.8:
            ops.append(["h", hdrs([(rng.choice([b"x-t", b"x-t", b":status", b"A", b"content-length"]), rng.choice([b"1", b"1", b" 1"]))]),
                        int(rng.random() < 0.7)])
            if ops[-1][2] == 0 and rng.random() < 0.7:
                ops.append(["f"])
        elif q < 0.9 and ops and ops[-1][0] in ("d", "c"):
            # truncate the last DATA op and put the FIN on it
            if ops[-1][0] == "c" and ops[-1][1] > 0:
                ops[-1] = ["c", ops[-1][1] - 1, 1]
            elif ops[-1][0] == "d" and ops[-1][2] > 0:
                ops[-1] = ["d", ops[-1][1], ops[-1][2] - 1, 1]
        if rng.random() < 0.05:
            ops.append(rng.choice([["f"], ["d", 1, 1, 1], ["h", hdrs([(b"x", b"y")]), 1]]))
        if not _s_wellformed_ops(ops):
            continue
        cases.append({"client": client, "ops": ops})
    return cases


def _s_wellformed_ops(ops):
    """The model covers event sequences where HEADERS / DATA frame headers never start inside an open DATA frame."""
    rem = 0
    for op in ops:
        if op[0] in ("h", "d") and rem != 0:
            return False
        if op[0] == "d":
            if op[2] > op[1] or op[1] < 0 or op[2] < 0:
                return False
            rem = op[1] - op[2]
        elif op[0] == "c":
            if rem == 0 or op[1] > rem or op[1] < 0:
                return False
            rem -= op[1]
    return True


def s_rebuild(c, ops):
    d = dict(c)
    d["ops"] = ops if _s_wellformed_ops(ops) else c["ops"]
    return d


# ------------------------------------------------------------------ suite `e2e`: one frame through a real connection
def e_encode(case):
    t = []
    for kind, h in case["ops"]:
        t += [10 + kind, len(h)]
        for k, v in h:
            kb, vb = unhx(k), unhx(v)
            t += [len(kb)] + list(kb) + [len(vb)] + list(vb)
    return t


def _e2e_one(kind, headers):
    """Returns ('ok', event) | ('closed', code) | ('exc', e) | ('skip',)."""
    from aioquic.h3.connection import H3Connection
    from aioquic.h3.events import HeadersReceived, PushPromiseReceived
    from aioquic.buffer import encode_uint_var
    blk = qpack_block(headers)
    if blk is None:
        return ("skip",)
    client = kind in (1, 2)
    quic = StubQuic(client)
    h3 = H3Connection(quic)
    try:
        if kind == 3:
            first = qpack_block(BASE[1 if client else 0])
            evs = feed(h3, 0, frame(0x1, first), False)
            if len(evs) != 1 or quic.closed is not None:
                return ("prelude", quic.closed)      # the valid opening block was not accepted
            evs = feed(h3, 0, frame(0x1, blk), False)
        elif kind == 2:
            evs = feed(h3, 0, frame(0x5, encode_uint_var(0) + blk), False)
        else:
            evs = feed(h3, 0, frame(0x1, blk), False)
    except Exception as e:
        return ("exc", e)
    if quic.closed is not None:
        return ("closed", quic.closed[0], evs)
    want = PushPromiseReceived if kind == 2 else HeadersReceived
    if len(evs) != 1 or not isinstance(evs[0], want):
        return ("odd", evs)
    return ("ok", evs[0])


def e_impl(case):
    out = []
    for kind, h in case["ops"]:
        r = _e2e_one(kind, unhdrs(h))
        if r[0] == "ok":
            out += [0]
        elif r[0] == "closed":
            out += [1, r[1]]
        elif r[0] == "exc":
            out += [2, EXN_KINDS.get(type(r[1]).__name__, 99)]
        elif r[0] == "skip":
            return ["SKIP"]
        else:
            out += [7]
    return out


def e_oracle(case):
    for i, (kind, h) in enumerate(case["ops"]):
        headers = unhdrs(h)
        r = _e2e_one(kind, headers)
        broken = rule_broken(kind, headers)
        if r[0] in ("skip", "prelude"):
            continue
        if r[0] == "exc":
            return ("handle_event raised %s for a %s block %r" % (type(r[1]).__name__, KINDS[kind], headers),
                    {"site": "handle_event", "exception": type(r[1]).__name__})
        if r[0] == "ok":
            got = [tuple(x) for x in r[1].headers]
            b2 = rule_broken(kind, got)
            if declared_content_length(got) == "conflicting":
                return ("%s event produced for a %s block with conflicting content-length declarations: %r" % (type(r[1]).__name__, KINDS[kind], got),
                        {"site": "h3-event", "rule": "content-length-conflicting"})
            if b2 or broken:
                return ("%s event produced for a %s block breaking rule '%s': %r" % (type(r[1]).__name__, KINDS[kind], b2 or broken, got),
                        {"site": "h3-event", "kind": KINDS[kind], "rule": b2 or broken})
        elif r[0] == "closed":
            if r[2]:
                return ("events produced together with a connection close", {"site": "h3-event", "rule": "event-and-close"})
            if broken and r[1] != H3_MESSAGE_ERROR:
                return ("%s block breaking rule '%s' closed the connection with 0x%x instead of H3_MESSAGE_ERROR" % (KINDS[kind], broken, r[1]),
                        {"site": "h3-headers", "kind": KINDS[kind], "rule": broken, "close": r[1]})
        else:
            return ("unexpected events %r" % (r[1],), {"site": "h3-event", "rule": "odd"})
    return None


def e_cases(vcases, keep):
    """Re-use `v` ops of the validate suite as end-to-end cases (those pylsqpack can encode)."""
    ops = []
    for c in vcases:
        for op in c["ops"]:
            if op[0] == "v" and keep(op):
                ops.append([op[1], op[2]])
    return [{"ops": ops[i:i + 16]} for i in range(0, len(ops), 16)]


# ------------------------------------------------------------------ suite `events`: the composed model (H3Events.v)
# exec_h3events = H3Parse's receive path with the REAL Gallina validators plugged in; QPACK answers are recorded
# from the real pylsqpack decoder per handle_event call (h3common), header ids are resolved through a table.
_EVCACHE = {}


def _ev_run(case):
    from props import h3common as hc
    k = json.dumps(case, sort_keys=True)
    r = _EVCACHE.get(k)
    if r is None:
        if len(_EVCACHE) > 5000:
            _EVCACHE.clear()
        r = _EVCACHE[k] = hc.run_impl(case)
    return r


def ev_impl(case):
    return _ev_run(case).out


def ev_encode(case):
    from props import h3common as hc
    fixes, _ = hc.detect()
    r = _ev_run(case)
    t = hc.encode_case(case, r.tables, fixes)
    items = sorted(r.rec.hids.items(), key=lambda kv: kv[1])
    tab = [len(items)]
    for hs, hid in items:
        tab += [hid, len(hs)]
        for k, v in hs:
            tab += [len(k)] + list(k) + [len(v)] + list(v)
    return t[:8] + tab + t[8:]


EV_STATS = {"blocked_calls": 0, "resumed_calls": 0, "closed_message_error": 0, "closed_frame_unexpected": 0,
            "closed_other": 0, "end_events": 0, "end_events_with_declared_length": 0, "headers_events": 0,
            "push_promise_events": 0, "end_after_resume": 0}


def ev_oracle(case):
    """The property sentence over everything a real H3Connection hands to the application for a whole connection
    (any streams, chunking, interleaving with the QPACK encoder stream); no model involved."""
    from aioquic.h3 import events as E
    r = _ev_run(case)
    client = case["client"]
    first_kind = 1 if client else 0
    per = {}
    for evs in r.events:
        for e in evs:
            if isinstance(e, (E.DatagramReceived, E.WebTransportStreamDataReceived)):
                continue
            st = per.setdefault(e.stream_id, {"n": 0, "declared": None, "body": 0, "ended": 0})
            if isinstance(e, E.HeadersReceived):
                hs = [tuple(h) for h in e.headers]
                if st["n"] >= 2:
                    return ("stream %d: a third HeadersReceived" % e.stream_id, {"site": "h3-event", "suite": "events", "rule": "headers-after-trailers"})
                kind = first_kind if st["n"] == 0 else 3
                st["n"] += 1
                b = rule_broken(kind, hs)
                if b:
                    return ("stream %d: HeadersReceived (%s) breaks rule '%s': %r" % (e.stream_id, KINDS[kind], b, hs),
                            {"site": "h3-event", "suite": "events", "rule": b, "kind": KINDS[kind]})
                if kind != 3:
                    d = declared_content_length(hs)
                    if d == "conflicting":
                        return ("stream %d: HeadersReceived with conflicting content-length" % e.stream_id,
                                {"site": "h3-event", "suite": "events", "rule": "content-length-conflicting"})
                    if d == "invalid":
                        return ("stream %d: HeadersReceived with an unparsable content-length" % e.stream_id,
                                {"site": "h3-event", "suite": "events", "rule": "content-length-syntax"})
                    st["declared"] = d
            elif isinstance(e, E.PushPromiseReceived):
                hs = [tuple(h) for h in e.headers]
                b = rule_broken(2, hs)
                if b or not client:
                    return ("stream %d: PushPromiseReceived breaks rule '%s': %r" % (e.stream_id, b, hs),
                            {"site": "h3-event", "suite": "events", "rule": b or "push-promise-at-server", "kind": "push_promise"})
            elif isinstance(e, E.DataReceived):
                if e.data and st["n"] != 1:
                    return ("stream %d: %d body bytes delivered %s" % (e.stream_id, len(e.data),
                                                                      "before the headers" if st["n"] == 0 else "after the trailers"),
                            {"site": "h3-event", "suite": "events", "rule": "data-out-of-order"})
                st["body"] += len(e.data)
            if getattr(e, "stream_ended", False):
                st["ended"] += 1
                if isinstance(st["declared"], int) and st["declared"] != st["body"]:
                    return ("stream %d: stream_ended event with declared content-length %d but %d body bytes delivered"
                            % (e.stream_id, st["declared"], st["body"]), {"site": "h3-event", "suite": "events", "rule": "content-length-mismatch"})
    if r.after_close_events:
        return ("events returned together with / after a connection close", {"site": "h3-event", "suite": "events", "rule": "event-and-close"})
    return None


def ev_tally(case):
    from aioquic.h3 import events as E
    r = _ev_run(case)
    EV_STATS["blocked_calls"] += r.blocked_calls
    EV_STATS["resumed_calls"] += r.resumed_calls
    for c in r.closes:
        EV_STATS["closed_message_error" if int(c) == H3_MESSAGE_ERROR else
                 "closed_frame_unexpected" if int(c) == 0x105 else "closed_other"] += 1
    declared = {}
    for evs in r.events:
        for e in evs:
            if isinstance(e, E.HeadersReceived):
                EV_STATS["headers_events"] += 1
                if e.stream_id not in declared:
                    declared[e.stream_id] = declared_content_length([tuple(h) for h in e.headers])
            elif isinstance(e, E.PushPromiseReceived):
                EV_STATS["push_promise_events"] += 1
            if getattr(e, "stream_ended", False) and not isinstance(e, E.WebTransportStreamDataReceived):
                EV_STATS["end_events"] += 1
                if isinstance(declared.get(e.stream_id), int):
                    EV_STATS["end_events_with_declared_length"] += 1
                if r.resumed_calls:
                    EV_STATS["end_after_resume"] += 1


EV_CL = [None, b"0", b"3", b"5", b"03", b"+3", b"1_0", b"7"]


def _mutate_headers(rng, hs):
    hs = list(hs)
    r = rng.random()
    if r < 0.2 and hs:
        i = rng.randrange(len(hs))
        hs[i] = (hs[i][0], hs[i][1] + rng.choice([b" ", b"\t", b"\r", b"\x00", b"\n"]))
    elif r < 0.4 and hs:
        i = rng.randrange(len(hs))
        hs[i] = (hs[i][0][:1] + rng.choice([b"A", b" ", b"\x7f", b"\x80", b":"]) + hs[i][0][1:], hs[i][1])
    elif r < 0.55 and hs:
        hs.append(hs[rng.randrange(len(hs))])                      # duplicate (pseudo-header after regular / repeated)
    elif r < 0.7 and hs:
        del hs[rng.randrange(len(hs))]
    elif r < 0.85:
        hs.insert(rng.randint(0, len(hs)), rng.choice([(b":status", b"200"), (b":method", b"GET"), (b":path", b"/"),
                                                       (b":bogus", b"1"), (b"content-length", b"4"), (b"content-length", b"-1"),
                                                       (b"transfer-encoding", b"chunked"), (b"te", b"trailers")]))
    else:
        rng.shuffle(hs)
    return hs


def gen_blocked_cl_case(rng):
    """Message streams whose HEADERS (and trailers) blocks refer to dynamic-table entries that arrive later on the
    QPACK encoder stream, with a content-length that matches the body or not, FIN before or after the unblocking, the
    local side ended or not, 1-3 streams: the BLOCKED / RESUME path of the receive code."""
    from props import h3common as hc
    client = rng.random() < 0.5
    wire = hc.Wire(True)
    marker = (b"x-k%d" % rng.randint(0, 9), b"w" * rng.randint(20, 40))
    tmark = (b"x-t%d" % rng.randint(0, 9), b"v" * rng.randint(20, 40))
    nstreams = rng.choice([1, 1, 1, 2, 3])
    plans = []
    for i in range(nstreams):
        base = [(b":status", rng.choice([b"200", b"404"]))] if client else list(hc.REQ)
        cl = rng.choice(EV_CL)
        # without the marker the message headers decode at once and only the trailers have to wait
        hs = base + ([(b"content-length", cl)] if cl is not None else []) + ([marker] if rng.random() < 0.7 else [])
        if rng.random() < 0.15:
            hs.insert(len(base), (b"content-length", rng.choice(EV_CL[1:])))
        if rng.random() < 0.2:
            hs = _mutate_headers(rng, hs)
        plans.append(hs)
    wire.block(400, [marker])                      # first sighting; the second one is inserted and referenced
    wire.block(400, [tmark])
    per, sids = {}, []
    for i, hs in enumerate(plans):
        sid = hc.request_sid(i)
        sids.append(sid)
        try:
            body = hc.frame(1, wire.block(sid, hs))
        except ValueError:
            body = hc.frame(1, wire.block(sid, [(b":status", b"200"), marker] if client else list(hc.REQ) + [marker]))
        if client and rng.random() < 0.35:
            # a PUSH_PROMISE whose block has to wait (resumed with frame_data=None when it is the first waiting frame of
            # the stream: in front of the response, or behind headers that decode at once), well formed or mutated
            ph = list(hc.REQ) + [marker]
            if rng.random() < 0.4:
                ph = _mutate_headers(rng, ph)
            try:
                pp = hc.frame(5, hc.uvar(rng.randint(0, 7)) + wire.block(sid, ph))
                body = pp + body if rng.random() < 0.5 else body + pp
            except ValueError:
                pass
        r = rng.random()
        if r < 0.65:
            n = rng.choice([0, 3, 3, 5, 10])
            data = bytes(rng.randrange(256) for _ in range(n))
            if rng.random() < 0.3 and n > 1:
                k = rng.randint(1, n - 1)
                body += hc.frame(0, data[:k]) + hc.frame(0, data[k:])
            else:
                body += hc.frame(0, data)
        if rng.random() < 0.4:
            tr = [tmark] if rng.random() < 0.8 else _mutate_headers(rng, [tmark, (b"x-a", b"1")])
            try:
                body += hc.frame(1, wire.block(sid, tr))
            except ValueError:
                pass
        if rng.random() < 0.1:
            body += hc.frame(0x21, b"")
        fin = rng.random() < 0.9
        per[sid] = hc.split_random(rng, body, fin, maxchunks=3) if rng.random() < 0.5 else [[body, fin]]
    ctrl, enc = hc.peer_uni(client, 0), hc.peer_uni(client, 1)
    ops = [["s", ctrl, hc.control_prefix().hex(), 0]] if rng.random() < 0.7 else []
    encdata = hc.uvar(2) + wire.enc_stream
    if rng.random() < 0.2:                         # encoder stream first: nothing waits
        ops.append(["s", enc, encdata.hex(), 0])
        encdata = b""
    ops += hc.interleave(rng, per)
    for sid in sids:
        if rng.random() < 0.6:
            ops.insert(rng.randint(0, len(ops)), ["f", sid])
    if encdata:
        for d, _f in hc.split_random(rng, encdata, False, maxchunks=3):
            ops.append(["s", enc, bytes(d).hex(), 0])
    for sid in sids:                               # FINs that come after the unblocking
        if not any(op[0] == "s" and op[1] == sid and op[3] for op in ops) and rng.random() < 0.7:
            ops.append(["s", sid, "", 1])
    return {"client": client, "dgram": True, "ops": ops}


def ev_cases_from_lists(rng, vcases, limit):
    """The header lists of the validate suite (grammar + one mutation, boundary bytes) inside a whole message:
    HEADERS / trailers / PUSH_PROMISE frame from a real encoder, body, FIN, random chunking."""
    from props import h3common as hc
    out = []
    for c in vcases:
        for op in c["ops"]:
            if op[0] != "v" or len(out) >= limit:
                continue
            kind, hs = op[1], unhdrs(op[2])
            if len(hs) > 8 or any(len(k) + len(v) > 80 or not k for k, v in hs):
                continue
            client = kind in (1, 2) or (kind == 3 and rng.random() < 0.5)
            wire = hc.Wire(False)
            try:
                if kind in (0, 1):
                    data = hc.frame(1, wire.block(0, hs))
                elif kind == 3:
                    data = hc.frame(1, wire.block(0, BASE[1 if client else 0])) + hc.frame(0, b"abc") + hc.frame(1, wire.block(0, hs))
                else:
                    data = hc.frame(1, wire.block(0, BASE[1])) + hc.frame(5, hc.uvar(rng.randint(0, 7)) + wire.block(0, hs))
            except ValueError:
                continue
            if kind != 3 and rng.random() < 0.7:
                data += hc.frame(0, bytes(rng.randrange(256) for _ in range(rng.choice([0, 3, 5]))))
            fin = rng.random() < 0.8
            chunks = hc.split_random(rng, data, fin, maxchunks=3) if rng.random() < 0.4 else [[data, fin]]
            ops = [["s", 0, bytes(d).hex(), int(f)] for d, f in chunks]
            if rng.random() < 0.3:
                ops.insert(rng.randint(0, len(ops)), ["f", 0])
            out.append({"client": client, "dgram": True, "ops": ops})
    return out


def events_suite(ctx):
    from props import h3common as hc
    return corr.Suite(ctx, "events", "exec_h3events", ev_encode, ev_impl, ev_oracle,
                      ops=lambda c: c["ops"], rebuild=lambda c, ops: dict(c, ops=ops),
                      nontrivial=lambda c, out: len(c["ops"]) >= 2 and len(out) > 8,
                      opname=lambda o: o[0] + ("+fin" if o[0] == "s" and o[3] else ""),
                      simplify=hc.simplify_op)


def end_marker_witness():
    """Replay of theorem end_marker_without_headers on the real H3Connection: a request stream that consists of a
    FIN only is reported as DataReceived(b"", stream_ended=True) with no HeadersReceived (recorded, not a violation
    of the property sentence: no header block, no body bytes)."""
    from aioquic.h3 import events as E
    r = _ev_run({"client": False, "dgram": True, "ops": [["s", 0, "", 1]]})
    evs = [e for l in r.events for e in l]
    return {"input": "server, stream 0: b'' + FIN",
            "events": [type(e).__name__ + ("(data=%r, stream_ended=%r)" % (e.data, e.stream_ended) if isinstance(e, E.DataReceived) else "")
                       for e in evs],
            "closes": [int(c) for c in r.closes],
            "as_in_model": len(evs) == 1 and isinstance(evs[0], E.DataReceived) and evs[0].data == b"" and evs[0].stream_ended}


# ------------------------------------------------------------------ driver
def _ops(c):
    return c["ops"]


def _rebuild(c, ops):
    d = dict(c)
    d["ops"] = ops
    return d


def _opname_v(o):
    return o[0] if o[0] != "v" else "validate_" + KINDS[o[1]]


def suites(ctx):
    def nontrivial_v(c, out):
        return any(o[0] == "v" and len(o[2]) >= 1 for o in c["ops"]) or any(o[0] != "v" and len(o[1]) >= 2 for o in c["ops"])
    v = corr.Suite(ctx, "validate", "exec_h3validate", v_encode, v_impl, v_oracle, _ops, _rebuild,
                   nontrivial=nontrivial_v, opname=_opname_v)
    s = corr.Suite(ctx, "stream", "exec_h3stream", s_encode, _safe_impl(s_impl), _safe_oracle(s_oracle), _ops, s_rebuild,
                   nontrivial=lambda c, out: len(c["ops"]) >= 2 and out[:1] == [0],
                   opname=lambda o: {"h": "headers", "d": "data-start", "c": "data-cont", "f": "fin"}[o[0]])
    e = corr.Suite(ctx, "e2e", "exec_h3validate", e_encode, e_impl, e_oracle, _ops, _rebuild,
                   nontrivial=lambda c, out: out != ["SKIP"] and len(c["ops"]) >= 1,
                   opname=lambda o: "e2e_" + KINDS[o[0]])
    return v, s, e


def run_chunked(suite, cases, size, prepass=True):
    """corr.Suite.run reports at most three findings per call; smaller calls keep later, different findings visible
    (identical signatures are reported once, see _dedupe_violations)."""
    # cases on which the implementation oracle fails go first, in a call of their own, so that model/implementation
    # disagreements elsewhere in the batch cannot use up the report budget before a real violation is reached
    failing = [c for c in cases if corr._safe(suite.oracle, c)] if (suite.oracle and prepass) else []
    if failing:
        suite.run(failing[:50], "oracle-failing")
    for i in range(0, len(cases), size):
        _VCACHE.clear()
        suite.run(cases[i:i + size])
    _VCACHE.clear()


def _run_filtered(suite, cases, label=""):
    """Cases the real QPACK encoder cannot express are counted, not compared."""
    keep, skipped = [], 0
    for c in cases:
        try:
            if suite.impl(c) == ["SKIP"]:
                skipped += 1
                continue
        except Exception:
            pass
        keep.append(c)
    run_chunked(suite, keep, 250)
    return skipped


def tally_outcomes(suite, cases):
    """Outcome histogram (ok / message-error / other) of the implementation over the `v` ops, for the evidence."""
    h = suite.stats["outcome_histogram"]
    for c in cases:
        out = suite.impl(c)
        i = 0
        for op in c["ops"]:
            if op[0] == "int":
                h["int-ok" if out[i] == 0 else "int-ValueError"] += 1
                i += 2
            elif op[0] in ("name", "value"):
                h[op[0] + ("-ok" if out[i] == 0 else "-rejected")] += 1
                i += 1 if out[i] == 0 else 2
            else:
                if out[i] == 0:
                    h["accepted"] += 1
                    i += 2 if out[i + 1] == 0 else 3
                else:
                    h["rejected-0x%x" % out[i + 1] if out[i] == 1 else "exception"] += 1
                    i += 2


def _dedupe_violations(ctx):
    """Report each (kind, signature) once per run: the exhaustive families hit the same defect many times."""
    orig = ctx.violation
    seen = {}

    def violation(kind, what, case, signature=None, extra=None, no_input=False):
        key = (kind, json.dumps(signature, sort_keys=True, default=str))
        if key not in seen:
            seen[key] = orig(kind, what, case, signature=signature, extra=extra, no_input=no_input)
        return seen[key]
    ctx.violation = violation


def run(ctx):
    _dedupe_violations(ctx)
    v, s, e = suites(ctx)
    v.run(corr.load_corpus("C15", "validate"), "corpus")
    s.run(corr.load_corpus("C15", "stream"), "corpus")
    e.run(corr.load_corpus("C15", "e2e"), "corpus")
    rng = ctx.rng
    scale = ctx.budget_scale
    # validators: exhaustive families
    chars = v_exhaustive_chars(3)
    pseudo = v_exhaustive_pseudo(5, 5) if ctx.thorough else v_exhaustive_pseudo(4, 5)
    cl = v_content_length(ctx.thorough)
    rnd = v_random(rng, ctx.n(4000, 80000))
    for fam in (chars, pseudo, cl, rnd):
        run_chunked(v, fam, 2500, prepass=False)   # validators: a disagreement there is an acceptance difference
    tally_outcomes(v, chars[::7] + pseudo[::7] + cl[::7] + rnd[::7])
    # content-length bookkeeping
    sx = s_exhaustive(6 if ctx.thorough else 4)
    sr = s_random(rng, ctx.n(2500, 40000))
    skipped = _run_filtered(s, sx) + _run_filtered(s, sr)
    # end-to-end through a real connection
    short = lambda op: len(op[2]) <= 6 and all(len(k) + len(v_) <= 80 for k, v_ in op[2])  # noqa: E731
    stride_c, stride_p = (1, 1) if ctx.thorough else (3, 5)
    ee = (e_cases(chars[::stride_c], short) + e_cases(pseudo[::stride_p], short) + e_cases(cl[::4], short)
          + e_cases(rnd[:int((20000 if ctx.thorough else 1500) * scale)], short))
    skipped_e = 0
    keep = []
    for c in ee:
        # drop ops the encoder cannot express (empty names) rather than whole batches
        ops = [o for o in c["ops"] if qpack_block(unhdrs(o[1])) is not None]
        skipped_e += len(c["ops"]) - len(ops)
        if ops:
            keep.append({"ops": ops})
    run_chunked(e, keep, 400)
    vm_checked = vm_crosscheck(ctx, v, rnd) if ctx.thorough else 0
    # whole connections through the composed model (real validators inside H3Parse's receive path), last: h3common
    # wraps the validators of aioquic.h3.connection to record their answers
    from props import h3common as hc
    ev = events_suite(ctx)
    ev.run(corr.load_corpus("C15", "events"), "corpus")
    evc = [gen_blocked_cl_case(rng) for _ in range(ctx.n(1500, 20000))]
    evc += [hc.gen_blocked_closed_case(rng) for _ in range(ctx.n(200, 3000))]
    evc += [hc.gen_connection_case(rng, malformed=0.3 if i % 3 == 0 else 0.0)[0] for i in range(ctx.n(600, 8000))]
    evc += ev_cases_from_lists(rng, rnd + pseudo[::11] + chars[::11], ctx.n(1500, 20000))
    run_chunked(ev, evc, 500)
    for c in evc:
        ev_tally(c)
    _EVCACHE.clear()
    witness = end_marker_witness()
    return corr.merge_coverage(
        [v, s, e, ev],
        "validators: every name/value of length <= 3 over the 13-byte boundary alphabet + all 256 bytes in first/middle/last "
        "position, alone and inside header lists of all four kinds; all sequences of pseudo/regular header atoms up to length "
        "4 (10 atoms) and 5 (6 atoms) [thorough: 5 over 10 atoms] per kind; scheme/authority/path and transfer-encoding "
        "families; content-length spellings whitespace x sign x body x whitespace (+ 640/4300-digit boundaries) as int() and "
        "as header; random mostly-valid lists with one mutation, pool lists and random bytes. stream: content-length spelling "
        "x body size x DATA frame splits x FIN placement (exhaustive small scope) + random histories. e2e: the same header "
        "lists as single HEADERS/trailers/PUSH_PROMISE frames through a real H3Connection with pylsqpack-encoded blocks. "
        "events: whole connections (1-3 message streams, control / QPACK streams, push and WebTransport streams, random "
        "chunking and interleaving, encoder stream before or after the blocks that need it, FIN before / after the unblocking, "
        "local end of stream, content-length spellings x body sizes, mutated header lists, the validate suite's lists as "
        "HEADERS / trailers / PUSH_PROMISE inside a message) through exec_h3events vs a real H3Connection. "
        "distinct = distinct token encoding; non-trivial = validates at least one header / delivers at least one event",
        {"exhaustive_small_scope": True, "extraction_vs_vm_compute_cases": vm_checked, "qpack_unencodable_skipped": {"stream_cases": skipped, "e2e_ops": skipped_e},
         "events_suite": dict(EV_STATS), "end_marker_without_headers_replay": witness})


def vm_crosscheck(ctx, suite, cases, n=300):
    """Thorough tier: the extracted driver against Coq's own vm_compute on a sample (extraction is trusted otherwise)."""
    sample = [c for c in cases if len(suite.encode(c)) <= 400][:n]
    if not sample or not ctx.proof_ok():
        return 0
    toks = [suite.encode(c) for c in sample]
    pre = "From AQ Require Import lib.Base model.H3Validate."
    vm = core.run_vm(pre, ["exec_h3validate [%s]" % "; ".join(str(t) for t in tk) for tk in toks])
    ex = core.run_model("exec_h3validate", toks)
    for c, a, b in zip(sample, vm, ex):
        if a != b:
            ctx.violation("correspondence", "extracted model and vm_compute disagree", corr._short(c),
                          signature={"suite": "validate", "kind": "extraction"}, extra={"vm": a, "extracted": b}, no_input=True)
            break
    return len(sample)


def replay(ctx, rep):
    v, s, e = suites(ctx)
    case = rep["case"]
    res = {}
    for su in (v, s, e, events_suite(ctx)):
        try:
            d, ex, g = su.disagree(case)
            res[su.name] = {"disagree": d, "impl": ex, "model": g, "oracle": su.oracle(case)}
        except Exception as exn:
            res[su.name] = {"not-applicable": repr(exn)}
    return res
