"""C06  Sender never exceeds the peer's flow-control and stream-count limits.

Tie: a real client QuicConnection (the subject) is driven through harness/sim against a peer whose
advertised limits are tiny; after the handshake the real server is isolated and the peer PUPPET plays
the receiver (selective ACKs, MAX_DATA / MAX_STREAM_DATA / MAX_STREAMS with chosen -- also
non-increasing -- values, STOP_SENDING, peer-opened streams).  Two independent judgements per scenario:

* implementation oracle (wire only, no model, no subject internals): every STREAM / RESET_STREAM
  frame the observer decrypts is checked against the limits carried by the transport parameters and
  the MAX_* frames that had been delivered to the subject when the frame left it; plus progress in a
  final fair phase and byte-exact content;
* model correspondence: coq/model/FlowSend.v is fed the same application calls, the same received
  frames and, for every _write_stream_frame call the subject made, its size budget; it must predict
  max_offset, every emitted frame (stream, offset, bytes, fin), RESET_STREAM final sizes and, at every
  quiescent point, `_remote_max_data_used`, the limits and every stream's highest_offset; the credit counter is
  also compared BEFORE every _write_stream_frame call (between any two frames of one transmit).

Scenario steps: send / reset / stop (application), pump (datagrams_to_send), max_data / max_stream_data / max_streams /
stop_sending / peer_open / ack <selector> (puppet, one packet each), bundle [..] (several of them in ONE packet),
advance <ms>, hold 1|0 (while held the subject receives and its timer fires but nothing is transmitted until an
explicit pump: the application can write between a loss declaration and the retransmission).
"""
import collections
import json
import logging

from vlib import core, corr

DEPENDS = ["FlowSend", "StreamSend", "RangeSet", "Base", "Tok", "C06", "sim"]
TRUSTED_BASE = [
    "extraction (ExtrOcamlBasic only; Z kept as the extracted inductive) + coq/extract/driver.ml for running the model",
    "harness/sim (network, wire observer incl. its independent frame parser, peer puppet) and harness/props/c06.py",
    "peer set-up: the real server's advertised limits are set through its private _local_max_* fields before the "
    "handshake (the server is the vehicle for the transport parameters, not the subject)",
    "model inputs are collected with harness-side wrappers around QuicStreamSender.get_frame / get_reset_frame / "
    "on_data_delivery / on_reset_delivery, QuicStreamReceiver.get_stop_frame / on_stop_sending_delivery and QuicLoggerTrace.log_event (taps only; received frames are read from "
    "the subject's qlog frame lists in processing order)",
    "LABELLED PEEKS (correspondence only, never the oracle): QuicConnection._remote_max_data_used, _remote_max_data, "
    "_remote_max_streams_*, _streams_blocked_*, _streams[sid].{is_blocked,max_stream_data_remote,sender.*}",
    "the scenario driver gates Pair.pump while a `hold` window is open (receive_datagram / handle_timer run, "
    "datagrams_to_send is deferred to the next explicit pump step) and sends several puppet frames in one packet (`bundle`)",
    "modelled, not verified: connection.py send-side flow control as Gallina functions; packet building, pacing, "
    "congestion control and the order in which streams are served are inputs of the model (per-call budgets, stream "
    "picked), not part of it",
]
ASSUMPTIONS = [
    "as-is _parse_transport_parameters (op 6, trees without the repair of C06-F1): positive theorems assume transport "
    "parameters never lower a flow-control value the connection already holds (RFC 9000 7.4.1 for accepted 0-RTT); the "
    "complement is refuted with a witness (finding C06-F1).  Repaired function (op 18, fed when the probe finds "
    "tls.early_data_accepted in the function): no assumption on the values when 0-RTT was accepted; when it was not, the "
    "values are varints and no peer-initiated stream exists yet (checked by the driver on every scenario); restoring "
    "from a ticket happens on a fresh connection",
    "STREAMS_BLOCKED correctness is proved for states in which _unblock_streams has run since max_streams last changed "
    "(from handshake completion on); WHEN the frame is sent (_streams_blocked_pending) is an input of the model",
    "frame-level theorems assume each emitted frame receives at most one delivery outcome (C08 callbacks_at_most_once)",
    "stream discarding (_streams.pop of finished streams) and re-creation of a discarded stream id are not modelled",
]

BIG = 1 << 30
SIM_SEED_BASE = 600

KNOWN_HITS = collections.Counter()   # measured: scenarios per known-finding id (decided by known_findings.json)
PROTOCOL_VIOLATION = 0xA


def repaired_f1():
    """PROBE of the tree under check: does _parse_transport_parameters consult tls.early_data_accepted (the repair of
    finding C06-F1)?  If so the model is fed the transcription of the repaired function (op 18, `OParamsP`), otherwise
    the one of the function as it was (op 6, `OParams`).  A tree that holds only part of the repair is still compared
    with the full `OParamsP`, and a tree without it with `OParams`: nothing is accepted by the probe itself."""
    import inspect
    from aioquic.quic.connection import QuicConnection
    try:
        return "early_data_accepted" in inspect.getsource(QuicConnection._parse_transport_parameters)
    except (OSError, TypeError):
        return False


def data_for(sid, off, n):
    return bytes(((sid * 31 + (off + i) * 7 + 3) % 251) for i in range(n))


# ------------------------------------------------------------------------------------------------
# running one scenario on the real connection
class _Rec:
    def __init__(self):
        self.tin = [1]          # is_client, then op tokens
        self.tout = []
        self.names = []
        self.depth = 0          # >0 while a subject API call runs
        self.hc = False
        self.framelists = []    # [list object, consumed]
        self.last_frame_op = None   # index into self.chunks of the last received-frame op
        self.chunks = []        # per op: [tin, tout]
        self.closed = None        # error code of the subject's own CONNECTION_CLOSE
        self.params_op = None     # index into self.chunks of the handshake transport-parameters op
        self.peer_closed = None   # error code of a CONNECTION_CLOSE sent by the real peer (handshake phase)

    def op(self, name, tin, tout):
        self.chunks.append([list(tin), list(tout)])
        self.names.append(name)
        return len(self.chunks) - 1

    def tokens(self):
        tin, tout = [1], []
        for a, b in self.chunks:
            tin += a
            tout += b
        return tin, tout


def _frame_tokens(f):
    if f is None:
        return [0]
    return [1, f.offset, int(f.fin), len(f.data)] + list(f.data)


def _set_peer_limits(conn, lim):
    md, bl, br, un, sb, su = lim
    conn._local_max_data.value = md
    conn._local_max_data.sent = md
    conn._local_max_stream_data_bidi_local = bl
    conn._local_max_stream_data_bidi_remote = br
    conn._local_max_stream_data_uni = un
    conn._local_max_streams_bidi.value = sb
    conn._local_max_streams_bidi.sent = sb
    conn._local_max_streams_uni.value = su
    conn._local_max_streams_uni.sent = su


def run_scenario(case, fair=True):
    """Execute the scenario; returns dict(tin, tout, names, wire=..., closed=...)."""
    import sim
    from aioquic import tls
    from aioquic.quic import logger as qlogger
    from aioquic.quic import stream as qstream
    from aioquic.quic.packet import pull_quic_transport_parameters
    from aioquic.quic.packet_builder import QuicDeliveryState
    from aioquic.buffer import Buffer

    logging.getLogger("quic").setLevel(logging.CRITICAL)
    repaired = repaired_f1()
    seed = SIM_SEED_BASE + int(case.get("seed", 0))
    zero = case.get("zero")
    store = None
    remembered = None
    if zero:
        store = sim.TicketStore()
        p0 = sim.Pair(seed, ticket_store=store, eager_server=True)
        _set_peer_limits(p0.server.conn, zero["first"])
        if not p0.handshake():
            raise RuntimeError("first connection of the 0-RTT scenario did not complete")
        p0.run_until_idle()
        if not store.client_tickets:
            raise RuntimeError("no session ticket")
        remembered = list(zero["first"])

    R = _Rec()
    S = qstream.QuicStreamSender
    T = qlogger.QuicLoggerTrace
    RV = qstream.QuicStreamReceiver
    saved = (S.get_frame, S.get_reset_frame, S.on_data_delivery, S.on_reset_delivery, T.log_event)
    saved_rv = (RV.get_stop_frame, RV.on_stop_sending_delivery)
    subject_trace = {}

    def is_subject_trace(tr):
        k = id(tr)
        if k not in subject_trace:
            subject_trace[k] = (tr.to_dict()["vantage_point"]["type"] == "client", tr)
        return subject_trace[k][0]

    holder = {}

    def sync():
        conn = holder.get("conn")
        if conn is None:
            return
        if not R.hc and getattr(conn, "tls", None) is not None and conn.tls.state == tls.State.CLIENT_POST_HANDSHAKE:
            R.hc = True
            R.op("handshake_done", [7], [0])
        for ent in R.framelists[-4:]:
            lst, done = ent
            while done < len(lst):
                fr = lst[done]
                done += 1
                ft = fr.get("frame_type")
                if ft == "max_data":
                    R.last_frame_op = R.op("max_data", [3, fr["maximum"]], [0])
                elif ft == "max_stream_data":
                    R.last_frame_op = R.op("max_stream_data", [4, fr["stream_id"], fr["maximum"]], [0])
                elif ft == "max_streams":
                    R.last_frame_op = R.op("max_streams", [5, int(fr["stream_type"] == "unidirectional"), fr["maximum"]], [0])
                elif ft == "stop_sending":
                    R.last_frame_op = R.op("stop_sending", [2, fr["stream_id"]], [1, 0])
                elif ft in ("stream", "reset_stream"):
                    R.last_frame_op = R.op("peer_open", [12, fr["stream_id"]], [0])
            ent[1] = done

    def w_get_frame(self, max_size, max_offset=None):
        if R.depth and self._stream_id is not None:
            sync()
            conn = holder.get("conn")
            if conn is not None:
                # PEEK: the credit counter between any two _write_stream_frame calls of one transmit
                R.op("credit", [17], [conn._remote_max_data_used, conn._remote_max_data])
            r = saved[0](self, max_size, max_offset)
            R.op("get", [8, self._stream_id, max_size], [2, -1 if max_offset is None else max_offset] + _frame_tokens(r))
            return r
        return saved[0](self, max_size, max_offset)

    def w_get_reset_frame(self):
        r = saved[1](self)
        if R.depth and self._stream_id is not None:
            sync()
            R.op("get_reset", [9, self._stream_id],
                 [1, 2] + ([0] if r.error_code is None else [1, r.error_code]) + [r.final_size])
        return r

    def w_on_data_delivery(self, delivery, start, stop, fin):
        if R.depth and self._stream_id is not None:
            sync()
            try:
                r = saved[2](self, delivery, start, stop, fin)
            except AssertionError:
                R.op("deliv", [10, self._stream_id, int(delivery == QuicDeliveryState.ACKED), start, stop, int(fin)], [1, 3])
                raise
            R.op("deliv_acked" if delivery == QuicDeliveryState.ACKED else "deliv_lost",
                 [10, self._stream_id, int(delivery == QuicDeliveryState.ACKED), start, stop, int(fin)], [1, 0])
            return r
        return saved[2](self, delivery, start, stop, fin)

    def w_on_reset_delivery(self, delivery):
        if R.depth and self._stream_id is not None:
            sync()
            R.op("reset_deliv", [11, self._stream_id, int(delivery == QuicDeliveryState.ACKED)], [1, 0])
        return saved[3](self, delivery)

    def w_log_event(self, *, category, event, data):
        if R.depth and is_subject_trace(self):
            sync()
            if event == "packet_received":
                R.framelists.append([data["frames"], 0])
            elif event == "packet_sent":
                # the STREAMS_BLOCKED step of _write_application (neither max_streams nor the blocked lists change between
                # the step and this event, which is logged at the end of the same datagrams_to_send call)
                for fr in data["frames"]:
                    if fr.get("frame_type") == "streams_blocked":
                        R.op("streams_blocked", [19, int(fr["stream_type"] == "unidirectional")], [8, 1, fr["limit"]])
            elif event == "parameters_set" and data.get("owner") == "remote":
                if repaired:
                    # PEEK: tls.early_data_accepted (what the repaired function branches on; the same value is
                    # published afterwards in the HandshakeCompleted event)
                    acc = bool(holder["conn"].tls.early_data_accepted)
                    if not acc and any((sid & 1) != 0 for sid in holder["conn"]._streams):   # PEEK
                        # guard of the model's operation (pguard, OParamsP PRejected): every stream existing when the
                        # handshake parameters are processed was opened by the subject (a client)
                        R.op("GUARD-BROKEN-peer-stream-before-handshake-parameters", [], ["guard-broken"])
                    R.params_op = R.op("params_accepted" if acc else "params_not_accepted",
                                       [18, 1 if acc else 2] + _params_tokens(data), [0])
                else:
                    R.params_op = R.op("params", [6] + _params_tokens(data), [0])
        return saved[4](self, category=category, event=event, data=data)

    def w_get_stop_frame(self):
        r = saved_rv[0](self)
        if R.depth and self._stream_id is not None:
            sync()
            R.op("get_stop", [15, self._stream_id], [7])
        return r

    def w_on_stop_sending_delivery(self, delivery):
        if R.depth and self._stream_id is not None:
            sync()
            R.op("stop_deliv", [16, self._stream_id, int(delivery == QuicDeliveryState.ACKED)], [0])
        return saved_rv[1](self, delivery)

    S.get_frame, S.get_reset_frame, S.on_data_delivery, S.on_reset_delivery = (
        w_get_frame, w_get_reset_frame, w_on_data_delivery, w_on_reset_delivery)
    T.log_event = w_log_event
    RV.get_stop_frame, RV.on_stop_sending_delivery = w_get_stop_frame, w_on_stop_sending_delivery
    try:
        kw = {}
        if zero:
            kw["client_config"] = {"session_ticket": store.client_tickets[-1]}
            kw["clock_start"] = max(1000.0, store.resume_after)
            kw["ticket_store"] = sim.TicketStore() if zero.get("reject") else store
        pair = sim.Pair(seed + 1, eager_server=True, **kw)
        _set_peer_limits(pair.server.conn, case["peer"])
        client = pair.client
        conn = client.conn
        holder["conn"] = conn
        orig_call = client.call

        queue_bad = []       # violations of the service order (PEEK-based implementation oracle, see queue_order_check)
        queue_stats = collections.Counter()

        def call(name, *a, **k):
            R.depth += 1
            snap = None
            if name == "datagrams_to_send":
                # PEEK: _streams_queue and the highest offsets before the call
                snap = ([st.stream_id for st in conn._streams_queue],
                        {st.stream_id: st.sender.highest_offset for st in conn._streams_queue})
            try:
                return orig_call(name, *a, **k)
            finally:
                R.depth -= 1
                if snap is not None:
                    after = [st.stream_id for st in conn._streams_queue]                                  # PEEK
                    hi = {st.stream_id: st.sender.highest_offset for st in conn._streams_queue}           # PEEK
                    queue_order_check(snap[0], snap[1], after, hi, queue_bad, queue_stats)
        client.call = call

        # independent timeline for the oracle: every datagram the subject sends, with the number of datagrams
        # that had been delivered (to anyone) at that moment
        sends = []

        def tap(rec):
            if rec.direction == "c2s" and not rec.injected:
                sends.append((rec.index, len(pair.network.delivered)))
        pair.network.taps.append(tap)

        writes = collections.defaultdict(int)   # sid -> bytes written by the application
        fins = set()
        killed = set()                          # streams reset by the application or stopped by the peer
        api_errors = 0
        seen_packets = [0]

        def observe():
            sync()
            sids = list(conn._streams.keys())                                   # PEEK
            out = [conn._remote_max_data_used, conn._remote_max_data,          # PEEK
                   conn._remote_max_streams_bidi, conn._remote_max_streams_uni,
                   len(conn._streams_blocked_bidi), len(conn._streams_blocked_uni)]
            for sid in sids:
                st = conn._streams[sid]
                out += [1, int(st.is_blocked), st.max_stream_data_remote, st.sender.highest_offset,
                        int(st.sender.buffer_is_empty), int(st.sender.reset_pending), int(st.receiver.stop_pending)]
            R.op("observe", [13, len(sids)] + sids, out)

        def check_closed():
            pk = pair.observer.packets
            while seen_packets[0] < len(pk):
                p = pk[seen_packets[0]]
                seen_packets[0] += 1
                if p.decrypted and not p.injected:
                    for f in p.frames:
                        if f.name.startswith("CONNECTION_CLOSE"):
                            if p.direction == "c2s" and R.closed is None:
                                R.closed = f.fields.get("error_code")
                            elif p.direction == "s2c" and R.peer_closed is None:
                                R.peer_closed = f.fields.get("error_code")
            return R.closed

        def app(step):
            nonlocal api_errors
            k = step[0]
            try:
                if k == "send":
                    sid, n, fin = step[1], step[2], bool(step[3])
                    data = data_for(sid, writes[sid], n)
                    tin = [0, sid, int(fin), n] + list(data)
                    client.send_stream_data(sid, data, fin)
                    writes[sid] += n
                    if fin:
                        fins.add(sid)
                    R.op("send", tin, [1, 0])
                elif k == "reset":
                    tin = [1, step[1], step[2]]
                    client.reset_stream(step[1], step[2])
                    killed.add(step[1])
                    R.op("reset", tin, [1, 0])
                elif k == "stop":
                    tin = [14, step[1]]
                    client.stop_stream(step[1], step[2])
                    R.op("stop", tin, [0])
            except sim.ApiRaised as e:
                api_errors += 1
                if isinstance(e.exc, ValueError):
                    R.op(k + "_valueerror", tin, [3])
                elif isinstance(e.exc, AssertionError):
                    R.op(k + "_assert", tin, [1, 3])
                else:
                    raise

        puppet = None
        acked = set()
        base_pn = [-1]
        # "hold": the subject receives datagrams / its timer fires, but datagrams_to_send is NOT called until the
        # next explicit ["pump"] step (sans-IO users, a busy event loop, pacing): this is what lets the application
        # write between a loss declaration and the retransmission.  Pair.step/_deliver_to call self.pump.
        real_pump = pair.pump
        hold = [False]

        def gated_pump(ep, _after_timer=False):
            if hold[0] and ep is client:
                return 0
            return real_pump(ep, _after_timer)
        pair.pump = gated_pump

        def subject_pns():
            return sorted({p.pn for p in pair.observer.packets
                           if p.direction == "c2s" and p.decrypted and not p.injected and p.type in ("0rtt", "1rtt")})

        def ack_frames(sel):
            un = [n for n in subject_pns() if n not in acked]
            fresh = [n for n in un if n > base_pn[0]]     # packets sent since the puppet took over
            pick = {"all": un, "even": un[::2], "odd": un[1::2], "last": un[-1:], "first": un[:1],
                    "but_first": un[1:], "but_last": un[:-1], "last_two": un[-2:],
                    "f_but_first": fresh[1:], "f_but_two": fresh[2:], "f_odd": fresh[1::2], "f_even": fresh[::2],
                    "f_but_second": fresh[:1] + fresh[2:], "f_last": fresh[-1:]}[sel]
            if not pick:
                return []
            acked.update(pick)
            ranges, lo, hi = [], pick[0], pick[0]
            for n in pick[1:]:
                if n == hi + 1:
                    hi = n
                else:
                    ranges.append((lo, hi))
                    lo = hi = n
            ranges.append((lo, hi))
            return [sim.F.ack(ranges[-50:], 0)]

        def do_ack(sel):
            fr = ack_frames(sel)
            if fr:
                puppet.send_frames("1rtt", fr)

        def peer_frames(step):
            k = step[0]
            F = sim.F
            if k == "max_data":
                return [F.max_data(step[1])]
            if k == "max_stream_data":
                return [F.max_stream_data(step[1], step[2])]
            if k == "max_streams":
                return [F.max_streams(step[2], uni=bool(step[1]))]
            if k == "stop_sending":
                killed.add(step[1])
                return [F.stop_sending(step[1], 9)]
            if k == "peer_open":
                return [F.stream(step[1], 0, b"p")]
            if k == "ack":
                return ack_frames(step[1])
            return []

        def peer(step):
            k = step[0]
            if k == "advance":
                pair.advance(step[1] / 1000.0)
            elif k == "hold":
                hold[0] = bool(step[1])
            elif k == "bundle":
                # several peer frames in ONE packet (e.g. the ACK that declares a loss together with the MAX_DATA
                # that opens the window: the retransmission is cut with fresh credit, and an ACK frame of the
                # subject's own shifts every frame boundary)
                fr = []
                for sub in step[1]:
                    fr += peer_frames(sub)
                if fr:
                    puppet.send_frames("1rtt", fr)
            else:
                fr = peer_frames(step)
                if fr:
                    puppet.send_frames("1rtt", fr)
            if check_closed() is not None and R.last_frame_op is not None and k not in ("ack", "advance", "hold"):
                R.chunks[R.last_frame_op][1] = [4, R.closed]

        # ---- before / during the handshake
        for step in case.get("pre", []):
            app(step)
        pair.connect(pump=False)
        if zero and getattr(conn, "tls", None) is not None and conn.tls.session_ticket is not None:
            tkt = store.client_tickets[-1]
            for ext_type, ext_data in tkt.other_extensions:
                if ext_type == tls.ExtensionType.QUIC_TRANSPORT_PARAMETERS and tkt.max_early_data_size == 0xFFFFFFFF:
                    qp = pull_quic_transport_parameters(Buffer(data=ext_data))
                    d = {"initial_" + n: getattr(qp, "initial_" + n) for n in _PNAMES}
                    R.op("params_remembered", ([18, 0] if repaired else [6]) + _params_tokens(d), [0])
                    break
        observe()
        for step in (zero or {}).get("early", []):
            if step[0] == "pump":
                pair.pump(client)
            else:
                app(step)
            observe()
        pair.pump(client)
        pair.run(lambda p: p.client.handshake_completed and p.server.handshake_completed, max_time=30)
        pair.run_until_idle(max_time=20)
        if (check_closed() == PROTOCOL_VIOLATION and R.params_op is not None and not R.hc
                and R.names[R.params_op] == "params_accepted"):
            # the subject refused the handshake parameters (the error is raised after the qlog event the op was read from)
            R.chunks[R.params_op][1] = [4, R.closed]
        observe()
        handshake_ok = client.handshake_completed and check_closed() is None and R.peer_closed is None
        progress = None
        if handshake_ok:
            puppet = sim.Puppet(pair, as_side="server")
            puppet.isolate_real()
            base_pn[0] = max(subject_pns() or [-1])
            for step in case.get("steps", []):
                if R.closed is not None:
                    break
                if step[0] in ("send", "reset", "stop"):
                    app(step)
                elif step[0] == "pump":
                    was_closed = R.closed
                    real_pump(client)
                    if hold[0] and was_closed is None and check_closed() is not None and R.last_frame_op is not None:
                        R.chunks[R.last_frame_op][1] = [4, R.closed]   # the frame handler's error, sent only now
                else:
                    peer(step)
                observe()
            hold[0] = False
            # ---- settle: under the scenario's OWN final limits let everything the subject is allowed to send leave
            # (pacing delays, PTO): credit that was leaked earlier is spent here, before the limits become ample
            if fair and R.closed is None:
                for _ in range(3):
                    real_pump(client)
                    do_ack("all")
                    pair.advance(0.06)
                    if check_closed() is not None:
                        break
                observe()
            # ---- fair phase: ample limits, everything acknowledged, time passes
            if fair and R.closed is None:
                F = sim.F
                puppet.send_frames("1rtt", [F.max_data(BIG)])
                puppet.send_frames("1rtt", [F.max_streams(1000, uni=False)])
                puppet.send_frames("1rtt", [F.max_streams(1000, uni=True)])
                for sid in sorted(writes):
                    if (sid % 2 == 0 or sid % 4 == 1) and sid not in killed:
                        puppet.send_frames("1rtt", [F.max_stream_data(sid, BIG)])
                observe()
                quiet = 0
                for _ in range(40):
                    n0 = len(subject_pns())
                    pair.pump(client)
                    do_ack("all")
                    pair.advance(0.25)
                    quiet = quiet + 1 if len(subject_pns()) == n0 else 0
                    if quiet >= 3 or check_closed() is not None:
                        break
                observe()
                progress = R.closed is None
        tin, tout = R.tokens()
        wire = {
            "peer": list(case["peer"]), "remembered": remembered, "rejected": bool(zero and zero.get("reject")),
            "sends": sends, "delivered": list(pair.network.delivered), "by_datagram": pair.observer.by_datagram,
            "client_addr": client.addr, "writes": dict(writes), "fins": set(fins), "killed": set(killed),
            "progress": progress, "closed": R.closed, "peer_closed": R.peer_closed, "handshake_ok": handshake_ok,
            "undecrypted": sum(1 for p in pair.observer.packets if p.direction == "c2s" and not p.decrypted and p.type != "padding"),
            "queue_bad": queue_bad, "queue_stats": dict(queue_stats),
        }
        return {"tin": tin, "tout": tout, "names": R.names, "wire": wire, "api_errors": api_errors}
    finally:
        S.get_frame, S.get_reset_frame, S.on_data_delivery, S.on_reset_delivery, T.log_event = saved
        RV.get_stop_frame, RV.on_stop_sending_delivery = saved_rv


def queue_order_check(before, hi_before, after, hi_after, bad, stats):
    """Implementation oracle for the service order (statement of queue_rotation_fair, coq/props/C06.v), over labelled
    peeks at _streams_queue around ONE datagrams_to_send call (any number of packets): a stream that stayed in the queue
    and whose highest offset did not rise is never overtaken -- the streams ahead of it afterwards are exactly those
    ahead of it before, minus the ones that were served with new data or discarded."""
    aset = set(after)
    served = {sid for sid in before if sid in aset and hi_after.get(sid, 0) > hi_before.get(sid, 0)}
    stats["transmit_calls"] += 1
    if served:
        stats["transmit_calls_with_rotation"] += 1
    if len(set(after)) != len(after) or not aset <= set(before):
        bad.append("_streams_queue after a transmit is not a duplicate-free subset of the queue before: %r -> %r" % (before, after))
        return
    for s in before:
        if s not in aset or s in served:
            continue
        exp = [x for x in before[:before.index(s)] if x in aset and x not in served]
        got = after[:after.index(s)]
        if got != exp:
            bad.append("stream %d was not served, yet the streams ahead of it changed from %r to %r (served: %r)"
                       % (s, before[:before.index(s)], got, sorted(served)))
            return
        if len(exp) < before.index(s):
            stats["unserved_stream_moved_forward"] += 1


_PNAMES = ["max_data", "max_stream_data_bidi_local", "max_stream_data_bidi_remote", "max_stream_data_uni",
           "max_streams_bidi", "max_streams_uni"]


def _params_tokens(d):
    t = []
    for n in _PNAMES:
        v = d.get("initial_" + n)
        t += [0] if v is None else [1, v]
    return t


# ------------------------------------------------------------------------------------------------
# implementation oracle: the property statement over the decrypted wire only
def wire_oracle(w, stats=None):
    """The property statement over the decrypted wire.  Returns every violation found, in wire order, as
    (what, signature) pairs; [] if the run conforms.  Every STREAM / RESET_STREAM frame is judged when it leaves
    (running ledger of the highest end offset per stream against the limits delivered so far), and once more
    after EVERY datagram the whole ledger is judged: sum over streams <= MAX_DATA in force, each stream <= its
    limit in force.  `stats` (a Counter) receives measured coverage: datagrams / frames judged, frames that
    straddle the previous highest offset, scenarios where such a frame is followed by the connection limit
    being reached exactly."""
    bad = []
    stats = stats if stats is not None else collections.Counter()
    straddled = False
    bound_after_straddle = False
    H = w["peer"]
    Rm = w["remembered"]
    lowered = bool(Rm) and any(h < r for h, r in zip(H, Rm))
    max_data = H[0]
    msd = {}                      # MAX_STREAM_DATA delivered, per stream
    ms = [H[4], H[5]]             # bidi, uni
    highest = collections.defaultdict(int)
    # after a REJECTED 0-RTT the peer has processed none of the 0-RTT packets: they are judged against the
    # remembered limits in a ledger of their own, the 1-RTT packets against the handshake limits from scratch
    highest_early = collections.defaultdict(int) if w.get("rejected") else highest
    opened = set()                # client-initiated streams that carried a STREAM frame
    covered = collections.defaultdict(list)
    deliv_to_client = [(pos, idx) for pos, (t, idx, src, dst) in enumerate(w["delivered"]) if dst == w["client_addr"]]
    di = 0

    def initial_for(sid, table):
        if sid % 2 == 0:
            return table[3] if sid & 2 else table[2]
        return table[1]

    def absorb(idx):
        nonlocal max_data
        for p in w["by_datagram"].get(idx, []):
            if not p.decrypted or p.type != "1rtt":
                continue
            for f in p.frames:
                if f.name == "MAX_DATA":
                    max_data = max(max_data, f.fields["maximum"])
                elif f.name == "MAX_STREAM_DATA":
                    sid = f.fields["stream_id"]
                    msd[sid] = max(msd.get(sid, 0), f.fields["maximum"])
                elif f.name == "MAX_STREAMS_BIDI":
                    ms[0] = max(ms[0], f.fields["maximum"])
                elif f.name == "MAX_STREAMS_UNI":
                    ms[1] = max(ms[1], f.fields["maximum"])

    for idx, ndeliv in w["sends"]:
        while di < len(deliv_to_client) and deliv_to_client[di][0] < ndeliv:
            absorb(deliv_to_client[di][1])
            di += 1
        for p in w["by_datagram"].get(idx, []):
            if not p.decrypted or p.type not in ("0rtt", "1rtt"):
                continue
            early = p.type == "0rtt"
            for f in p.frames:
                if f.name in ("DATA_BLOCKED", "STREAM_DATA_BLOCKED"):
                    stats["data_blocked_frames"] += 1        # aioquic has no code that writes them
                if f.name in ("STREAMS_BLOCKED_BIDI", "STREAMS_BLOCKED_UNI"):
                    # sent only when really blocked at that limit, and it carries the limit in force
                    uni = f.name.endswith("UNI")
                    stats["streams_blocked_frames_judged"] += 1
                    lim_now = (Rm[5] if uni else Rm[4]) if early else ms[1 if uni else 0]
                    sigb = {"frame": f.name, "zero_rtt_packet": early, "after_zero_rtt_lowered": lowered and not early}
                    if f.fields["limit"] != lim_now:
                        bad.append(("%s carries limit %d but the limit in force is %d" % (f.name, f.fields["limit"], lim_now),
                                    dict(sigb, rule="blocked_frame_limit")))
                    tried = [sid for sid in set(w["writes"]) | set(w["killed"])
                             if sid % 2 == 0 and bool(sid & 2) == uni and sid // 4 >= f.fields["limit"]]
                    if not tried:
                        bad.append(("%s (limit %d) although the application never used a stream beyond that limit"
                                    % (f.name, f.fields["limit"]), dict(sigb, rule="blocked_frame_spurious")))
                if f.name not in ("STREAM", "RESET_STREAM", "STOP_SENDING", "MAX_STREAM_DATA", "STREAM_DATA_BLOCKED"):
                    continue
                sid = f.fields["stream_id"]
                sig0 = {"frame": f.name, "zero_rtt_packet": early, "after_zero_rtt_lowered": lowered and not early}
                if sid % 2 == 0:
                    cap = (Rm[5] if sid & 2 else Rm[4]) if early else ms[1 if sid & 2 else 0]
                    if sid // 4 >= cap:
                        sig = dict(sig0, rule="stream_count", never_opened=sid not in opened)
                        bad.append(("%s for stream %d although the peer allows only %d streams of that kind" % (f.name, sid, cap), sig))
                if f.name == "STREAM":
                    opened.add(sid)
                    off, ln = f.fields["offset"], f.fields["length"]
                    end = off + ln
                    stats["stream_frames_judged"] += 1
                    prev = (highest_early if early else highest)[sid]
                    if off < prev < end:
                        stats["frames_straddling_previous_highest"] += 1
                        straddled = True
                    elif end <= prev and ln:
                        stats["frames_entirely_below_highest"] += 1
                    if bytes(f.fields["data"]) != data_for(sid, off, ln):
                        bad.append(("STREAM frame of stream %d [%d,%d) does not carry the written bytes" % (sid, off, end),
                                    dict(sig0, rule="bytes")))
                    if end > w["writes"].get(sid, 0) or (f.fields["fin"] and (sid not in w["fins"] or end != w["writes"].get(sid, 0))):
                        bad.append(("STREAM frame of stream %d beyond the written data / spurious FIN" % sid, dict(sig0, rule="bytes")))
                    covered[sid].append((off, end))
                elif f.name == "RESET_STREAM":
                    end = f.fields["final_size"]
                    if end < (highest_early if early else highest)[sid]:
                        bad.append(("RESET_STREAM final size %d below data already sent (%d) on stream %d" % (end, highest[sid], sid),
                                    dict(sig0, rule="final_size")))
                else:
                    continue
                lim = initial_for(sid, Rm) if early else max(initial_for(sid, H), msd.get(sid, 0))
                if end > lim:
                    bad.append(("%s on stream %d ends at %d, above the stream limit %d in force" % (f.name, sid, end, lim),
                                dict(sig0, rule="stream_data_limit")))
                ledger = highest_early if early else highest
                if end > ledger[sid]:
                    ledger[sid] = end
                total = sum(ledger.values())
                cl = Rm[0] if early else max_data
                if total > cl:
                    bad.append(("sum of highest offsets %d exceeds the connection limit %d in force (stream %d, %s)" % (total, cl, sid, f.name),
                                dict(sig0, rule="connection_data_limit")))
                if straddled and total == cl:
                    bound_after_straddle = True
        # ---- after EVERY datagram: the whole 1-RTT ledger against the limits in force
        pk = [p for p in w["by_datagram"].get(idx, []) if p.decrypted and p.type == "1rtt"]
        if pk:
            stats["datagrams_judged"] += 1
            sigd = {"frame": "(datagram)", "zero_rtt_packet": False, "after_zero_rtt_lowered": lowered}
            total = sum(highest.values())
            if total > max_data:
                bad.append(("after datagram %d the sum of highest offsets is %d, above the connection limit %d in force" % (idx, total, max_data),
                            dict(sigd, rule="connection_data_limit")))
            for sid, h in sorted(highest.items()):
                lim = max(initial_for(sid, H), msd.get(sid, 0))
                if h > lim:
                    bad.append(("after datagram %d stream %d has sent up to %d, above its limit %d in force" % (idx, sid, h, lim),
                                dict(sigd, rule="stream_data_limit")))
    if straddled:
        stats["scenarios_with_straddling_frame"] += 1
    if bound_after_straddle:
        stats["scenarios_straddle_then_connection_limit_reached"] += 1
    for what in w.get("queue_bad", []):
        bad.append((what, {"rule": "queue_order"}))
    for k, v in (w.get("queue_stats") or {}).items():
        stats["queue_" + k] += v
    if w["undecrypted"]:
        bad.append(("observer could not decrypt %d subject packets" % w["undecrypted"], {"rule": "observer"}))
    if w["progress"]:
        for sid, total in sorted(w["writes"].items()):
            if sid in w["killed"] or total == 0:
                continue
            pos = 0
            for a, b in sorted(covered[sid]):
                if a > pos:
                    break
                pos = max(pos, b)
            if pos < total:
                bad.append(("stream %d: only %d of %d written bytes were ever sent although every limit was raised and "
                            "everything acknowledged in the fair phase" % (sid, pos, total), {"rule": "progress"}))
    return bad


# ------------------------------------------------------------------------------------------------
# suite plumbing
_CACHE = {}


def _key(case):
    return json.dumps(case, sort_keys=True)


def _result(case):
    k = _key(case)
    if k not in _CACHE:
        if len(_CACHE) > 64:
            _CACHE.clear()
        try:
            _CACHE[k] = run_scenario(case)
        except Exception as e:   # the driver itself must not hide a failure
            _CACHE[k] = {"tin": [1], "tout": ["SCENARIO-DRIVER-EXCEPTION", repr(e)], "names": [], "wire": None, "error": repr(e)}
    return _CACHE[k]


def fs_encode(case):
    return _result(case)["tin"]


def fs_impl(case):
    return _result(case)["tout"]


ORACLE_STATS = collections.Counter()   # measured over the scenarios of run() (each scenario counted once)


def all_violations(case):
    r = _result(case)
    if r.get("wire") is None:
        return [("scenario driver failed: %s" % r.get("error"), {"rule": "driver"})]
    if "oracle" not in r:
        st = collections.Counter()
        r["oracle"] = wire_oracle(r["wire"], st)
        r["oracle_stats"] = st
    return r["oracle"]


def _known_id(ctx, sig):
    """Which OPEN entry of the shared known_findings.json (if any) this signature falls under.  Only used to decide
    whether shrinking is worth the time and for the measured counts; the verdict is ctx.violation's."""
    for kf in ctx.known:
        if kf.get("property") == ctx.pid and kf.get("status") == "open" and core._sig_match(kf.get("match", {}), sig):
            return kf["id"]
    return None


def _steps(case):
    return case.get("steps", [])


def _rebuild(case, steps):
    d = dict(case)
    d["steps"] = steps
    return d


def _simplify(step):
    if step[0] == "send" and step[2] > 1:
        yield ["send", step[1], step[2] // 2, step[3]]
        yield ["send", step[1], step[2] - 1, step[3]]
    if step[0] in ("max_data",) and step[1] > 1:
        yield [step[0], step[1] // 2]


# ------------------------------------------------------------------------------------------------
# generators
LOCAL_BIDI = [0, 4, 8, 12]
LOCAL_UNI = [2, 6, 10]


def _lim(rng, b):
    return rng.choice([0, 1, b - 1, b, b + 1, 2 * b, b, b]) if b > 1 else rng.choice([0, 1, 2])


def gen_limits(rng):
    b = rng.choice([1, 5, 20, 100, 1200, 3000])
    md = _lim(rng, rng.choice([b, 2 * b, 3 * b]))
    return [max(0, md), max(0, _lim(rng, b)), max(0, _lim(rng, b)), max(0, _lim(rng, b)),
            rng.choice([0, 1, 1, 2, 3, 4]), rng.choice([0, 0, 1, 2, 3])], b


def gen_steps(rng, n, b, lim, peer_ok=True, sids_state=None):
    st = sids_state if sids_state is not None else {"done": set(), "peer": False, "md": lim[0], "ms": [lim[4], lim[5]], "msd": {}}
    st.setdefault("created", set())
    steps = []
    sizes = [0, 1, 1, max(1, b - 1), b, b + 1, 2 * b + 1, 3 * b, rng.choice([1199, 1200, 2500])]
    for _ in range(n):
        r = rng.random()
        if r < 0.30:
            pool = LOCAL_BIDI[: rng.choice([1, 2, 2, 3, 4])] + LOCAL_UNI[: rng.choice([0, 1, 1, 2, 3])] + ([1] if st["peer"] else [])
            if rng.random() < 0.04:
                pool = [3, 5, 1]           # ids the client may not (or not yet) send on: ValueError path
            sid = rng.choice(pool)
            if sid in st["done"]:
                continue
            fin = rng.random() < 0.15
            steps.append(["send", sid, min(rng.choice(sizes), 4000), int(fin)])
            if sid % 2 == 0:
                st["created"].add(sid)
            if fin:
                st["done"].add(sid)
            if rng.random() < 0.7:
                steps.append(["pump"])
        elif r < 0.34:
            live = [x for x in sorted(st["created"]) if x not in st["done"]]
            sid = rng.choice(live) if live and rng.random() < 0.8 else rng.choice(LOCAL_BIDI[:3] + LOCAL_UNI[:2])
            if sid in st["done"]:
                continue
            steps.append(["reset", sid, rng.randint(0, 9)])
            st["done"].add(sid)
            st["created"].add(sid)
            steps.append(["pump"])
        elif r < 0.36:
            steps.append(["stop", rng.choice(LOCAL_BIDI[:3]), 3])
            steps.append(["pump"])
        elif r < 0.42:
            steps.append(["pump"])
        elif not peer_ok:
            continue
        elif r < 0.52:
            cur = st["md"]
            v = max(0, rng.choice([cur - 1, cur, cur + 1, cur + b, cur + 2 * b + 1, cur // 2, cur + 5000]))
            st["md"] = max(cur, v)
            steps.append(["max_data", v])
        elif r < 0.64:
            pool = sorted(st["created"]) + ([1] if st["peer"] else [])
            if not pool and rng.random() < 0.9:
                continue
            if not pool or rng.random() < 0.04:
                pool = LOCAL_BIDI[:3] + LOCAL_UNI[:2]      # possibly a stream the client has not created: STREAM_STATE_ERROR
            sid = rng.choice(pool)
            cur = st["msd"].get(sid, lim[3] if sid & 2 else (lim[2] if sid % 2 == 0 else lim[1]))
            v = max(0, rng.choice([cur - 1, cur, cur + 1, cur + b, cur + 2 * b + 1, cur // 2, cur + 5000]))
            st["msd"][sid] = max(cur, v)
            steps.append(["max_stream_data", sid, v])
        elif r < 0.72:
            uni = int(rng.random() < 0.4)
            cur = st["ms"][uni]
            v = max(0, rng.choice([cur - 1, cur, cur + 1, cur + 1, cur + 2, 8]))
            st["ms"][uni] = max(cur, v)
            steps.append(["max_streams", uni, v])
        elif r < 0.74:
            pool = [x for x in sorted(st["created"]) if x not in st["done"]] + ([1] if st["peer"] else [])
            if not pool and rng.random() < 0.9:
                continue
            if not pool or rng.random() < 0.08:
                pool = LOCAL_BIDI[:2] + [1]
            sid = rng.choice(pool)
            steps.append(["stop_sending", sid])
            st["done"].add(sid)
        elif r < 0.77 and not st["peer"]:
            st["peer"] = True
            steps.append(["peer_open", 1])
        elif r < 0.81:
            # a window in which the subject receives but does not transmit: loss declaration (or a limit raise), then
            # application writes, then the transmit; or the ACK and the raise in one packet
            live = [x for x in sorted(st["created"]) if x not in st["done"]]
            cur = st["md"]
            v = max(0, rng.choice([cur, cur + 1, cur + b, cur + 2 * b + 1]))
            sel = rng.choice(["last", "f_but_first", "f_odd", "f_even", "last_two", "f_but_second", "f_but_two", "all"])
            if rng.random() < 0.4:
                st["md"] = max(cur, v)
                sub = [["ack", sel], ["max_data", v]]
                rng.shuffle(sub)
                steps.append(["bundle", sub])
            else:
                steps.append(["hold", 1])
                steps.append(["ack", sel])
                if rng.random() < 0.3:
                    steps.append(["advance", rng.choice([1, 30, 400])])
                for _k in range(rng.choice([1, 1, 2])):
                    if live:
                        steps.append(["send", rng.choice(live), min(rng.choice(sizes), 4000), 0])
                if rng.random() < 0.4:
                    st["md"] = max(cur, v)
                    steps.append(["max_data", v])
                steps.append(["pump"])
                steps.append(["hold", 0])
        elif r < 0.90:
            steps.append(["ack", rng.choice(["all", "all", "even", "odd", "last", "first", "but_first", "but_last",
                                             "f_but_first", "f_odd", "f_but_second"])])
        else:
            steps.append(["advance", rng.choice([1, 30, 120, 400, 1500])])
    return steps


def gen_straddle_case(rng, i):
    """Family: credit accounting of STREAM frames that straddle the previous highest offset.  A packet with stream
    data is declared lost (time threshold, packet threshold, or after a PTO probe); BEFORE the retransmission is cut
    the application writes more on the same stream and/or the peer raises a limit (hold window, or ACK + MAX_DATA
    in one packet), so the pending range covers lost AND never-sent bytes; a small MAX_DATA is the binding limit
    (sometimes the per-stream limit instead) and other streams compete for the credit; the retransmission is cut
    with budgets that differ from the original ones (ACK frame in the packet, other streams served first)."""
    B = rng.choice([40, 100, 400, 1000, 1150, 1200, 2000])
    n1 = max(1, rng.choice([1, B // 2, B - 1, B, B + 1, 2 * B + 7]))
    n2 = max(1, rng.choice([1, B // 2, B, 2 * B]))
    nb = rng.choice([B, 2 * B, 3 * B, 2500])
    A = rng.choice([0, 0, 4, 2])
    others = [x for x in (0, 4, 8, 2, 6) if x != A]
    Bs = rng.choice(others)
    X = rng.choice([x for x in others if x != Bs])
    total = n1 + n2 + nb
    mode = rng.choice(["time", "time", "packets", "pto"])
    xk = rng.choice([1, 1, 3])
    xbytes = {"time": xk, "packets": 3, "pto": 0}[mode]      # what the later packets need of the connection credit
    md = max(0, rng.choice([n1, n1 + 1, n1 + 3, n1 + n2 - 1, n1 + n2, n1 + n2 + 1, n1 + n2 + nb // 2, total - 1, total + 10])
             + rng.choice([xbytes, xbytes, xbytes, 0]))
    if rng.random() < 0.07:
        md = n1 // 2
    style = rng.random()
    if 0.75 <= style < 0.9 and n2 > 1:
        # no hold window: the second write on A must still be (partly) blocked by MAX_DATA when the loss is declared
        md = n1 + xbytes + rng.choice([0, 1, n2 // 2, n2 - 1])
    big = 10 * total + 5000
    sl = big if rng.random() < 0.7 else max(0, rng.choice([n1, n1 + 1, n1 + n2 - 1, n1 + n2, n1 + n2 // 2]))
    peer = [md, big, sl, sl if rng.random() < 0.5 else big, 4, 3]
    steps = []
    # phase 1: the data that will be lost
    steps += [["send", A, n1, 0]]
    if rng.random() < 0.3:
        steps += [["send", Bs, max(1, nb // 3), 0]]
    steps += [["pump"]]
    # phase 2: a later packet to acknowledge
    if mode == "time":
        steps += [["advance", rng.choice([5, 30, 200])], ["send", X, xk, 0], ["pump"]]
    elif mode == "packets":
        for k in range(3):
            steps += [["send", X, 1, 0], ["pump"], ["advance", 1]]      # (1 ms: the pacer lets the next packet out)
    else:
        steps += [["advance", rng.choice([400, 700, 1500])]]
    # phase 3: loss declaration, then writes / raises BEFORE the next transmit
    sel = rng.choice(["last", "last", "f_but_first", "f_odd", "last_two", "f_but_second", "f_but_two"])
    d = rng.choice([0, 1, n2 - 1, n2, n2 + 1, n2 + nb // 2, total])
    raises = []
    if rng.random() < 0.5:
        raises.append(["max_data", max(0, md + d)])
    if sl != big and rng.random() < 0.7:
        raises.append(["max_stream_data", A, sl + rng.choice([1, n2 - 1, n2, n2 + 1, total])])
    rng.shuffle(raises)
    writes = [["send", A, n2, int(rng.random() < 0.15)]]
    if rng.random() < 0.8:
        writes.append(["send", Bs, nb, 0])
    if rng.random() < 0.3:
        writes.append(["send", A, rng.choice([1, B]), 0] if not writes[0][3] else ["send", X, B, 0])
    rng.shuffle(writes)
    if writes[0][0] == "send" and any(w[1] == A and w[3] for w in writes):
        writes.sort(key=lambda w: (w[1] == A and w[3]))       # nothing may follow a FIN on A
    tag = mode + "/" + ("hold" if style < 0.55 else "hold-bundle" if style < 0.75 else "bundle" if style < 0.9 else "control")
    if style < 0.55:
        mid = [["ack", sel]] + raises[:1] + writes + raises[1:]
        if rng.random() < 0.3:
            mid.insert(1, ["advance", rng.choice([1, 30])])
        steps += [["hold", 1]] + mid + [["pump"], ["hold", 0]]
    elif style < 0.75:
        sub = [["ack", sel]] + raises
        rng.shuffle(sub)
        steps += [["hold", 1], ["bundle", sub]] + writes + [["pump"], ["hold", 0]]
    elif style < 0.9:
        # no hold at all: the ACK that declares the loss and the raise arrive in one packet
        if not raises:
            raises = [["max_data", max(0, md + max(1, d))]]
        sub = [["ack", sel]] + raises
        rng.shuffle(sub)
        writes.sort(key=lambda w: (w[1] != A, w[3]))            # the write on A first
        steps += writes[:1] + [["pump"], ["bundle", sub]] + writes[1:] + [["pump"]]
    else:
        # control: the retransmission leaves first, the write comes afterwards
        steps += [["ack", sel]] + writes + [["pump"]] + raises + [["pump"]]
    # phase 4: a second round (the retransmission itself may be lost, re-cut again), then anything
    st = {"done": {w[1] for w in writes if w[3]}, "peer": False, "md": max([md] + [r[1] for r in raises if r[0] == "max_data"]),
          "ms": [4, 3], "msd": {}, "created": {A, Bs, X}}
    if rng.random() < 0.5:
        steps += [["advance", rng.choice([5, 200, 600])], ["hold", 1], ["ack", rng.choice(["last", "f_odd", "f_even", "f_but_first", "f_but_second"])]]
        if A not in st["done"]:
            steps += [["send", A, rng.choice([1, B, B + 1]), 0]]
        steps += [["bundle", [["max_data", st["md"] + rng.choice([1, B, total])]]]] if rng.random() < 0.5 else []
        st["md"] = st["md"] + total     # upper bound is enough for the generator's book-keeping
        steps += [["pump"], ["hold", 0]]
    steps += gen_steps(rng, rng.randint(0, 8), B, peer, sids_state=st)
    return {"seed": i % 7, "peer": peer, "steps": steps, "family": "straddle:" + tag}


def gen_case(rng, i):
    if i % 3 == 2:
        return gen_straddle_case(rng, i)
    lim, b = gen_limits(rng)
    case = {"seed": i % 7, "peer": lim}
    kind = rng.random()
    if kind < 0.12:
        # application writes before the handshake: streams are created blocked with zero limits
        case["pre"] = [s for s in gen_steps(rng, rng.randint(1, 4), b, lim, peer_ok=False) if s[0] in ("send", "reset")]
    elif kind < 0.30:
        first, b0 = gen_limits(rng)
        mode = rng.random()
        if mode < 0.55:          # a compliant server: nothing lowered
            first = [min(x, y) for x, y in zip(first, lim)]
        reject = rng.random() < 0.4
        st = {"done": set(), "peer": False, "md": first[0], "ms": [first[4], first[5]], "msd": {}}
        early = [s for s in gen_steps(rng, rng.randint(1, 5), b0, first, peer_ok=False, sids_state=st) if s[0] in ("send", "reset", "pump")]
        case["zero"] = {"first": first, "reject": reject, "early": early}
        case["steps"] = gen_steps(rng, rng.randint(2, 14), b, lim, sids_state={"done": st["done"], "peer": False, "md": lim[0],
                                                                              "ms": [lim[4], lim[5]], "msd": {},
                                                                              "created": set(st.get("created", ()))})
        return case
    case["steps"] = gen_steps(rng, rng.randint(3, 28), b, lim)
    return case


def directed_cases():
    """Boundary table: one limit at 0 / 1 / B / B+1, write sizes B-1 / B / B+1, then the limit is raised by a
    non-increasing and by an increasing MAX_* value; retransmission after loss in between."""
    out = []
    B = 40
    for which in ("conn", "stream", "uni"):
        for lim0 in (0, 1, B, B + 1):
            for n in (B - 1, B, B + 1, 2 * B):
                peer = [1000, 1000, 1000, 1000, 2, 2]
                sid = 2 if which == "uni" else 0
                if which == "conn":
                    peer[0] = lim0
                    raise1, raise2 = ["max_data", lim0], ["max_data", lim0 + n]
                elif which == "stream":
                    peer[2] = lim0
                    raise1, raise2 = ["max_stream_data", sid, max(0, lim0 - 1)], ["max_stream_data", sid, lim0 + n]
                else:
                    peer[3] = lim0
                    raise1, raise2 = ["max_stream_data", sid, lim0], ["max_stream_data", sid, lim0 + n]
                out.append({"seed": 1, "peer": peer, "steps": [
                    ["send", sid, n, 0], ["pump"], raise1, ["advance", 400], ["ack", "last"], ["advance", 300],
                    ["send", sid, 3, 1], ["pump"], raise2, ["ack", "all"]]})
    for cap in (0, 1, 2):
        for uni in (0, 1):
            base = 2 if uni else 0
            peer = [1000, 100, 100, 100, 3, 3]
            peer[5 if uni else 4] = cap
            out.append({"seed": 2, "peer": peer, "steps": [
                ["send", base + 4 * cap, 5, 0], ["pump"], ["send", base + 4 * max(0, cap - 1), 7, 0], ["pump"],
                ["max_streams", uni, cap], ["pump"], ["max_streams", uni, cap + 1], ["pump"], ["ack", "all"]]})
    # several streams competing for the connection credit inside one packet / one transmit
    for md in (0, 1, B, B + 1):
        for n in (B - 1, B, B + 1):
            out.append({"seed": 2, "peer": [md, 1000, 1000, 1000, 4, 4], "steps": [
                ["send", 0, n, 0], ["send", 4, n, 0], ["send", 2, n, 1], ["pump"], ["max_data", md + n], ["pump"],
                ["ack", "even"], ["advance", 400], ["max_data", md + 2 * n + 1], ["pump"], ["ack", "all"]]})
    # MAX_STREAMS exactly at / one below / one above the index of the blocked stream
    for uni in (0, 1):
        for k in (1, 2, 3):
            base = 2 if uni else 0
            out.append({"seed": 3, "peer": [1000, 100, 100, 100, 0, 0], "steps": [
                ["send", base + 4 * k, 5, 0], ["pump"], ["max_streams", uni, k - 1], ["pump"], ["max_streams", uni, k], ["pump"],
                ["reset", base + 4 * k, 1], ["stop", 4 * k, 2], ["pump"], ["max_streams", uni, k + 1], ["pump"], ["ack", "all"]]})
    # out-of-order creation of blocked streams (only the head of the blocked list is examined on MAX_STREAMS)
    out.append({"seed": 3, "peer": [1000, 100, 100, 100, 1, 1], "steps": [
        ["send", 8, 5, 0], ["send", 4, 6, 0], ["pump"], ["max_streams", 0, 2], ["pump"], ["max_streams", 0, 3], ["pump"]]})
    # candidate finding classes (see docs/C06.md)
    out.append({"seed": 4, "peer": [1000, 100, 100, 100, 1, 1], "steps": [["send", 4, 5, 0], ["pump"], ["reset", 4, 7], ["pump"]]})
    out.append({"seed": 4, "peer": [1000, 100, 100, 100, 1, 1], "steps": [["send", 4, 5, 0], ["pump"], ["stop", 4, 7], ["pump"]]})
    out.append({"seed": 5, "peer": [1000, 50, 50, 50, 4, 4],
                "zero": {"first": [1000, 100, 100, 100, 4, 4], "reject": True, "early": [["send", 0, 20, 0], ["pump"]]},
                "steps": [["send", 0, 60, 0], ["pump"], ["ack", "all"]]})
    out.append({"seed": 5, "peer": [1000, 100, 100, 100, 1, 1],
                "zero": {"first": [1000, 100, 100, 100, 4, 4], "reject": True, "early": [["send", 4, 20, 0], ["pump"]]},
                "steps": [["send", 4, 10, 0], ["pump"], ["ack", "all"]]})
    out.append({"seed": 6, "peer": [1000, 200, 200, 200, 4, 4],
                "zero": {"first": [500, 100, 100, 100, 2, 2], "reject": False, "early": [["send", 0, 150, 0], ["send", 2, 30, 1], ["pump"]]},
                "steps": [["send", 0, 100, 1], ["pump"], ["ack", "even"], ["advance", 500], ["ack", "all"]]})
    out += straddle_directed_cases()
    return out


def straddle_directed_cases():
    """Loss declared, then a write on the same stream (or a raise) BEFORE the next transmit, with the connection
    limit binding: the retransmission [0, n1) is coalesced with fresh bytes into one frame around highest_offset."""
    out = []
    BIGL = 100000
    for n1, n2, nb, md in ((400, 400, 1500, 2000), (40, 40, 150, 200), (1, 1, 5, 6), (1100, 300, 1500, 2500),
                           (400, 900, 1500, 1400)):
        for decl in ("time", "packets"):
            for comp in (8, 0):       # the competitor for the credit: another stream / the same stream
                pre = [["send", 0, n1, 0], ["pump"]]
                if decl == "time":
                    pre += [["advance", 500], ["send", 4, 1, 0], ["pump"]]
                    sel = "last"
                else:
                    pre += [["send", 4, 1, 0], ["pump"], ["advance", 1], ["send", 4, 1, 0], ["pump"], ["advance", 1],
                            ["send", 4, 1, 0], ["pump"], ["advance", 1]]
                    sel = "f_but_first"
                out.append({"seed": 1, "peer": [md, BIGL, BIGL, BIGL, 4, 4], "steps": pre + [
                    ["hold", 1], ["ack", sel], ["send", 0, n2, 0], ["send", comp, nb, 0], ["pump"], ["hold", 0],
                    ["advance", 5], ["ack", "all"], ["max_data", md + 1], ["advance", 5], ["pump"], ["max_data", 2 * md + nb],
                    ["advance", 5], ["pump"], ["ack", "all"]]})
    # data blocked by MAX_DATA, first packet lost, ACK + MAX_DATA in ONE packet (no hold): the retransmission is cut
    # with fresh credit and runs past the old highest offset; second stream competes
    for md, up in ((400, 300), (400, 1), (1000, 700), (40, 40)):
        for order in (0, 1):
            sub = [["ack", "last"], ["max_data", md + up]]
            out.append({"seed": 2, "peer": [md, BIGL, BIGL, BIGL, 4, 4], "steps": [
                ["send", 0, 2 * md + up, 0], ["pump"], ["advance", 700],
                ["bundle", sub[::-1] if order else sub], ["pump"], ["advance", 5], ["send", 4, md + up, 0], ["pump"], ["advance", 5],
                ["ack", "all"], ["max_data", 2 * md + 2 * up], ["advance", 5], ["pump"],
                ["max_data", 10 * md + 10 * up], ["advance", 5], ["pump"], ["ack", "all"]]})
    # several packets lost and re-cut with another budget (the subject's ACK frame and stream 4 served first shift
    # every boundary); MAX_DATA then MAX_STREAM_DATA and the reverse, held
    for first in (0, 1):
        raises = [["max_data", 4000], ["max_stream_data", 0, 3500]]
        out.append({"seed": 3, "peer": [2600, BIGL, 2500, BIGL, 4, 4], "steps": [
            ["send", 0, 4000, 0], ["pump"], ["advance", 700], ["hold", 1], ["ack", "last"], ["send", 4, 700, 0]] +
            (raises[::-1] if first else raises) + [["pump"], ["hold", 0], ["ack", "odd"], ["advance", 300], ["ack", "last"],
            ["max_data", 9000], ["max_stream_data", 0, 9000], ["pump"], ["ack", "all"]]})
    # the per-stream limit binds instead (control: the connection credit is ample)
    out.append({"seed": 4, "peer": [BIGL, BIGL, 500, BIGL, 4, 4], "steps": [
        ["send", 0, 400, 0], ["pump"], ["advance", 500], ["send", 4, 1, 0], ["pump"], ["hold", 1], ["ack", "last"],
        ["send", 0, 400, 0], ["pump"], ["hold", 0], ["max_stream_data", 0, 800], ["pump"], ["ack", "all"]]})
    return out


# ------------------------------------------------------------------------------------------------
def suite(ctx):
    def nontrivial(case, out):
        r = _result(case)
        return "get" in r["names"] and any(n.startswith("deliv") or n.startswith("max_") for n in r["names"])

    class S(corr.Suite):
        """corr.Suite with its own batch loop: one scenario run serves the model input, the expected output and the
        oracle; EVERY oracle failure goes to ctx.violation with its signature, so that the shared known_findings.json
        alone decides between KNOWN-FINDING and VIOLATION.  An unlisted signature is shrunk and reported (at most
        twice per distinct signature; further scenarios with an already reported signature are only counted)."""
        sig_reported = collections.Counter()
        dis_reported = 0

        def _unknown(self, case):
            return [(w, sg) for w, sg in all_violations(case) if _known_id(ctx, sg) is None]

        def run(self, cases, label=""):
            import time
            t0 = time.time()
            st = self.stats
            results = [_result(c) for c in cases]
            gots = core.run_model(self.model, [r["tin"] for r in results])
            for c, r, got in zip(cases, results, gots):
                exp = r["tout"]
                st["cases"] += 1
                ops = _steps(c)
                st["size_histogram"][corr._bucket(len(r["names"]))] += 1
                for o in ops:
                    st["op_histogram"]["step:" + o[0]] += 1
                for n in r["names"]:
                    st["op_histogram"][n] += 1
                st["steps"] += len(r["names"])
                w = r.get("wire") or {}
                st["outcome_histogram"]["closed_by_subject" if w.get("closed") is not None else
                                        "closed_by_real_peer" if w.get("peer_closed") is not None else
                                        ("fair_phase_reached" if w.get("progress") else "no_fair_phase")] += 1
                key = json.dumps(r["tin"])
                if key not in self._seen:
                    self._seen.add(key)
                    if nontrivial(c, exp):
                        st["distinct_nontrivial"] += 1
                if len(st["samples"]) < 3:
                    st["samples"].append({"suite": self.name, "case": corr._short(c), "output_tokens": exp[:40]})
                # ---- implementation oracle
                seen = set()
                failed = False
                viol = all_violations(c)
                ORACLE_STATS.update(r.get("oracle_stats") or {})
                for what, sig in viol:
                    k = json.dumps(sig, sort_keys=True)
                    if k in seen:
                        continue
                    seen.add(k)
                    kid = _known_id(ctx, sig)
                    if kid is not None:
                        KNOWN_HITS[kid] += 1
                        ctx.violation("impl-violation", "%s: %s" % (self.name, what), corr._short(c, 4000), signature=sig)
                        continue
                    failed = True
                    if self.sig_reported[k] >= 2:
                        st["outcome_histogram"]["violation_with_already_reported_signature"] += 1
                        continue
                    self.sig_reported[k] += 1
                    small = self.shrink(c, lambda x, k=k: any(json.dumps(sg, sort_keys=True) == k for _, sg in all_violations(x)),
                                        max_steps=120)
                    w2 = next((ww for ww, sg in all_violations(small) if json.dumps(sg, sort_keys=True) == k), what)
                    if not ctx.violation("impl-violation", "%s: %s" % (self.name, w2), corr._short(small, 4000), signature=sig):
                        corr._save_corpus(ctx, self.name, small)
                if failed:
                    st["oracle_failures"] += 1
                # ---- model correspondence
                if exp != got:
                    st["disagreements"] += 1
                    if S.dis_reported < 3:
                        S.dis_reported += 1
                        small = self.shrink(c, lambda x: self.disagree(x)[0], max_steps=120)
                        _, e2, g2 = self.disagree(small)
                        corr._save_corpus(ctx, self.name, small)
                        bad2 = self._unknown(small)
                        if bad2:
                            ctx.violation("impl-violation", "%s: %s" % (self.name, bad2[0][0]), corr._short(small, 4000),
                                          signature=bad2[0][1], extra={"impl_output": e2[:400], "model_output": g2[:400]})
                        else:
                            ctx.violation("correspondence",
                                          "%s: model and implementation disagree (property oracle passes on this case)" % self.name,
                                          corr._short(small, 4000), signature={"suite": self.name, "kind": "correspondence"},
                                          extra={"impl_output": e2[:400], "model_output": g2[:400], "correspondence": self.name},
                                          no_input=True)
            _CACHE.clear()
            st["wall_s"] += time.time() - t0
            return st

    S.sig_reported = collections.Counter()
    S.dis_reported = 0
    return S(ctx, "flowsend", "exec_flowsend", fs_encode, fs_impl, lambda c: (all_violations(c) or [None])[0], _steps, _rebuild,
             nontrivial=nontrivial, opname=lambda o: "step:" + o[0], simplify=_simplify)


def run(ctx):
    KNOWN_HITS.clear()
    ORACLE_STATS.clear()
    s = suite(ctx)
    s.run(corr.load_corpus("C06", s.name), "corpus")
    s.run(directed_cases(), "directed")
    rng = ctx.rng
    n = ctx.n(600, 9000)
    batch = 50
    cases = [gen_case(rng, i) for i in range(n)]
    for i in range(0, n, batch):
        s.run(cases[i:i + batch])
    return corr.merge_coverage(
        [s],
        "scenario = peer limits (0/1/B-1/B/B+1/2B per parameter) + application writes/resets/stop_stream around them + "
        "puppet schedule of MAX_DATA/MAX_STREAM_DATA/MAX_STREAMS (also non-increasing), STOP_SENDING, selective ACKs, time "
        "(loss, PTO, retransmission), pre-handshake writes, 0-RTT with remembered then different (higher, lower, "
        "rejected) handshake limits, several streams competing for one packet; hold windows (loss declared by packet/time "
        "threshold or after PTO probes, then writes on the same stream / limit raises BEFORE the next transmit) and ACK + "
        "MAX_DATA / MAX_STREAM_DATA in one packet (both orders) with a small binding MAX_DATA, so that retransmissions are "
        "re-cut with fresh data into frames straddling the previous highest offset; settle phase under the final limits, "
        "final fair phase; distinct = distinct "
        "model op sequence, non-trivial = at least one STREAM frame call and one delivery outcome or MAX_* frame",
        {"known_finding_scenarios": dict(KNOWN_HITS), "wire_oracle_measured": dict(ORACLE_STATS),
         "c06_f1_repair_in_tree": repaired_f1(),
         "exhaustive_small_scope": False})


def replay(ctx, rep):
    case = rep["case"]
    if isinstance(case, str):
        case = json.loads(case)
    s = suite(ctx)
    d, e, g = s.disagree(case)
    r = _result(case)
    return {"disagree": d, "impl": e, "model": g, "ops": r["names"],
            "oracle": all_violations(case),
            "known_finding_ids": [_known_id(ctx, sg) for _, sg in all_violations(case)]}
