"""C02, long-sighted part: "altered packets are discarded WITHOUT ANY VISIBLE EFFECT".

Two oracles that do not stop at the instant after the rejected packet:

 digest  `crypto_digest(conn)`: the complete state of every CryptoPair / CryptoContext of a connection --
         every attribute found in the instance dictionaries, recursively (so a field added later, e.g. a cache
         of derived keys, is included without this file knowing its name); Python values by value, the opaque
         C objects (AEAD, HeaderProtection) by identity AND by behaviour (`deep=True`: ciphertext of a fixed
         probe, mask of a fixed sample).  A packet that is rejected must leave the digest identical.

 twin    paired runs on harness/sim (deterministic os.urandom / key generation / time): the same seed, the
         same application script; in run A one inauthentic packet (a genuine 1-RTT packet of the peer with one
         bit / byte altered, a genuine packet of a key generation the receiver can no longer open, a forgery
         with a chosen key-phase bit) is handed to the receiver at a chosen point, in run B it is not (B makes
         the same datagrams_to_send/get_timer calls at that instant, so the ONLY difference is the
         receive_datagram of the inauthentic packet).  The continuation -- local key updates, peer key updates
         (several generations, both orders), connection-id changes, pings, data both ways -- must then be
         indistinguishable: every datagram on the wire bit for bit and at the same virtual time, the events of
         both applications, the qlog accept/drop record of every later packet, the final crypto digests.

Nothing here reads the Coq model; it is the implementation-side oracle of C02's second sentence."""
import collections
import enum
import functools
import random

CLIENT_ADDR_DIR = {"client": "s2c", "server": "c2s"}   # direction of packets a receiver gets


# ------------------------------------------------------------------------------------ state digest
class Opaque:
    """Leaf for an object that cannot be looked into (C extension types, callables): compared by identity; the
    digest keeps the object alive, so an address cannot be reused while a digest that mentions it exists."""
    __slots__ = ("obj", "probe")

    def __init__(self, obj, probe=None):
        self.obj, self.probe = obj, probe

    def __eq__(self, other):
        return isinstance(other, Opaque) and self.obj is other.obj and self.probe == other.probe

    def __ne__(self, other):
        return not self.__eq__(other)

    def __repr__(self):
        return "<%s%s>" % (type(self.obj).__name__, "" if self.probe is None else " probe=" + self.probe.hex()[:16])


_PROBE_HDR = bytes([0x43]) + bytes(range(8)) + b"\x00\x00\x00\x07"
_PROBE_PAYLOAD = bytes(range(32))


def _probe(obj):
    """Behavioural fingerprint of the C objects of _crypto.c (they expose neither key nor iv)."""
    name = type(obj).__name__
    try:
        if name == "AEAD":
            return obj.encrypt(_PROBE_PAYLOAD, _PROBE_HDR, 7)
        if name == "HeaderProtection":
            return obj.apply(_PROBE_HDR, _PROBE_PAYLOAD)
    except Exception as e:   # a torn-down / unusable object is a state too
        return ("raises:" + type(e).__name__).encode()
    return None


SKIP_LOG = frozenset(["_quic_logger", "quic_logger", "_logger", "secrets_log_file"])   # the logs are not connection state


def digest(obj, deep=False, _depth=0, _seen=None, ident=True, skip=frozenset()):
    """Canonical, comparable picture of `obj`: values by value, containers element-wise, instances with a
    __dict__ attribute by attribute (all of them), everything else as an Opaque leaf (ident=True: compared by
    identity -- before/after on one object graph; ident=False: by type and behaviour only -- across two runs)."""
    if _seen is None:
        _seen = {}
    if isinstance(obj, functools.partial):
        return ("partial", getattr(obj.func, "__qualname__", repr(type(obj.func))), digest(list(obj.args), deep, _depth + 1, _seen, ident, skip))
    if obj is None or isinstance(obj, (bool, int, float, str, bytes)):
        return obj
    if isinstance(obj, enum.Enum):
        return (type(obj).__name__, obj.name)
    if isinstance(obj, bytearray):
        return bytes(obj)
    if isinstance(obj, (list, tuple, collections.deque)):
        return [digest(x, deep, _depth + 1, _seen, ident, skip) for x in obj]
    if isinstance(obj, (set, frozenset)):
        return sorted((digest(x, deep, _depth + 1, _seen, ident, skip) for x in obj), key=repr)
    if isinstance(obj, dict):
        return [(digest(k, deep, _depth + 1, _seen, ident, skip), digest(v, deep, _depth + 1, _seen, ident, skip)) for k, v in obj.items()]
    if id(obj) in _seen:
        return ("cycle", _seen[id(obj)])
    if hasattr(obj, "__dict__") and not callable(obj) and _depth < 12:
        _seen[id(obj)] = len(_seen)
        return (type(obj).__name__, [(k, digest(v, deep, _depth + 1, _seen, ident, skip)) for k, v in sorted(vars(obj).items()) if k not in skip])
    if not ident:
        return ("opaque", type(obj).__name__, getattr(obj, "__qualname__", None), _probe(obj) if deep else None)
    return Opaque(obj, _probe(obj) if deep else None)


def conn_digest(conn, deep=False, also_skip=()):
    """Everything a QuicConnection holds (recursively, every attribute) except its logs."""
    return digest(conn, deep, skip=SKIP_LOG | frozenset(also_skip))


def crypto_digest(conn, deep=False, ident=True):
    """All protection state of a connection: the CryptoPairs of every epoch and of every Initial version."""
    out = []
    for attr in ("_cryptos", "_cryptos_initial"):
        d = getattr(conn, attr, None) or {}
        for k, pair in d.items():
            out.append((attr, getattr(k, "name", k), digest(pair, deep, ident=ident)))
    return out


def crypto_fast(conn):
    """Cheap per-packet form of crypto_digest: the instance dictionaries of every CryptoPair and of its two
    contexts, values compared by ==, objects without __eq__ (AEAD, HeaderProtection, nested contexts, callbacks) by
    identity.  Holds references, so identities stay valid.  Any new / replaced / removed attribute shows."""
    out = []
    for attr in ("_cryptos", "_cryptos_initial"):
        for k, pair in (getattr(conn, attr, None) or {}).items():
            out.append((k, pair, tuple(vars(pair).items()), tuple(vars(pair.recv).items()), tuple(vars(pair.send).items())))
    return out


def digest_diff(a, b, path=""):
    """Human-readable list of the places where two digests differ (first few)."""
    if a == b:
        return []
    if isinstance(a, list) and isinstance(b, list) and len(a) == len(b):
        out = []
        for i, (x, y) in enumerate(zip(a, b)):
            out += digest_diff(x, y, "%s[%d]" % (path, i))
        return out[:6]
    if isinstance(a, tuple) and isinstance(b, tuple) and len(a) == len(b) and a and isinstance(a[0], str):
        if len(a) == 2 and a[0] == b[0] and isinstance(a[1], list):     # (TypeName, [(attr, value)...])
            da, db = dict((k, v) for k, v in a[1] if isinstance(k, str)), dict((k, v) for k, v in b[1] if isinstance(k, str))
            if len(da) == len(a[1]) and len(db) == len(b[1]):
                out = []
                for k in sorted(set(da) | set(db)):
                    if k not in da:
                        out.append("%s.%s: attribute appeared (%r)" % (path or a[0], k, _short(db[k])))
                    elif k not in db:
                        out.append("%s.%s: attribute vanished" % (path or a[0], k))
                    else:
                        out += digest_diff(da[k], db[k], "%s.%s" % (path or a[0], k))
                return out[:6]
        out = []
        for i, (x, y) in enumerate(zip(a, b)):
            out += digest_diff(x, y, "%s/%s" % (path, a[0]) if i else path)
        return out[:6] or ["%s: %s -> %s" % (path, _short(a), _short(b))]
    return ["%s: %s -> %s" % (path, _short(a), _short(b))]


def _short(v):
    if isinstance(v, bytes):
        return v.hex()[:24] + ("…" if len(v) > 12 else "")
    if isinstance(v, tuple) and len(v) == 2 and isinstance(v[0], str) and isinstance(v[1], list):
        return "<%s object>" % v[0]
    s = repr(v)
    return s if len(s) < 80 else s[:77] + "..."


# ------------------------------------------------------------------------------------ twin runs
V1, V2 = 0x00000001, 0x6B3343CF

# continuation / prefix vocabulary; R = the receiver of the inauthentic packet, P = its peer
OPS = ("R.data", "P.data", "R.ku", "P.ku", "R.cid", "P.cid", "R.ping", "P.ping")


def gen_plan(rng, receiver, systematic=None):
    """-> dict(prefix=[ops], cont=[ops]).  The continuation always contains local and peer key updates in both
    orders and several generations, connection-id changes and data; its order is drawn from rng.  `systematic`
    (an index) selects one of the fixed skeletons instead, so that every order is certain to be run."""
    skeletons = [
        ["R.ku", "P.data", "P.ku", "R.data", "P.ku", "R.ku", "P.data"],
        ["P.ku", "R.data", "R.ku", "P.data", "R.ku", "P.ku", "R.data"],
        ["R.ku", "R.ku", "P.ku", "P.ku", "P.data", "R.data"],
        ["P.ku", "P.ku", "R.ku", "R.ku", "R.data", "P.data"],
    ]
    if systematic is not None:
        core_ = list(skeletons[systematic % len(skeletons)])
        prefix = [[], ["P.ku"], ["R.ku"], ["P.ku", "R.ku"], ["R.ku", "P.ku", "P.data"]][(systematic // len(skeletons)) % 5]
    else:
        core_ = list(rng.choice(skeletons))
        extra = [rng.choice(OPS) for _ in range(rng.randint(1, 4))]
        for e in extra:
            core_.insert(rng.randrange(len(core_) + 1), e)
        prefix = [rng.choice(["P.ku", "R.ku", "P.data", "R.data", "P.cid", "R.cid"]) for _ in range(rng.randrange(4))]
    cont = ["P.data"] + core_ + [rng.choice(["R.cid", "P.cid"]), "P.data", "R.data", "P.ku", "P.data", "R.ku", "R.data", "P.data"]
    return {"receiver": receiver, "prefix": prefix, "cont": cont}


class TwinRun:
    """One deterministic run: handshake, prefix, [inject], continuation."""

    def __init__(self, seed, version, suite, plan, aq_suite):
        from sim import Pair
        cs = [aq_suite(suite)]
        self.pair = Pair("c02twin-%s" % (seed,), client_config={"cipher_suites": cs}, server_config={"cipher_suites": cs},
                         versions=[V1 if version == 1 else V2], observe=False)
        self.plan = plan
        self.seed = seed
        self.R = self.pair.endpoint(plan["receiver"])
        self.P = self.pair.peer_of(self.R)
        self.sid = {}
        self.n_payload = 0
        self.problems = []

    # -- script
    def op(self, name):
        who, what = name.split(".")
        ep = self.R if who == "R" else self.P
        p = self.pair
        if what == "data":
            self.n_payload += 1
            if ep.name not in self.sid:
                self.sid[ep.name] = ep.get_next_available_stream_id()
            ep.send_stream_data(self.sid[ep.name], (b"%s-%d|" % (ep.name.encode(), self.n_payload)) * 9)
        elif what == "ku":
            ep.request_key_update()
            ep.send_ping(1000 + self.n_payload)       # the update takes effect with the next packet sent
        elif what == "cid":
            ep.change_connection_id()
        elif what == "ping":
            ep.send_ping(2000 + self.n_payload)
        p.pump(ep)
        p.run_until_idle(max_time=20.0, quiet=1.0)

    def start(self):
        p = self.pair
        if not p.handshake():
            raise RuntimeError("handshake did not complete")
        p.run_until_idle(max_time=20.0, quiet=1.0)
        for o in self.plan["prefix"]:
            self.op(o)

    def genuine_for_receiver(self):
        """Genuine short-header datagrams the peer has sent to the receiver so far (oldest first)."""
        d = CLIENT_ADDR_DIR[self.R.name]
        return [r.data for r in self.pair.network.wire_log if r.direction == d and not r.injected and r.data and not (r.data[0] & 0x80)]

    def mark(self):
        self.n_wire = len(self.pair.network.wire_log)
        self.n_ev = {e.name: len(e.events) for e in self.pair.endpoints}
        self.n_qlog = {e.name: len(_qev(e)) for e in self.pair.endpoints}

    def inject(self, data):
        """Run A: the inauthentic datagram arrives (from the peer's address) now.  -> immediate findings."""
        R, p = self.R, self.pair
        p.pump(R)                                   # what run B does at this instant (pacer clock etc.)
        before = crypto_digest(R.conn, deep=True)
        whole = conn_digest(R.conn)
        n_ev, n_sent, nq = len(R.events), len(R.sent), len(_qev(R))
        R.receive_datagram(data, self.P.addr)
        p.pump(R)
        q = list(_qev(R))[nq:]
        self.inj_qlog = [(e["name"], e["data"].get("trigger")) for e in q]
        accepted = any(e["name"] == "transport:packet_received" for e in q)
        after = crypto_digest(R.conn, deep=True)
        out = []
        if accepted:
            out.append(("accepted", "the inauthentic packet was accepted (qlog packet_received)"))
        if len(R.events) != n_ev:
            out.append(("event", "events after the inauthentic packet: %s" % [type(e).__name__ for _, e in R.events[n_ev:]]))
        if len(R.sent) != n_sent:
            out.append(("output", "%d datagram(s) sent in reaction to the inauthentic packet" % (len(R.sent) - n_sent)))
        if before != after:
            out.append(("crypto-state", "protection state changed by a rejected packet: " + "; ".join(digest_diff(before, after))))
        elif not accepted:
            whole1 = conn_digest(R.conn)
            if whole != whole1:
                out.append(("connection-state", "connection state changed by a rejected packet: " + "; ".join(digest_diff(whole, whole1))))
        while len(_qev(R)) > nq:
            _qev(R).pop()                  # the record of the injected packet itself is not part of the comparison
        return out

    def null(self):
        """Run B: the same instant without the packet."""
        self.pair.pump(self.R)
        self.inj_qlog = []

    def finish(self):
        for o in self.plan["cont"]:
            self.op(o)

    def continuation(self):
        p = self.pair
        wire = [(round(r.time, 9), r.direction, r.data) for r in p.network.wire_log[self.n_wire:] if not r.injected]
        ev = {e.name: [(round(t, 9), _event_repr(x)) for t, x in e.events[self.n_ev[e.name]:]] for e in p.endpoints}
        ql = {e.name: [_qlog_key(x) for x in list(_qev(e))[self.n_qlog[e.name]:]
                       if x["name"] in ("transport:packet_received", "transport:packet_dropped", "security:key_updated",
                                        "transport:packet_sent")] for e in p.endpoints}
        dg = {e.name: crypto_digest(e.conn, deep=True, ident=False) for e in p.endpoints}
        return {"wire": wire, "events": ev, "qlog": ql, "digest": dg}


def _qev(ep):
    return ep.conn._quic_logger._events


def _event_repr(e):
    d = dict(vars(e)) if hasattr(e, "__dict__") else {}
    return (type(e).__name__, sorted((k, v if isinstance(v, (int, bytes, str, bool, type(None))) else repr(v)) for k, v in d.items()))


def _qlog_key(x):
    d = x["data"]
    return (round(x["time"], 6), x["name"], d.get("trigger"), (d.get("header") or {}).get("packet_number"),
            (d.get("raw") or {}).get("length") if isinstance(d.get("raw"), dict) else None, d.get("key_type"), d.get("generation"))


def make_injection(rng, genuine, kind, cid_len=8):
    """-> (bytes, description).  `genuine`: genuine short-header datagrams of the peer, oldest first."""
    last = genuine[-1]
    if kind.startswith("bit0:"):           # one bit of the first byte of the latest genuine packet
        m = 1 << int(kind[5:])
        return bytes([last[0] ^ m]) + last[1:], "latest genuine 1-RTT packet, byte 0 xor 0x%02x" % m
    if kind == "byte":
        pos, m = rng.randrange(len(last)), rng.randrange(1, 256)
        b = bytearray(last)
        b[pos] ^= m
        return bytes(b), "latest genuine 1-RTT packet, byte %d xor 0x%02x" % (pos, m)
    if kind == "phase+byte":               # other key phase bit AND a damaged body
        pos, m = rng.randrange(1 + cid_len, len(last)), rng.randrange(1, 256)
        b = bytearray(last)
        b[0] ^= 0x04
        b[pos] ^= m
        return bytes(b), "latest genuine 1-RTT packet, key phase bit flipped and byte %d xor 0x%02x" % (pos, m)
    if kind.startswith("old:"):            # k-th oldest genuine packet, unaltered or with the phase bit flipped
        g = genuine[min(int(kind[4:]), len(genuine) - 1)]
        return g, "replay of an earlier genuine 1-RTT packet (#%s of this direction)" % kind[4:]
    if kind.startswith("forged:"):
        ph = int(kind[7:])
        n = rng.randrange(30, 90)
        first = 0x40 | (ph << 2) | rng.randrange(4)
        return bytes([first]) + last[1:1 + cid_len] + bytes(rng.randrange(256) for _ in range(n)), \
            "forged short-header packet (random bytes, first byte 0x%02x) to the receiver's connection id" % first
    raise ValueError(kind)


KINDS = ["bit0:2", "bit0:0", "bit0:1", "bit0:3", "bit0:4", "bit0:5", "bit0:6", "bit0:7", "byte", "phase+byte", "forged:0", "forged:1"]


def compare(a, b):
    """-> None or (rule, text): first difference between the continuations of run A and run B."""
    if a["wire"] != b["wire"]:
        n = next((i for i, (x, y) in enumerate(zip(a["wire"], b["wire"])) if x != y), min(len(a["wire"]), len(b["wire"])))
        xa = a["wire"][n] if n < len(a["wire"]) else None
        xb = b["wire"][n] if n < len(b["wire"]) else None
        f = lambda x: None if x is None else "t=%.6f %s %d bytes %s.." % (x[0], x[1], len(x[2]), x[2][:12].hex())
        return ("wire", "datagram #%d after the injection point differs: with the packet %s, without %s (%d vs %d datagrams in all)"
                % (n, f(xa), f(xb), len(a["wire"]), len(b["wire"])))
    for side in ("client", "server"):
        if a["qlog"][side] != b["qlog"][side]:
            xa, xb = a["qlog"][side], b["qlog"][side]
            n = next((i for i, (x, y) in enumerate(zip(xa, xb)) if x != y), min(len(xa), len(xb)))
            return ("acceptance", "%s: packet record #%d after the injection point differs: with the packet %s, without %s"
                    % (side, n, xa[n] if n < len(xa) else None, xb[n] if n < len(xb) else None))
        if a["events"][side] != b["events"][side]:
            xa, xb = a["events"][side], b["events"][side]
            n = next((i for i, (x, y) in enumerate(zip(xa, xb)) if x != y), min(len(xa), len(xb)))
            return ("events", "%s application: event #%d after the injection point differs: with the packet %s, without %s"
                    % (side, n, xa[n] if n < len(xa) else None, xb[n] if n < len(xb) else None))
        if a["digest"][side] != b["digest"][side]:
            return ("final-crypto-state", "%s: final protection state differs: %s" % (side, "; ".join(digest_diff(b["digest"][side], a["digest"][side]))))
    return None


def run_group(case, aq_suite):
    """case: dict(seed, version, suite, plan, kinds=[...], irng).  One control run B shared by one run A per kind.
    -> [(kind, problems [(rule, text)], info dict)]."""
    tb = TwinRun(case["seed"], case["version"], case["suite"], case["plan"], aq_suite)
    tb.start()
    genuine = tb.genuine_for_receiver()
    if not genuine:
        return [(k, [], {"skipped": "no genuine 1-RTT packet yet"}) for k in case["kinds"]]
    cid_len = tb.R.configuration.connection_id_length
    tb.mark()
    tb.null()
    tb.finish()
    B = tb.continuation()
    recv = case["plan"]["receiver"]
    base = {"packets_after": len(B["wire"]),
            "key_updates": sum(1 for x in B["qlog"][recv] if x[1] == "security:key_updated"),
            "control_drops": sum(1 for side in ("client", "server") for x in B["qlog"][side] if x[1] == "transport:packet_dropped")}
    out = []
    for kind in case["kinds"]:
        inj, desc = make_injection(random.Random("%s-%s" % (case["irng"], kind)), genuine, kind, cid_len=cid_len)
        info = dict(base, injected=inj.hex(), description=desc)
        problems = []
        ta = TwinRun(case["seed"], case["version"], case["suite"], case["plan"], aq_suite)
        ta.start()
        ta.mark()
        imm = ta.inject(inj)
        info["drop"] = [t for n, t in ta.inj_qlog if n == "transport:packet_dropped"]
        if any(r == "accepted" for r, _ in imm) and kind.startswith("old:"):
            info["replay_accepted"] = True      # a replayed packet the receiver can still open is genuine, not altered
            out.append((kind, [], info))
            continue
        problems += [(rule, "%s: %s" % (desc, text)) for rule, text in imm]
        ta.finish()
        d = compare(ta.continuation(), B)
        if d:
            problems.append((d[0], "%s was dropped (%s), yet the continuation %s differs from the run without it: %s"
                             % (desc, info["drop"], case["plan"]["cont"], d[1])))
        out.append((kind, problems, info))
    return out
