"""C03 helper -- QUIC-level implementation oracle (real QuicConnection pairs through harness/sim).

Suites
  quic-tamper   every TLS handshake message (ClientHello, ServerHello, EncryptedExtensions, CertificateRequest,
                Certificate, CertificateVerify, Finished; both directions) has one byte XORed with a mask INSIDE
                correctly re-protected packets (sim.HalfPair key-holding rewriter; retransmissions of the same
                CRYPTO range are altered identically).  The endpoint that RECEIVED the altered message must never
                emit HandshakeCompleted.
  quic-tp       a man in the middle who only needs the (public) Initial keys acts on what the TLS transcript does
                not cover: (dcid) the Destination Connection ID of the client's first Initial is changed (and the
                Initial packets of both directions are re-keyed accordingly) -- the client must not complete;
                (version) long-header packets are translated between QUIC v1 and v2 (Initial re-keyed with the
                other salt; Handshake packets re-keyed from the key log) -- an endpoint may only complete with a
                version its peer supports and, when both complete, the versions must be equal.
  quic-matrix   configuration product (certificate key type, cipher-suite lists, version lists / original version,
                ALPN lists, resumption / 0-RTT, retry, client-certificate request, loss / reordering): whenever both
                complete they agree on secrets, version, suite, ALPN, resumption, early data; no common option =>
                neither completes; ALPN = first of the server's list the client offers.
  quic-badcert  untrusted / self-signed / expired / not-yet-valid / wrong-name / wrong-key certificates.

cfg keys (all optional, JSON-able): seed; cert "ed25519"|"rsa"|"ec256" (deterministic P-256 identity wired through
sim.det.Identity) or a bad kind "untrusted"|"selfsigned"|"expired"|"notyetvalid"|"wrongname"|"wrongkey"|"wrongkeytype";
verify; c_suites/s_suites; c_versions/s_versions; c_original_version (must be in c_versions: connect() raises KeyError
otherwise); c_alpn/s_alpn (absent = ["sim"], null = no ALPN); retry; reqcert; c_cert "wrongkey" (with reqcert: the
client signs with a key that is not the certificate's); psk 0|1 (+ prime_s_suites: the server's suite list in the
priming connection); early; fates {seed,p_drop,p_dup,p_reorder,max_delay,fair_after}; max_time (virtual seconds);
mitm {"kind": "dcid"|"rscid"|"iscid"} or {"kind": "version", "c2s": {from: to}, "s2c": {from: to}} (suite quic-tp).

q_tamper_cases() probes each configuration once (a real handshake) to learn the message layout, so it needs the
overlay to be active, like q_run / q_replay / q_handshake.

Private peeks (labelled): conn._version ("*_version_peek"), conn.tls.key_schedule.cipher_suite ("suite_c/suite_s").
Public counterparts: version field of the last long-header packet each endpoint handed to the network
("*_version"), cipher suite in the ServerHello on the wire ("suite_wire").

Nothing from aioquic or sim is imported at module top (the overlay of the tree under test is activated after this
module is imported).  All randomness comes from the rng handed in; nothing is written to disk.
"""
import json
import random
import time

V1 = 0x00000001
V2 = 0x6B3343CF
VX = 0x1A2A3A4A            # a version nobody supports (forces Version Negotiation)
S128, S256, SCHA = 0x1301, 0x1302, 0x1303
DEFAULT_SUITES = [S256, S128, SCHA]   # only used to decide "is there a common suite"; order never relied upon

MSG_NAMES = {1: "ClientHello", 2: "ServerHello", 4: "NewSessionTicket", 8: "EncryptedExtensions",
             11: "Certificate", 13: "CertificateRequest", 15: "CertificateVerify", 20: "Finished"}
MASKS = (0x01, 0x80, 0xFF)
BAD_KINDS = ("untrusted", "selfsigned", "expired", "notyetvalid", "wrongname", "wrongkey", "wrongkeytype")
MAIN_LABELS = ("CLIENT_HANDSHAKE_TRAFFIC_SECRET", "SERVER_HANDSHAKE_TRAFFIC_SECRET",
               "CLIENT_TRAFFIC_SECRET_0", "SERVER_TRAFFIC_SECRET_0")
EARLY_LABEL = "CLIENT_EARLY_TRAFFIC_SECRET"
EPOCH_ORDER = ("initial", "handshake", "1rtt")

MAX_TIME = 20.0            # virtual seconds, perfect network
MAX_TIME_TAMPER_QUICK = 4.0      # an endpoint that cannot decrypt / waits for missing bytes never recovers; a perfect
MAX_TIME_TAMPER_THOROUGH = 8.0   # network completes an honest handshake within 0.1 s (case key cfg["max_time"])
MAX_TIME_LOSSY = 45.0      # virtual seconds, adversarial-then-fair network (idle timeout is 60 s)
SPIN_QUANTUM = 0.02       # sim: virtual seconds between re-firings of a timer aioquic re-arms in the past
MAX_REPORT = 3             # violations reported per suite (all are counted)


# ======================================================================================================
# identities
# ======================================================================================================
_ID_CACHE = {}


class _DetECKey(object):
    """P-256 private key whose ECDSA signatures are deterministic (RFC 6979), so that a run with an ECDSA
    identity is byte-for-byte reproducible.  Registered as a virtual subclass of EllipticCurvePrivateKey so
    that aioquic's isinstance() based choice of the signature algorithm sees an EC key."""

    def __init__(self, key):
        self._key = key

    @property
    def curve(self):
        return self._key.curve

    @property
    def key_size(self):
        return self._key.key_size

    def public_key(self):
        return self._key.public_key()

    def sign(self, data, signature_algorithm):
        from cryptography.hazmat.primitives.asymmetric import ec
        try:
            algo = ec.ECDSA(signature_algorithm.algorithm, deterministic_signing=True)
        except Exception:           # very old cryptography / OpenSSL: fall back to randomised signing
            algo = signature_algorithm
        return self._key.sign(data, algo)

    def exchange(self, algorithm, peer_public_key):
        return self._key.exchange(algorithm, peer_public_key)

    def private_numbers(self):
        return self._key.private_numbers()

    def private_bytes(self, encoding, format, encryption_algorithm):
        return self._key.private_bytes(encoding, format, encryption_algorithm)


def _det_ec(raw):
    """wrap a P-256 key so that it signs deterministically (falls back to the raw key if unsupported)."""
    from cryptography.hazmat.primitives import hashes
    from cryptography.hazmat.primitives.asymmetric import ec
    if not issubclass(_DetECKey, ec.EllipticCurvePrivateKey):
        ec.EllipticCurvePrivateKey.register(_DetECKey)
    try:
        raw.sign(b"probe", ec.ECDSA(hashes.SHA256(), deterministic_signing=True))
    except Exception:
        return raw
    return _DetECKey(raw)


def _mk_cert(subject_cn, key, issuer_cn=None, issuer_key=None, serial=0x7001, before=(2020, 1, 1), after=(2120, 1, 1),
             san=None, ca=True):
    import datetime
    from cryptography import x509
    from cryptography.hazmat.primitives import hashes
    from cryptography.hazmat.primitives.asymmetric import ed25519
    name = x509.Name([x509.NameAttribute(x509.NameOID.COMMON_NAME, subject_cn)])
    iname = x509.Name([x509.NameAttribute(x509.NameOID.COMMON_NAME, issuer_cn or subject_cn)])
    signer = issuer_key if issuer_key is not None else key
    algo = None if isinstance(signer, ed25519.Ed25519PrivateKey) else hashes.SHA256()
    b = (x509.CertificateBuilder().subject_name(name).issuer_name(iname).public_key(key.public_key())
         .serial_number(serial)
         .not_valid_before(datetime.datetime(*before, tzinfo=datetime.timezone.utc))
         .not_valid_after(datetime.datetime(*after, tzinfo=datetime.timezone.utc))
         .add_extension(x509.SubjectAlternativeName([x509.DNSName(san or subject_cn)]), critical=False)
         .add_extension(x509.BasicConstraints(ca=ca, path_length=None), critical=True))
    if algo is not None:
        try:        # deterministic (RFC 6979) signature: the certificate bytes are the same in every process
            return b.sign(signer, algo, ecdsa_deterministic=True)
        except (TypeError, ValueError):
            pass
    return b.sign(signer, algo)


def _ed_key(tag):
    from cryptography.hazmat.primitives.asymmetric import ed25519
    return ed25519.Ed25519PrivateKey.from_private_bytes((b"c03-" + tag).ljust(32, b"\x33")[:32])


def _identity(kind):
    """-> (cert argument for sim.Pair, extra client_config overrides)."""
    import sim
    from sim.det import Identity, ed25519_identity
    key = (kind, id(Identity))
    if key in _ID_CACHE:
        return _ID_CACHE[key]
    from cryptography.hazmat.primitives import serialization
    from cryptography.hazmat.primitives.asymmetric import ec
    pem = lambda c: c.public_bytes(serialization.Encoding.PEM)
    extra = {}
    if kind in (None, "ed25519"):
        ident = "ed25519"
    elif kind == "rsa":
        ident = "rsa"
    elif kind == "ec256":
        raw = ec.derive_private_key(int.from_bytes(b"c03-ec256-identity".ljust(31, b"\x11"), "big"), ec.SECP256R1())
        k = _det_ec(raw)
        cert = _mk_cert("localhost", raw, serial=0x7E01)
        ident = Identity(kind="ec256", certificate=cert, private_key=k, cadata=pem(cert), server_name="localhost")
    else:
        good = ed25519_identity()
        if kind == "selfsigned":            # self-signed for the right name, but not in the client's trust store
            k = _ed_key(b"selfsigned")
            cert = _mk_cert("localhost", k, serial=0x7101)
            ident = Identity(kind=kind, certificate=cert, private_key=k, cadata=good.cadata, server_name="localhost")
        elif kind == "untrusted":           # leaf issued by a CA (sent in the chain) the client does not trust
            cak, k = _ed_key(b"untrusted-ca"), _ed_key(b"untrusted-leaf")
            ca = _mk_cert("C03 untrusted CA", cak, serial=0x7201)
            cert = _mk_cert("localhost", k, issuer_cn="C03 untrusted CA", issuer_key=cak, serial=0x7202, ca=False)
            ident = Identity(kind=kind, certificate=cert, private_key=k, chain=[ca], cadata=good.cadata,
                             server_name="localhost")
        elif kind == "expired":             # trusted by the client, right name, validity ended in 2021
            k = _ed_key(b"expired")
            cert = _mk_cert("localhost", k, serial=0x7301, before=(2020, 1, 1), after=(2021, 1, 1))
            ident = Identity(kind=kind, certificate=cert, private_key=k, cadata=pem(cert), server_name="localhost")
        elif kind == "notyetvalid":         # trusted, right name, validity starts in 2100
            k = _ed_key(b"notyet")
            cert = _mk_cert("localhost", k, serial=0x7401, before=(2100, 1, 1), after=(2120, 1, 1))
            ident = Identity(kind=kind, certificate=cert, private_key=k, cadata=pem(cert), server_name="localhost")
        elif kind == "wrongname":           # trusted, valid, but for another host; the client asks for "localhost"
            k = _ed_key(b"wrongname")
            cert = _mk_cert("example.org", k, serial=0x7501)
            ident = Identity(kind=kind, certificate=cert, private_key=k, cadata=pem(cert), server_name="example.org")
            extra = {"server_name": "localhost"}
        elif kind == "wrongkey":            # the good certificate, signed for with somebody else's Ed25519 key
            ident = Identity(kind=kind, certificate=good.certificate, private_key=_ed_key(b"wrongkey"),
                             cadata=good.cadata, server_name="localhost")
        elif kind == "wrongkeytype":        # the good (Ed25519) certificate, an unrelated P-256 private key
            raw = ec.derive_private_key(int.from_bytes(b"c03-wrongkeytype".ljust(31, b"\x12"), "big"), ec.SECP256R1())
            ident = Identity(kind=kind, certificate=good.certificate, private_key=_det_ec(raw),
                             cadata=good.cadata, server_name="localhost")
        else:
            raise ValueError("unknown cert kind %r" % (kind,))
    _ID_CACHE[key] = (ident, extra)
    return ident, extra


# ======================================================================================================
# small independent parsers
# ======================================================================================================
def _parse_msgs(data):
    """TLS handshake messages in a CRYPTO stream prefix -> [(type, start, total_len or None if header incomplete)]."""
    out, pos, n = [], 0, len(data)
    while pos < n:
        if pos + 4 > n:
            out.append((data[pos], pos, None))
            break
        total = 4 + int.from_bytes(data[pos + 1:pos + 4], "big")
        out.append((data[pos], pos, total))
        pos += total
    return out


class _Stream(object):
    """Reassembly of one CRYPTO stream as seen on the wire; a conflicting overlap means the sender restarted its
    TLS context (Retry / Version Negotiation) and the stream starts again."""

    def __init__(self):
        self.data = bytearray()
        self.have = bytearray()
        self.frames = []       # (packet counter, offset, length)
        self.restarts = 0

    def add(self, counter, off, chunk):
        end = off + len(chunk)
        if end > len(self.data):
            self.data.extend(bytes(end - len(self.data)))
            self.have.extend(bytes(end - len(self.have)))
        for i, b in enumerate(chunk):
            if self.have[off + i] and self.data[off + i] != b:
                self.data = bytearray(end)
                self.have = bytearray(end)
                self.frames = []
                self.restarts += 1
                break
        self.data[off:end] = chunk
        self.have[off:end] = b"\x01" * len(chunk)
        self.frames.append((counter, off, len(chunk)))

    def prefix(self):
        n = self.have.find(b"\x00")
        return bytes(self.data if n < 0 else self.data[:n])


def _varint(buf, pos):
    first = buf[pos]
    size = 1 << (first >> 6)
    return int.from_bytes(buf[pos:pos + size], "big") & ((1 << (8 * size - 2)) - 1), pos + size


_LONG_V1 = {0: "initial", 1: "0rtt", 2: "handshake", 3: "retry"}
_LONG_V2 = {1: "initial", 2: "0rtt", 3: "handshake", 0: "retry"}


def _split_datagram(data):
    """Independent long-header splitter -> list of dicts (kind, version, start, end, pn_off, dcid, scid, token,
    dcid_off).  Short-header packets / trailing padding / anything unparsable end the list with kind 'rest'."""
    out, pos, n = [], 0, len(data)
    while pos < n:
        first = data[pos]
        try:
            if not first & 0x80:
                raise ValueError
            version = int.from_bytes(data[pos + 1:pos + 5], "big")
            p = pos + 5
            dl = data[p]
            dcid_off = p + 1
            dcid = data[p + 1:p + 1 + dl]
            p += 1 + dl
            sl = data[p]
            scid = data[p + 1:p + 1 + sl]
            p += 1 + sl
            if version == 0:
                out.append({"kind": "version_negotiation", "version": 0, "start": pos, "end": n})
                return out
            kind = (_LONG_V2 if version == V2 else _LONG_V1)[(first >> 4) & 3]
            token = b""
            if kind == "retry":
                out.append({"kind": "retry", "version": version, "start": pos, "end": n, "dcid": dcid, "scid": scid})
                return out
            if kind == "initial":
                tl, p = _varint(data, p)
                token = data[p:p + tl]
                p += tl
            length, p = _varint(data, p)
            end = p + length
            if end > n or dl > 20 or sl > 20:
                raise ValueError
            out.append({"kind": kind, "version": version, "start": pos, "end": end, "pn_off": p, "dcid": dcid,
                        "scid": scid, "token": token, "dcid_off": dcid_off - pos})
            pos = end
        except (ValueError, IndexError, KeyError):
            out.append({"kind": "rest", "version": None, "start": pos, "end": n})
            return out
    return out


def _sent_version(endpoint):
    """Public observation: the version field of the last long-header packet this endpoint handed to the network."""
    last = None
    for _t, data, _a in endpoint.sent:
        for pk in _split_datagram(data):
            if pk["kind"] in ("initial", "handshake", "0rtt"):
                last = pk["version"]
    return last


def _parse_keylog(text):
    rows = set()
    for line in text.splitlines():
        parts = line.split()
        if len(parts) == 3:
            rows.add((parts[0], parts[1], parts[2]))
    return sorted([list(r) for r in rows])


def _server_hello_suite(sh):
    """cipher suite carried by a ServerHello message (4-byte header included), or None."""
    try:
        p = 4 + 2 + 32
        p += 1 + sh[p]
        return int.from_bytes(sh[p:p + 2], "big")
    except IndexError:
        return None


# ======================================================================================================
# tamper rewriter (HalfPair callback)
# ======================================================================================================
class _Tamper(object):
    def __init__(self, msg, pos, mask):
        self.msg, self.pos, self.mask = int(msg), int(pos), int(mask) & 0xFF
        self.streams = {}          # epoch -> _Stream (original bytes of the hidden sender)
        self.counter = 0
        self.target = None         # (epoch, absolute offset)
        self.target_gen = None     # restart generation of the target's stream
        self.altered = 0           # packets in which the byte was altered
        self.leaked = False        # the target byte went out unaltered before the target was known
        self.out_of_range = False

    def _locate(self):
        for epoch in EPOCH_ORDER:
            st = self.streams.get(epoch)
            if st is None:
                continue
            for typ, start, total in _parse_msgs(st.prefix()):
                if typ == self.msg:
                    if self.pos < 4 or (total is not None and self.pos < total):
                        return (epoch, start + self.pos), st.restarts
                    if total is not None:
                        self.out_of_range = True
                    return None, None
        return None, None

    def __call__(self, pkt):
        if pkt.type not in EPOCH_ORDER:
            return None
        cframes = [f for f in pkt.frames if f.name == "CRYPTO"]
        if not cframes:
            return None
        self.counter += 1
        st = self.streams.setdefault(pkt.type, _Stream())
        gen0 = st.restarts
        for f in cframes:
            st.add(self.counter, f.fields["offset"], f.fields["data"])
        if self.target is None or (self.target[0] == pkt.type and st.restarts != gen0):
            self.target, self.target_gen = self._locate()
            if self.target is not None and self.target[0] == pkt.type:
                for cnt, off, ln in st.frames:
                    if cnt < self.counter and off <= self.target[1] < off + ln:
                        self.leaked = True
        if self.target is None or self.target[0] != pkt.type:
            return None
        t = self.target[1]
        out, changed = [], False
        for f in pkt.frames:
            if f.name == "CRYPTO":
                off, data = f.fields["offset"], f.fields["data"]
                if off <= t < off + len(data):
                    d = bytearray(data)
                    d[t - off] ^= self.mask
                    out.append(f.raw[:len(f.raw) - len(data)] + bytes(d))
                    changed = True
                    continue
            out.append(f.raw)
        if not changed:
            return None
        self.altered += 1
        return out

    def received_msgs(self):
        out = []
        for epoch in EPOCH_ORDER:
            st = self.streams.get(epoch)
            if st is not None:
                out.extend([typ, total - 4] for typ, _s, total in _parse_msgs(st.prefix()) if total is not None)
        return out


# ======================================================================================================
# Initial-key man in the middle (DCID change, version translation)
# ======================================================================================================
class _Mitm(object):
    """Two-direction rewriter installed in Network.interceptors.

    kind "dcid":    the DCID of the client's first Initial(s) becomes D' = D ^ 01..; the client keeps deriving its
                    Initial keys from D, the server from D', so Initial packets are re-keyed in both directions.
                    With Retry only the first Initial and the Retry integrity tag need rewriting.
    kind "rscid":   only the Retry packet is touched: its Source Connection ID is changed and the (keyless)
                    integrity tag recomputed; the server's retry_source_connection_id will not match.
    kind "iscid":   the Source Connection ID of the server's Initial packets is changed (Initial keys are public), so
                    the initial_source_connection_id the server authenticates differs from what the client saw.
    kind "version": long-header packets get their version field / type bits translated (c2s and s2c maps),
                    Initial packets are re-keyed with the other version's salt, Handshake packets with the other
                    version's HKDF labels (secrets from the endpoints' key logs: a key-holding translator; a real
                    attacker could only do the Initial part).
    """

    def __init__(self, pair, spec):
        self.pair = pair
        self.kind = spec["kind"]
        self.maps = {"client": {int(k): int(v) for k, v in (spec.get("c2s") or {}).items()},
                     "server": {int(k): int(v) for k, v in (spec.get("s2c") or {}).items()}}
        self.cid_client = None      # what the client derives its Initial keys from
        self.cid_server = None      # what the server derives them from
        self.swap_dcid = self.kind == "dcid"
        self.expected = {}          # (side, epoch) -> next expected packet number
        self.stats = {"c2s_rewritten": 0, "s2c_rewritten": 0, "undecryptable": 0, "retry_retagged": 0}
        self._initial = {}
        self._hs = {}
        pair.network.interceptors["client"] = lambda data: self._intercept("client", data)
        pair.network.interceptors["server"] = lambda data: self._intercept("server", data)

    # -- keys --------------------------------------------------------------------------------------
    def _initial_ctx(self, cid, version, side):
        from aioquic.quic.crypto import CryptoPair
        key = (bytes(cid), version)
        cp = self._initial.get(key)
        if cp is None:
            cp = CryptoPair()
            cp.setup_initial(cid=bytes(cid), is_client=True, version=version)
            self._initial[key] = cp
        return cp.send if side == "client" else cp.recv

    def _hs_ctxs(self, side, version):
        """candidate Handshake contexts for packets SENT by `side`, protected for `version`."""
        from aioquic.quic.crypto import CryptoContext
        from aioquic.tls import CipherSuite
        label = "CLIENT_HANDSHAKE_TRAFFIC_SECRET" if side == "client" else "SERVER_HANDSHAKE_TRAFFIC_SECRET"
        out = []
        for ep in (self.pair.client, self.pair.server):
            if ep.secrets_log is None:
                continue
            for lab, _cr, sec in _parse_keylog(ep.secrets_log.getvalue()):
                if lab != label:
                    continue
                secret = bytes.fromhex(sec)
                suites = [CipherSuite.AES_256_GCM_SHA384] if len(secret) == 48 else \
                    [CipherSuite.AES_128_GCM_SHA256, CipherSuite.CHACHA20_POLY1305_SHA256]
                for suite in suites:
                    key = (side, version, sec, int(suite))
                    ctx = self._hs.get(key)
                    if ctx is None:
                        ctx = CryptoContext()
                        ctx.setup(cipher_suite=suite, secret=secret, version=version)
                        self._hs[key] = ctx
                    out.append((key, ctx))
        return out

    # -- rewriting ---------------------------------------------------------------------------------
    def _intercept(self, side, data):
        try:
            return self._rewrite(side, data)
        except Exception:           # never break the simulation: an unrewritable datagram passes unchanged
            self.stats["undecryptable"] += 1
            return data

    def _rewrite(self, side, data):
        from aioquic.quic.crypto import CryptoError
        out = b""
        changed = False
        for pk in _split_datagram(data):
            raw = data[pk["start"]:pk["end"]]
            kind = pk["kind"]
            if kind == "retry" and side == "server" and self.kind in ("dcid", "rscid") and self.cid_client is not None:
                from aioquic.quic.packet import get_retry_integrity_tag
                body = bytearray(raw[:-16])
                if self.kind == "rscid":
                    # the Retry's Source Connection ID is changed (and the public integrity tag recomputed): the
                    # client will address -- and key -- its next Initial with R', the server's token still says R
                    o = 5 + 1 + len(pk["dcid"]) + 1
                    body[o] ^= 0x01
                out += bytes(body) + get_retry_integrity_tag(bytes(body), self.cid_client, pk["version"])
                self.stats["retry_retagged"] += 1
                changed = True
                continue
            if kind not in ("initial", "handshake"):
                out += raw
                continue
            src_ver = pk["version"]
            dst_ver = self.maps[side].get(src_ver, src_ver)
            if kind == "initial":
                if side == "client":
                    if pk["token"] and self.cid_client is not None and self.kind != "version":
                        # after a Retry both sides derive their keys from the Retry SCID the client addresses
                        self.cid_client = self.cid_server = bytes(pk["dcid"])
                        self.swap_dcid = False
                    elif self.cid_client is None:
                        self.cid_client = bytes(pk["dcid"])
                        self.cid_server = bytes(pk["dcid"])
                        if self.kind == "dcid":
                            self.cid_server = bytes([self.cid_client[0] ^ 0x01]) + self.cid_client[1:]
                if self.cid_client is None:
                    out += raw
                    continue
                dec = [(None, self._initial_ctx(self.cid_client if side == "client" else self.cid_server, src_ver, side))]
                enc_cid = self.cid_server if side == "client" else self.cid_client
            else:
                if dst_ver == src_ver:
                    out += raw
                    continue
                dec = self._hs_ctxs(side, src_ver)
            swap_scid = self.kind == "iscid" and side == "server" and kind == "initial"
            if kind == "initial" and dst_ver == src_ver and self.cid_client == self.cid_server and not swap_scid:
                out += raw
                continue
            enc_off = pk["pn_off"] - pk["start"]
            exp = self.expected.get((side, kind), 0)
            res = None
            for key, ctx in dec:
                try:
                    res = ctx.decrypt_packet(raw, enc_off, exp)
                except (CryptoError, ValueError):
                    res = None
                if res is not None:
                    break
            if res is None:
                self.stats["undecryptable"] += 1
                out += raw
                continue
            plain_header, payload, pn = bytes(res[0]), bytes(res[1]), res[2]
            if pn >= exp:
                self.expected[(side, kind)] = pn + 1
            hdr = bytearray(plain_header)
            if dst_ver != src_ver:
                epoch_bits = {v: k for k, v in (_LONG_V2 if dst_ver == V2 else _LONG_V1).items()}[kind]
                hdr[0] = (hdr[0] & 0xCF) | (epoch_bits << 4)
                hdr[1:5] = dst_ver.to_bytes(4, "big")
            if kind == "initial":
                if side == "client" and self.swap_dcid and bytes(pk["dcid"]) == self.cid_client:
                    o = pk["dcid_off"]
                    hdr[o:o + len(self.cid_server)] = self.cid_server
                if swap_scid and len(pk["scid"]):
                    hdr[pk["dcid_off"] + len(pk["dcid"]) + 1] ^= 0x01
                enc = self._initial_ctx(enc_cid, dst_ver, side)
            else:
                skey = key
                enc = None
                for k2, c2 in self._hs_ctxs(side, dst_ver):
                    if k2[2] == skey[2] and k2[3] == skey[3]:
                        enc = c2
                        break
            new = enc.encrypt_packet(bytes(hdr), payload, pn)
            if len(new) != len(raw):
                raise ValueError("size changed")
            out += new
            changed = True
            self.stats["c2s_rewritten" if side == "client" else "s2c_rewritten"] += 1
        return out if changed else data


# ======================================================================================================
# one run
# ======================================================================================================
def _mk_fates(spec, default_seed):
    from sim import Fates, adversarial_then_fair
    rnd = random.Random(int(spec.get("seed", default_seed)))
    adv = Fates.random(rnd, float(spec.get("p_drop", 0.0)), float(spec.get("p_dup", 0.0)),
                       float(spec.get("p_reorder", 0.0)), float(spec.get("max_delay", 0.05)))
    return adversarial_then_fair(adv, fair_after_time=float(spec.get("fair_after", 3.0)))


def _pair_kwargs(cfg, seed, prime=False):
    """-> kwargs for sim.Pair (without fates / ticket_store)."""
    import ssl
    from aioquic.tls import CipherSuite
    ident, extra = _identity(cfg.get("cert"))
    ccfg, scfg = dict(extra), {}
    if cfg.get("verify", True) is False:
        ccfg["verify_mode"] = ssl.CERT_NONE
    cs, ss = cfg.get("c_suites"), cfg.get("s_suites")
    if prime and cfg.get("prime_s_suites") is not None:
        ss = cfg["prime_s_suites"]
    if cs is not None:
        ccfg["cipher_suites"] = [CipherSuite(int(x)) for x in cs]
    if ss is not None:
        scfg["cipher_suites"] = [CipherSuite(int(x)) for x in ss]
    ca, sa = cfg.get("c_alpn", ["sim"]), cfg.get("s_alpn", ["sim"])
    ccfg["alpn_protocols"] = list(ca) if ca is not None else None
    scfg["alpn_protocols"] = list(sa) if sa is not None else None
    if cfg.get("c_original_version") is not None:
        ccfg["original_version"] = int(cfg["c_original_version"])
    if cfg.get("reqcert") and cfg.get("c_cert") == "wrongkey":
        # the client presents the (trusted) certificate but signs with somebody else's key
        ccfg["private_key"] = _ed_key(b"client-wrongkey")
    return dict(seed=seed, client_config=ccfg, server_config=scfg,
                client_versions=[int(v) for v in cfg.get("c_versions") or [V1, V2]],
                server_versions=[int(v) for v in cfg.get("s_versions") or [V1, V2]],
                retry=bool(cfg.get("retry")) and not prime,
                client_certificate=bool(cfg.get("reqcert")),
                cert=ident, client_qlog=False, server_qlog=False, spin_quantum=SPIN_QUANTUM)


def _endpoint_obs(obs, side, ep, qevents):
    tag = side[0]
    hcs = ep.events_of(qevents.HandshakeCompleted) if ep.conn is not None else []
    pns = ep.events_of(qevents.ProtocolNegotiated) if ep.conn is not None else []
    term = ep.terminated if ep.conn is not None else None
    obs[side + "_complete"] = bool(hcs)
    obs[side + "_hc_count"] = len(hcs)
    obs[side + "_hc"] = ({"alpn": hcs[0].alpn_protocol, "early": bool(hcs[0].early_data_accepted),
                          "resumed": bool(hcs[0].session_resumed)} if hcs else None)
    obs[side + "_pn"] = pns[0].alpn_protocol if pns else None
    obs[side + "_pn_count"] = len(pns)
    obs[side + "_term"] = ({"error_code": int(term.error_code), "frame_type": term.frame_type,
                            "reason": str(term.reason_phrase)} if term is not None else None)
    obs[side + "_version"] = _sent_version(ep) if ep.conn is not None else None
    conn = ep.conn
    obs[side + "_version_peek"] = getattr(conn, "_version", None) if conn is not None else None
    suite = None
    try:
        ks = conn.tls.key_schedule
        suite = int(ks.cipher_suite) if ks is not None and getattr(ks, "cipher_suite", None) is not None else None
    except AttributeError:
        suite = None
    obs["suite_" + tag] = suite
    obs["secrets_" + tag] = _parse_keylog(ep.secrets_log.getvalue()) if ep.secrets_log is not None else []


def _wire_msgs(pair):
    """TLS messages per direction as they crossed the wire (post-interception), from the wire observer."""
    out = {"c2s": {}, "s2c": {}}
    counter = 0
    if pair.observer is None:
        return {"c2s": [], "s2c": []}, None
    for pkt in pair.observer.packets:
        if not pkt.decrypted or pkt.type not in EPOCH_ORDER:
            continue
        for f in pkt.frames:
            if f.name == "CRYPTO":
                counter += 1
                out[pkt.direction].setdefault(pkt.type, _Stream()).add(counter, f.fields["offset"], f.fields["data"])
    msgs = {}
    suite = None
    for d in ("c2s", "s2c"):
        lst = []
        for epoch in EPOCH_ORDER:
            st = out[d].get(epoch)
            if st is None:
                continue
            pre = st.prefix()
            for typ, start, total in _parse_msgs(pre):
                if total is not None and start + total <= len(pre):
                    lst.append([typ, total - 4])
                    if d == "s2c" and typ == 2 and suite is None:
                        suite = _server_hello_suite(pre[start:start + total])
        msgs[d] = lst
    return msgs, suite


def q_handshake(cfg, tamper=None, fates=None):
    """One run.  Never raises; anything unexpected is recorded in obs["error"]."""
    obs = {"client_complete": False, "server_complete": False, "client_hc": None, "server_hc": None,
           "client_pn": None, "server_pn": None, "client_term": None, "server_term": None,
           "client_version": None, "server_version": None, "client_version_peek": None, "server_version_peek": None,
           "secrets_c": [], "secrets_s": [], "suite_c": None, "suite_s": None, "suite_wire": None,
           "rewritten": 0, "tamper_applied": False, "received_msgs": [], "msgs": {"c2s": [], "s2c": []},
           "error": None, "steps": 0, "virtual_time": 0.0, "prime_ok": None, "mitm": None, "stop": None,
           "listener": []}
    try:
        _run(dict(cfg or {}), tamper, fates, obs)
    except Exception as exc:      # harness or sim failure: reported, never raised
        if obs["error"] is None:
            obs["error"] = "HarnessError:%s:%s" % (type(exc).__name__, str(exc)[:200])
    return obs


def _run(cfg, tamper, fates, obs):
    import logging
    import sim
    from sim import ApiRaised, HalfPair, Pair, SimStall, TicketStore
    from aioquic.quic import events as qevents
    logging.getLogger("quic").setLevel(logging.CRITICAL)

    seed = int(cfg.get("seed", 1))
    fspec = fates if fates is not None else cfg.get("fates")
    mitm_spec = cfg.get("mitm")
    store = None
    ticket = None
    if cfg.get("psk"):
        store = TicketStore()
        prime = Pair(ticket_store=store, **_pair_kwargs(cfg, seed ^ 0x5A5A5A, prime=True))
        try:
            ok = prime.handshake()
            prime.run_until_idle()
        except (ApiRaised, SimStall) as exc:
            ok = False
            obs["error"] = "Prime:%s" % type(exc).__name__
        obs["prime_ok"] = bool(ok and store.client_tickets)
        if store.client_tickets:
            ticket = store.client_tickets[-1]
    kw = _pair_kwargs(cfg, seed)
    if ticket is not None:
        kw["client_config"]["session_ticket"] = ticket
    if fspec:
        kw["fates"] = _mk_fates(fspec, seed)
    if store is not None:
        kw["ticket_store"] = store
    pair = Pair(**kw)
    hp = None
    tam = None
    mitm = None
    if tamper is not None:
        tam = _Tamper(tamper["msg"], tamper["pos"], tamper["mask"])
        sender = "server" if tamper["dir"] == "s2c" else "client"
        hp = HalfPair(pair, sender, tam)
    elif mitm_spec:
        mitm = _Mitm(pair, mitm_spec)

    limit = float(cfg["max_time"]) if cfg.get("max_time") else (MAX_TIME_LOSSY if fspec else MAX_TIME)

    def settled(p):
        for ep in (p.client, p.server):
            if ep.conn is None:
                return False
            if not (ep.handshake_completed or ep.terminated is not None):
                return False
        return True

    try:
        if cfg.get("early"):
            pair.connect(pump=False)
            pair.client.send_stream_data(0, b"c03 early data", False)
            pair.pump(pair.client)
        else:
            pair.connect()
        obs["stop"] = pair.run(settled, max_time=limit)
        if obs["stop"] == "until":
            pair.run(None, max_time=1.0)       # let close frames / late events arrive
    except ApiRaised as exc:
        obs["error"] = "ApiRaised:%s@%s.%s" % (type(exc.exc).__name__, exc.call.endpoint, exc.call.name)
    except SimStall:
        obs["error"] = "SimStall"

    _endpoint_obs(obs, "client", pair.client, qevents)
    _endpoint_obs(obs, "server", pair.server, qevents)
    obs["steps"] = len(pair.steps)
    obs["virtual_time"] = round(pair.clock.elapsed(), 6)
    msgs, suite = _wire_msgs(pair)
    obs["msgs"] = msgs
    obs["suite_wire"] = suite
    obs["listener"] = [k for _t, k, _i in pair.listener_log]
    if tam is not None:
        obs["rewritten"] = len(hp.rewritten)
        delivered = {idx for _t, idx, _s, _d in pair.network.delivered}
        hit = [r for r in pair.network.wire_log if r.original is not None and r.sender == hp.puppet_side
               and r.index in delivered]
        obs["tamper_applied"] = bool(tam.altered and hit and not tam.leaked)
        obs["tamper_leaked"] = bool(tam.leaked)
        obs["tamper_out_of_range"] = bool(tam.out_of_range)
        obs["received_msgs"] = tam.received_msgs()
    if mitm is not None:
        obs["mitm"] = dict(mitm.stats)
        obs["rewritten"] = mitm.stats["c2s_rewritten"] + mitm.stats["s2c_rewritten"] + mitm.stats["retry_retagged"]


# ======================================================================================================
# oracle (coded from the property text)
# ======================================================================================================
def _common(a, b):
    return [x for x in a if x in b]


def _expect(cfg):
    """Independent expectation: can the two configurations agree at all, and on which ALPN."""
    cv = [int(v) for v in cfg.get("c_versions") or [V1, V2]]
    sv = [int(v) for v in cfg.get("s_versions") or [V1, V2]]
    cs = [int(x) for x in (cfg.get("c_suites") if cfg.get("c_suites") is not None else DEFAULT_SUITES)]
    ss = [int(x) for x in (cfg.get("s_suites") if cfg.get("s_suites") is not None else DEFAULT_SUITES)]
    ca, sa = cfg.get("c_alpn", ["sim"]), cfg.get("s_alpn", ["sim"])
    exp = {"versions": _common(cv, sv), "suites": _common(ss, cs), "possible": True, "alpn": None, "alpn_checked": False}
    if not exp["versions"] or not exp["suites"]:
        exp["possible"] = False
    if sa is not None:
        offered = list(ca) if ca is not None else []
        com = [a for a in sa if a in offered]
        exp["alpn_checked"] = True
        if com:
            exp["alpn"] = com[0]            # first of the SERVER's list that the client offers
        else:
            exp["possible"] = False
    return exp


def _sig(case, kind, **kw):
    s = {"suite": case.get("suite"), "kind": kind}
    s.update(kw)
    return s


def _agreement(case, obs):
    """Both completed: they must agree on everything."""
    sc = {tuple(r) for r in obs["secrets_c"]}
    ss = {tuple(r) for r in obs["secrets_s"]}
    for lab in MAIN_LABELS:
        a = {r for r in sc if r[0] == lab}
        b = {r for r in ss if r[0] == lab}
        if a != b or len(a) != 1:
            return "both completed but %s differs (client %d rows, server %d rows)" % (lab, len(a), len(b)), \
                _sig(case, "disagree:secrets", label=lab)
    chc, shc = obs["client_hc"], obs["server_hc"]
    if shc["early"]:
        b = {r for r in ss if r[0] == EARLY_LABEL}
        if not b or not b <= {r for r in sc if r[0] == EARLY_LABEL}:
            return "server accepted early data with an early secret the client does not hold", \
                _sig(case, "disagree:secrets", label=EARLY_LABEL)
    cv = obs["client_version"] if obs["client_version"] is not None else obs["client_version_peek"]
    sv = obs["server_version"] if obs["server_version"] is not None else obs["server_version_peek"]
    if cv != sv:
        return "both completed, client ended with version %#x, server with %#x" % (cv or 0, sv or 0), \
            _sig(case, "disagree:version")
    if obs["client_version_peek"] != obs["server_version_peek"]:
        return "both completed, negotiated versions (private) differ: %r / %r" % (
            obs["client_version_peek"], obs["server_version_peek"]), _sig(case, "disagree:version")
    if obs["suite_c"] != obs["suite_s"] or (obs["suite_wire"] is not None and obs["suite_wire"] != obs["suite_s"]):
        return "both completed, cipher suites differ: client %r server %r ServerHello %r" % (
            obs["suite_c"], obs["suite_s"], obs["suite_wire"]), _sig(case, "disagree:suite")
    if chc["alpn"] != shc["alpn"] or obs["client_pn"] != obs["server_pn"] or (
            obs["client_pn"] is not None and obs["client_pn"] != chc["alpn"]) or (
            obs["server_pn"] is not None and obs["server_pn"] != shc["alpn"]):
        return "both completed, ALPN differs: HandshakeCompleted %r/%r ProtocolNegotiated %r/%r" % (
            chc["alpn"], shc["alpn"], obs["client_pn"], obs["server_pn"]), _sig(case, "disagree:alpn")
    if chc["resumed"] != shc["resumed"]:
        return "both completed, session_resumed differs: client %r server %r" % (chc["resumed"], shc["resumed"]), \
            _sig(case, "disagree:resumed")
    if chc["early"] != shc["early"]:
        return "both completed, early_data_accepted differs: client %r server %r" % (chc["early"], shc["early"]), \
            _sig(case, "disagree:early")
    return None


def q_oracle(case, obs):
    """None = property holds on this run; else (what, signature)."""
    cfg = case.get("cfg") or {}
    suite = case.get("suite")
    tamper = case.get("tamper")
    cc, sc = obs["client_complete"], obs["server_complete"]
    if obs.get("error") and str(obs["error"]).startswith("HarnessError"):
        return "harness failure: %s" % obs["error"], _sig(case, "harness-error")
    if obs.get("client_hc_count", 0) > 1 or obs.get("server_hc_count", 0) > 1:
        return "HandshakeCompleted emitted more than once", _sig(case, "completed-twice")

    # -- altered handshake message: the receiver must not complete -------------------------------------
    if tamper is not None and obs.get("tamper_applied"):
        recv_complete = cc if tamper["dir"] == "s2c" else sc
        if recv_complete:
            name = MSG_NAMES.get(tamper["msg"], str(tamper["msg"]))
            return ("%s altered at byte %d (mask %#04x, %s) and the receiving %s still reported HandshakeCompleted"
                    % (name, tamper["pos"], tamper["mask"], tamper["dir"],
                       "client" if tamper["dir"] == "s2c" else "server")), \
                _sig(case, "tamper-accepted", msg=name, dir=tamper["dir"])

    # -- man in the middle on what the transcript does not cover ----------------------------------------
    mitm = cfg.get("mitm")
    if mitm and obs.get("rewritten"):
        if mitm["kind"] == "dcid" and cc:
            return "client completed although the server authenticated a different original_destination_connection_id", \
                _sig(case, "odcid-accepted")
        if mitm["kind"] == "iscid" and cc and obs["mitm"].get("s2c_rewritten"):
            return "client completed although the server authenticated a different initial_source_connection_id", \
                _sig(case, "iscid-accepted")
        if mitm["kind"] == "rscid" and cc and obs["mitm"].get("retry_retagged"):
            return "client completed although the server authenticated a different retry_source_connection_id", \
                _sig(case, "rscid-accepted")
        if mitm["kind"] == "version":
            cv = [int(v) for v in cfg.get("c_versions") or [V1, V2]]
            sv = [int(v) for v in cfg.get("s_versions") or [V1, V2]]
            for done, ver, peer, who in ((cc, obs["client_version"], sv, "client"), (sc, obs["server_version"], cv, "server")):
                if done and ver not in peer:
                    return "%s completed with version %#x which its peer does not support" % (who, ver or 0), \
                        _sig(case, "version-forced")

    # -- authentication ------------------------------------------------------------------------------------
    kind = cfg.get("cert")
    if kind in BAD_KINDS and cc:
        if kind in ("wrongkey", "wrongkeytype"):
            return "client completed although the server does not hold the certificate's private key (%s)" % kind, \
                _sig(case, "unauthenticated-completion", cert=kind)
        if cfg.get("verify", True) is not False:
            return "client completed with a certificate that does not validate (%s)" % kind, \
                _sig(case, "unauthenticated-completion", cert=kind)

    if cfg.get("reqcert") and cfg.get("c_cert") == "wrongkey" and cfg.get("cert", "ed25519") == "ed25519" and sc:
        return "server completed although the client does not hold the private key of the certificate it presented", \
            _sig(case, "unauthenticated-completion", cert="client-wrongkey")

    # -- agreement -----------------------------------------------------------------------------------------
    exp = _expect(cfg)
    if cc and sc:
        bad = _agreement(case, obs)
        if bad is not None:
            return bad
        ver = obs["client_version"] if obs["client_version"] is not None else obs["client_version_peek"]
        if not (mitm and mitm["kind"] == "version") and ver not in exp["versions"]:
            return "both completed with version %#x which is not supported by both" % (ver or 0), \
                _sig(case, "mis-negotiated", field="version")
        if obs["suite_s"] is not None and obs["suite_s"] not in exp["suites"]:
            return "both completed with cipher suite %#x which is not offered by both" % obs["suite_s"], \
                _sig(case, "mis-negotiated", field="suite")
        if not mitm and ver != exp["versions"][0]:
            return ("version %#x negotiated, expected %#x: supported_versions is a preference list and the negotiated "
                    "version is the client's most preferred one that the server supports" % (ver or 0, exp["versions"][0])), \
                _sig(case, "mis-negotiated", field="version-preference")
        if cfg.get("s_suites") is not None and obs["suite_s"] is not None and obs["suite_s"] != exp["suites"][0]:
            return "cipher suite %#x negotiated, expected %#x (first of the server's list that the client offers)" % (
                obs["suite_s"], exp["suites"][0]), _sig(case, "mis-negotiated", field="suite-preference")
        if exp["alpn_checked"] and exp["possible"] and obs["client_hc"]["alpn"] != exp["alpn"]:
            return "ALPN %r negotiated, expected %r (first of the server's list that the client offers)" % (
                obs["client_hc"]["alpn"], exp["alpn"]), _sig(case, "mis-negotiated", field="alpn")
    if not exp["possible"] and (cc or sc):
        return "no common option (%s) but %s reported completion" % (
            "versions" if not exp["versions"] else "suites" if not exp["suites"] else "alpn",
            "both" if cc and sc else "client" if cc else "server"), _sig(case, "no-common-completed")

    # -- harness sanity: an honest, healthy run on a perfect network completes --------------------------
    if (exp["possible"] and tamper is None and not mitm and kind not in BAD_KINDS and not cfg.get("fates")
            and not cfg.get("c_cert") and not (cc and sc)):
        return "healthy configuration on a perfect network, completion client=%r server=%r (%s)" % (
            cc, sc, _outcome(obs)), _sig(case, "honest-run-failed")
    if obs.get("error") and tamper is None and not mitm and not cfg.get("fates") and kind not in BAD_KINDS \
            and not cfg.get("c_cert"):
        return "honest run raised: %s" % obs["error"], _sig(case, "honest-run-failed")
    return None


def _outcome(obs):
    if obs.get("error"):
        return "error:" + str(obs["error"]).split("@")[0]
    if obs["client_complete"] and obs["server_complete"]:
        return "both-complete"
    parts = []
    for side in ("client", "server"):
        t = obs[side + "_term"]
        if obs[side + "_complete"]:
            parts.append(side + ":complete" + ("" if t is None else "+term%#x" % t["error_code"]))
        elif t is not None:
            parts.append("%s:term%#x" % (side, t["error_code"]))
    return ",".join(parts) if parts else "timeout-no-completion"


# ======================================================================================================
# case generators
# ======================================================================================================
def _probe(cfg):
    obs = q_handshake(cfg)
    return obs["msgs"] if (obs["client_complete"] and obs["server_complete"]) else None


def _tamper_positions(rng, msgs, direction, cfg, suite, stride, dense_types, all_masks_types, only_types=None):
    cases = []
    seen = set()
    for typ, length in msgs:
        if typ not in MSG_NAMES or typ == 4 or typ in seen:
            continue
        seen.add(typ)
        if only_types is not None and (direction, typ) not in only_types:
            continue
        total = length + 4
        dense = (direction, typ) in dense_types or typ in dense_types
        step = 1 if dense else stride
        start = 0 if dense else rng.randrange(step)
        positions = set(range(start, total, step))
        positions.update(p for p in (0, 1, 2, 3, 4, total - 1) if p < total)      # header and last byte always
        for pos in sorted(positions):
            if (direction, typ) in all_masks_types or typ in all_masks_types:
                masks = MASKS
            else:
                masks = (rng.choice(MASKS),)
            for m in masks:
                cases.append({"suite": suite, "cfg": dict(cfg),
                              "tamper": {"dir": direction, "msg": typ, "pos": pos, "mask": m}})
    return cases


def _tp_cases():
    out = []
    for retry in (False, True):
        for cert in ("ed25519",):
            for vers in ([V1], [V2, V1]):
                out.append({"suite": "quic-tp", "cfg": {"seed": 11 + len(out), "cert": cert, "retry": retry,
                                                         "c_versions": vers, "s_versions": [V1, V2],
                                                         "mitm": {"kind": "dcid"}}})
    for vers in ([V1], [V2, V1]):
        out.append({"suite": "quic-tp", "cfg": {"seed": 21 + len(out), "retry": True, "c_versions": vers,
                                                 "s_versions": [V1, V2], "mitm": {"kind": "rscid"}}})
    for retry in (False, True):
        for vers in ([V1], [V2, V1]):
            out.append({"suite": "quic-tp", "cfg": {"seed": 25 + len(out), "retry": retry, "c_versions": vers,
                                                     "s_versions": [V1, V2], "mitm": {"kind": "iscid"}}})
    ver = [
        ([V1, V2], None, [V1], {V2: V1}, {V1: V2}),        # server speaks v1 only; client is told v2
        ([V2, V1], None, [V2], {V1: V2}, {V2: V1}),        # mirror image
        ([V1, V2], None, [V1, V2], {V2: V1}, {V1: V2}),    # both support both; replies translated v1 -> v2
        ([V2, V1], None, [V2, V1], {V1: V2}, {V2: V1}),
        ([V1], None, [V1, V2], {V1: V2}, {V2: V1}),        # client's packets arrive as v2
        ([V2], None, [V1, V2], {V2: V1}, {V1: V2}),
        ([V1], None, [V2], {V1: V2}, {V2: V1}),            # no common version at all: the translator fakes one
        ([V2], None, [V1], {V2: V1}, {V1: V2}),
    ]
    for cv, orig, sv, c2s, s2c in ver:
        out.append({"suite": "quic-tp", "cfg": {"seed": 31 + len(out), "c_versions": cv, "s_versions": sv,
                                                 "c_original_version": orig,
                                                 "mitm": {"kind": "version",
                                                          "c2s": {str(k): v for k, v in c2s.items()},
                                                          "s2c": {str(k): v for k, v in s2c.items()}}}})
    return out


def q_tamper_cases(rng, tier):
    """Needs the overlay to be active (probes each configuration once to learn the message layout)."""
    thorough = tier == "thorough"
    cases = []
    _BASE = {"seed": 3, "max_time": MAX_TIME_TAMPER_THOROUGH if thorough else MAX_TIME_TAMPER_QUICK}
    default = dict(_BASE)
    reqcert = dict(_BASE, reqcert=True, seed=4)
    FIN, SH, CV = 20, 2, 15
    # -- primary: default configuration, every message, both directions
    msgs = _probe(default)
    if msgs is not None:
        for d in ("s2c", "c2s"):
            if thorough:
                cases += _tamper_positions(rng, msgs[d], d, default, "quic-tamper", 1, MSG_NAMES.keys(), MSG_NAMES.keys())
            else:
                cases += _tamper_positions(rng, msgs[d], d, default, "quic-tamper", 3, (FIN, SH, CV), (FIN, SH, CV))
    else:
        cases.append({"suite": "quic-tamper", "cfg": default, "probe_failed": True})
    # -- the messages that only exist with a client-certificate request
    msgs = _probe(reqcert)
    if msgs is not None:
        only = {("s2c", 13), ("c2s", 11), ("c2s", 15), ("c2s", 20)}
        for d in ("s2c", "c2s"):
            if thorough:
                cases += _tamper_positions(rng, msgs[d], d, reqcert, "quic-tamper", 1, MSG_NAMES.keys(), MSG_NAMES.keys(), only)
            else:
                cases += _tamper_positions(rng, msgs[d], d, reqcert, "quic-tamper", 3, (), (), only)
    else:
        cases.append({"suite": "quic-tamper", "cfg": reqcert, "probe_failed": True})
    # -- variants
    stride = 4 if thorough else 16
    variants = [
        dict(_BASE, seed=5, c_versions=[V2, V1], s_versions=[V2, V1]),
        dict(_BASE, seed=6, retry=True),
        dict(_BASE, seed=7, reqcert=True),
        dict(_BASE, seed=8, psk=1),
        dict(_BASE, seed=9, psk=1, early=True),
        dict(_BASE, seed=10, cert="rsa"),
        dict(_BASE, seed=11, cert="ec256"),
        dict(_BASE, seed=12, c_versions=[V2, V1], c_original_version=V1, s_versions=[V1, V2]),
        dict(_BASE, seed=13, c_suites=[SCHA], s_suites=[S128, SCHA]),
        dict(_BASE, seed=14, c_suites=[S128, S256], s_suites=[S256]),
        dict(_BASE, seed=15, c_versions=[VX, V2, V1], s_versions=[V2], retry=True),
    ]
    for cfg in variants:
        msgs = _probe(cfg)
        if msgs is None:
            cases.append({"suite": "quic-tamper", "cfg": cfg, "probe_failed": True})
            continue
        for d in ("s2c", "c2s"):
            cases += _tamper_positions(rng, msgs[d], d, cfg, "quic-tamper", stride, (), ())
    return cases + _tp_cases()


_VERSION_CHOICES_C = [([V1], None), ([V2], None), ([V1, V2], None), ([V2, V1], None), ([V2, V1], V1), ([V1, V2], V2),
                      ([VX, V1], None), ([VX, V2, V1], None), ([VX], None)]
# (original_version outside supported_versions is not generated: QuicConnection.connect() raises KeyError for it --
#  an unusable configuration, not a negotiation outcome)
_VERSION_CHOICES_S = [[V1], [V2], [V1, V2], [V2, V1]]
_SUITE_CHOICES = [None, None, [S128], [S256], [SCHA], [S128, SCHA], [SCHA, S128], [S256, S128], [S128, S256],
                  [SCHA, S256, S128]]
_ALPN_C = [["sim"], ["sim"], ["a", "b"], ["b", "a"], ["c"], ["a", "b", "c"], None]
_ALPN_S = [["sim"], ["sim"], ["a", "b"], ["b", "a"], ["b"], ["c", "a"], None]


def _rand_fates(rng):
    return {"seed": rng.getrandbits(32), "p_drop": rng.choice([0.05, 0.15, 0.3]), "p_dup": rng.choice([0.0, 0.1, 0.2]),
            "p_reorder": rng.choice([0.0, 0.2, 0.4]), "max_delay": rng.choice([0.02, 0.08]),
            "fair_after": rng.choice([1.0, 3.0])}


def _rand_cfg(rng):
    cfg = {"seed": rng.getrandbits(30)}
    cfg["cert"] = rng.choices(["ed25519", "rsa", "ec256"], [6, 1, 3])[0]
    cv, orig = rng.choice(_VERSION_CHOICES_C) if rng.random() < 0.7 else ([V1, V2], None)
    cfg["c_versions"], cfg["c_original_version"] = list(cv), orig
    cfg["s_versions"] = list(rng.choice(_VERSION_CHOICES_S)) if rng.random() < 0.7 else [V1, V2]
    cfg["c_suites"] = rng.choice(_SUITE_CHOICES)
    cfg["s_suites"] = rng.choice(_SUITE_CHOICES)
    if rng.random() < 0.5:
        cfg["c_alpn"], cfg["s_alpn"] = ["sim"], ["sim"]
    else:
        cfg["c_alpn"], cfg["s_alpn"] = rng.choice(_ALPN_C), rng.choice(_ALPN_S)
    cfg["retry"] = rng.random() < 0.25
    cfg["psk"] = 1 if rng.random() < 0.35 else 0
    cfg["early"] = bool(cfg["psk"]) and rng.random() < 0.5
    if cfg["psk"] and rng.random() < 0.2:
        cfg["prime_s_suites"] = rng.choice([[S128], [S256], [SCHA]])
    # aioquic's test-only _request_client_certificate switch makes the server expect a client Certificate even in a
    # resumed handshake where it sent no CertificateRequest: that combination cannot complete and is not a
    # configuration option of the library, so it is not generated.
    cfg["reqcert"] = (not cfg["psk"]) and rng.random() < 0.2
    return cfg


def _corner_cfgs():
    c = []
    c.append({"c_versions": [V1, V2], "s_versions": [V2, V1]})                       # compatible, client pref v1
    c.append({"c_versions": [V2, V1], "c_original_version": V1, "s_versions": [V2, V1]})  # v1 -> v2 compatible upgrade
    c.append({"c_versions": [V1, V2], "c_original_version": V2, "s_versions": [V1, V2]})  # v2 -> v1 compatible change
    c.append({"c_versions": [V2, V1], "s_versions": [V1, V2]})                       # client original v2
    c.append({"c_versions": [V2], "s_versions": [V2]})
    c.append({"c_versions": [V1, V2], "s_versions": [V2]})                           # Version Negotiation, then v2
    c.append({"c_versions": [V2, V1], "s_versions": [V1]})                           # Version Negotiation, then v1
    c.append({"c_versions": [VX, V1], "s_versions": [V1, V2]})
    c.append({"c_versions": [V1], "s_versions": [V2]})                               # disjoint
    c.append({"c_versions": [V2], "s_versions": [V1]})                               # disjoint
    c.append({"c_versions": [VX], "s_versions": [V1, V2]})                           # disjoint
    c.append({"retry": True, "c_versions": [V2, V1], "s_versions": [V2, V1]})        # retry + v2
    c.append({"retry": True, "c_versions": [V1, V2], "s_versions": [V2]})            # VN + retry + v2
    c.append({"retry": True, "c_versions": [V2, V1], "c_original_version": V1})      # retry + compatible upgrade
    c.append({"retry": True, "psk": 1})                                              # retry + psk
    c.append({"retry": True, "psk": 1, "early": True})
    c.append({"psk": 1})
    c.append({"psk": 1, "early": True})                                              # 0-RTT accepted
    c.append({"psk": 1, "early": True, "c_versions": [V2, V1], "s_versions": [V2, V1]})
    c.append({"psk": 1, "prime_s_suites": [S128], "s_suites": [S256, S128]})         # other suite preference now
    c.append({"psk": 1, "early": True, "prime_s_suites": [SCHA], "s_suites": [S128]})
    c.append({"psk": 1, "c_suites": [S128, S256], "s_suites": [S256], "prime_s_suites": [S128]})
    c.append({"early": True})                                                        # early write without a ticket
    c.append({"reqcert": True})
    c.append({"reqcert": True, "cert": "rsa"})
    c.append({"reqcert": True, "cert": "ec256", "retry": True})
    c.append({"cert": "rsa"})
    c.append({"cert": "ec256"})
    c.append({"cert": "rsa", "c_versions": [V2, V1], "s_versions": [V2, V1], "retry": True})
    for s in (S128, S256, SCHA):
        c.append({"c_suites": [s], "s_suites": [s]})
    c.append({"c_suites": [S128, SCHA], "s_suites": [SCHA, S128]})
    c.append({"c_suites": [S128], "s_suites": [S256]})                               # disjoint suites
    c.append({"c_suites": [SCHA], "s_suites": [S128, S256]})                         # disjoint suites
    c.append({"c_alpn": ["a", "b"], "s_alpn": ["b", "a"]})                           # server preference wins: b
    c.append({"c_alpn": ["b", "a"], "s_alpn": ["a", "b"]})                           # a
    c.append({"c_alpn": ["a", "b", "c"], "s_alpn": ["c", "a"]})                      # c
    c.append({"c_alpn": ["a"], "s_alpn": ["b"]})                                     # disjoint ALPN
    c.append({"c_alpn": None, "s_alpn": ["a"]})                                      # client offers none
    c.append({"c_alpn": ["a"], "s_alpn": None})                                      # server has none: no ALPN
    c.append({"c_alpn": None, "s_alpn": None})
    out = []
    for i, cfg in enumerate(c):
        d = {"seed": 100 + i}
        d.update(cfg)
        out.append(d)
    return out


def q_matrix_cases(rng, tier):
    thorough = tier == "thorough"
    n_random = 2700 if thorough else 400
    n_lossy = 300 if thorough else 80
    cases = [{"suite": "quic-matrix", "cfg": cfg} for cfg in _corner_cfgs()]
    for _ in range(n_random):
        cases.append({"suite": "quic-matrix", "cfg": _rand_cfg(rng)})
    corners = _corner_cfgs()
    for i in range(n_lossy):
        cfg = dict(corners[i % len(corners)]) if i % 3 == 0 else _rand_cfg(rng)
        cfg["seed"] = rng.getrandbits(30)
        cfg["fates"] = _rand_fates(rng)
        cases.append({"suite": "quic-matrix", "cfg": cfg})
    return cases


def q_badcert_cases(rng, tier):
    cases = []
    for kind in BAD_KINDS:
        for verify in (True, False):
            for retry in (False, True):
                cases.append({"suite": "quic-badcert", "cfg": {"seed": 200 + len(cases), "cert": kind,
                                                                "verify": verify, "retry": retry}})
    # a requested client certificate whose private key the client does not hold
    for retry in (False, True):
        for vers in ([V1, V2], [V2, V1]):
            cases.append({"suite": "quic-badcert", "cfg": {"seed": 240 + len(cases), "reqcert": True, "c_cert": "wrongkey",
                                                            "retry": retry, "c_versions": vers, "s_versions": vers}})
    # the same with QUIC v2 and with a lossy network for the kinds that must always fail
    for kind in ("wrongkey", "selfsigned", "expired", "wrongname"):
        cases.append({"suite": "quic-badcert", "cfg": {"seed": 260 + len(cases), "cert": kind, "verify": True,
                                                        "c_versions": [V2, V1], "s_versions": [V2, V1]}})
        cases.append({"suite": "quic-badcert", "cfg": {"seed": 270 + len(cases), "cert": kind, "verify": True,
                                                        "fates": _rand_fates(rng)}})
    return cases


# ======================================================================================================
# running
# ======================================================================================================
def _compact(obs):
    o = {k: v for k, v in obs.items() if k not in ("secrets_c", "secrets_s")}
    o["labels_c"] = sorted({r[0] for r in obs["secrets_c"]})
    o["labels_s"] = sorted({r[0] for r in obs["secrets_s"]})
    sc = {tuple(r) for r in obs["secrets_c"] if r[0] in MAIN_LABELS}
    ss = {tuple(r) for r in obs["secrets_s"] if r[0] in MAIN_LABELS}
    o["secrets_equal"] = bool(sc) and sc == ss
    return o


def _new_stats():
    return {"cases": 0, "violations": 0, "skipped": 0, "both_complete": 0, "neither_complete": 0,
            "client_only": 0, "server_only": 0, "outcomes": {}, "versions": {}, "wall_s": 0.0}


def _bump(d, k, n=1):
    d[k] = d.get(k, 0) + n


def _run_suite(ctx, name, cases, stats, keep):
    t0 = time.time()
    reported = 0
    for case in cases:
        if case.get("probe_failed"):
            stats["cases"] += 1
            stats["violations"] += 1
            if reported < MAX_REPORT:
                reported += 1
                ctx.violation("impl-violation", "%s: probe run of a healthy configuration did not complete" % name,
                              {"suite": "quic-matrix", "cfg": case["cfg"]},
                              signature={"suite": name, "kind": "honest-run-failed"})
            continue
        obs = q_handshake(case["cfg"], case.get("tamper"))
        res = q_oracle(case, obs)
        stats["cases"] += 1
        cc, sc = obs["client_complete"], obs["server_complete"]
        _bump(stats, "both_complete" if cc and sc else "neither_complete" if not (cc or sc)
              else "client_only" if cc else "server_only")
        _bump(stats["outcomes"], _outcome(obs))
        if cc and sc:
            _bump(stats["versions"], "%#x" % (obs["client_version"] or 0))
        _account(name, case, obs, stats)
        keep.append([case, _compact(obs)])
        if res is not None:
            stats["violations"] += 1
            if reported < MAX_REPORT:
                reported += 1
                ctx.violation("impl-violation", "%s: %s" % (case.get("suite", name), res[0]), case, signature=res[1])
    stats["wall_s"] = round(time.time() - t0, 2)
    return stats


def _account(name, case, obs, stats):
    cfg = case["cfg"]
    tamper = case.get("tamper")
    if tamper is not None:
        key = "%s:%s" % (tamper["dir"], MSG_NAMES.get(tamper["msg"], tamper["msg"]))
        if obs.get("tamper_applied"):
            _bump(stats.setdefault("positions", {}), key)
            _bump(stats.setdefault("masks", {}), "%#04x" % tamper["mask"])
            t = obs["client_term"] if tamper["dir"] == "s2c" else obs["server_term"]
            _bump(stats.setdefault("receiver_outcomes", {}),
                  "term%#x" % t["error_code"] if t is not None else "timeout-no-completion")
        else:
            stats["skipped"] += 1
            _bump(stats.setdefault("skipped_why", {}),
                  "out-of-range" if obs.get("tamper_out_of_range") else "leaked" if obs.get("tamper_leaked")
                  else "error" if obs.get("error") else "message-absent")
        return
    if cfg.get("mitm"):
        k = cfg["mitm"]["kind"]
        _bump(stats.setdefault("tp_kinds", {}), k)
        reached = any(r[0] == "SERVER_HANDSHAKE_TRAFFIC_SECRET" for r in obs["secrets_c"])
        _bump(stats.setdefault("tp_effective", {}), "%s:%s" % (k, "client-got-handshake-keys" if reached else
                                                              "stopped-before-handshake-keys"))
        t = obs["client_term"]
        _bump(stats.setdefault("tp_client_outcomes", {}), "%s:%s" % (k, "complete" if obs["client_complete"] else
                                                                    ("term%#x" % t["error_code"] if t else "timeout")))
        if not obs.get("rewritten"):
            stats["skipped"] += 1
        return
    exp = _expect(cfg)
    healthy = exp["possible"] and cfg.get("cert") not in BAD_KINDS and not cfg.get("c_cert")
    if healthy and not (obs["client_complete"] and obs["server_complete"]):
        _bump(stats, "unexpected_no_completion")
    if not exp["possible"]:
        _bump(stats, "no_common_option_cases")
    if cfg.get("fates"):
        _bump(stats, "lossy_cases")
        if obs["client_complete"] and obs["server_complete"]:
            _bump(stats, "lossy_both_complete")
    if obs["client_complete"] and obs["server_complete"]:
        hc = obs["client_hc"]
        if hc["resumed"]:
            _bump(stats, "resumed")
        if hc["early"]:
            _bump(stats, "early_accepted")
        _bump(stats.setdefault("suites", {}), "%#x" % (obs["suite_s"] or 0))
        _bump(stats.setdefault("alpn", {}), str(hc["alpn"]))
        _bump(stats.setdefault("certs", {}), str(cfg.get("cert", "ed25519")))
        if "retry" in obs.get("listener", []):
            _bump(stats, "with_retry")
        if "version_negotiation" in obs.get("listener", []):
            _bump(stats, "with_version_negotiation")
        orig = cfg.get("c_original_version") or (cfg.get("c_versions") or [V1])[0]
        if obs["client_version"] != orig and "version_negotiation" not in obs.get("listener", []):
            _bump(stats, "compatible_version_change")
        if cfg.get("reqcert"):
            _bump(stats, "with_client_certificate")
    if cfg.get("c_cert"):
        t = obs["server_term"]
        _bump(stats.setdefault("badcert_server", {}), "client-%s:%s" % (
            cfg["c_cert"], "complete" if obs["server_complete"] else ("term%#x" % t["error_code"] if t else "timeout")))
    if cfg.get("cert") in BAD_KINDS:
        t = obs["client_term"]
        _bump(stats.setdefault("badcert_client", {}), "%s/verify=%s:%s" % (
            cfg["cert"], cfg.get("verify", True),
            "complete" if obs["client_complete"] else ("term%#x" % t["error_code"] if t else "timeout")))


def q_run(ctx):
    rng = random.Random(ctx.rng.getrandbits(64))
    tier = ctx.tier
    keep = []
    out = {}
    t0 = time.time()
    tcases = q_tamper_cases(random.Random(rng.getrandbits(64)), tier)
    st = _new_stats()
    st["generation_wall_s"] = round(time.time() - t0, 2)
    _run_suite(ctx, "quic-tamper", [c for c in tcases if c["suite"] == "quic-tamper"], st, keep)
    out["quic_tamper"] = st
    st = _new_stats()
    _run_suite(ctx, "quic-tp", [c for c in tcases if c["suite"] == "quic-tp"], st, keep)
    out["quic_tp"] = st
    st = _new_stats()
    _run_suite(ctx, "quic-matrix", q_matrix_cases(random.Random(rng.getrandbits(64)), tier), st, keep)
    out["quic_matrix"] = st
    st = _new_stats()
    _run_suite(ctx, "quic-badcert", q_badcert_cases(random.Random(rng.getrandbits(64)), tier), st, keep)
    out["quic_badcert"] = st
    out["_obs"] = keep
    return out


def q_replay(ctx, case):
    obs = q_handshake(case.get("cfg") or {}, case.get("tamper"))
    res = q_oracle(case, obs)
    return {"case": case, "obs": json.loads(json.dumps(obs, default=str)),
            "oracle": None if res is None else [res[0], res[1]]}
