"""C14  HTTP/3 events are independent of chunking and survive a round trip.

Tie: correspondence of coq/model/H3Parse.v (extracted, exec_h3) against the real H3Connection over a stub
transport, QPACK / header-validation answers recorded from the real run and handed to the model.
Implementation oracles (independent of the model): (1) normalised per-stream events of a chunked /
interleaved delivery equal those of whole delivery on a fresh connection; (2) two real H3Connections back to
back: what send_headers/send_data/send_push_promise submit arrives unchanged and in order."""
import json

from vlib import core, corr
from props import h3common as hc

DEPENDS = ["H3Parse", "H3Chunk", "Base", "Tok", "C14"]
TRUSTED_BASE = [
    "extraction (ExtrOcamlBasic only; Z kept inductive) + coq/extract/driver.ml for running the model",
    "correspondence harness harness/props/c14.py + h3common.py + harness/vlib/corr.py (decides what 'agree' means)",
    "pylsqpack (QPACK) and validate_*_headers are oracles: their answers are recorded per call on the real run "
    "(keyed by their arguments) and replayed to the model",
    "modelled, not verified: aioquic/h3/connection.py receive path (model/H3Parse.v) and sending API (model/H3Send.v, "
    "tied by the h3send correspondence) as Gallina functions; logging and the transport are outside the models (the "
    "two-endpoint exchange is additionally checked on the implementation)",
    "model deviation: stream.frame_type is not written when only the first varint of a frame header is available "
    "(unobservable, see docs/C14.md)",
]
ASSUMPTIONS = [
    "chunking_independent: one request/push stream, FIN only with the last chunk, the QPACK/validation oracle is the "
    "same function for every delivery of the stream (no encoder-stream data interleaved), the stream is not in "
    "WebTransport/blocked state initially; stated for the code with docs/C14-fix-1.patch and C14-fix-2.patch applied",
    "the normal form compared is: headers, push promises, body bytes (adjacent data events merged, empty ones dropped) "
    "and one end-of-stream marker per stream",
    "chunking_independent_uni*, chunking_independent_uni_connection_level: hypotheses on pylsqpack ds_seq / enc_seq "
    "(feeding x ++ y to the decoder / encoder stream = feeding x, then y), FIN only off the control stream, the decoder "
    "never reports the stream being delivered itself as unblocked; stream invariant uinv / stream_ok (true of a new "
    "stream, kept by every delivery)",
    "interleaving_independent_headers / _push_promise: stated for the code with C14-fix-1..3 (all in /repo); the blocked "
    "frame is the first thing of its delivery on a stream that is new or between two frames; one blocked stream, one "
    "encoder-stream delivery; the decoder is deterministic in its input history: resume_header after the encoder data "
    "arrived returns what feed_header returns once the data is known (o_resume = o_dec), and that is not StreamBlocked",
    "h3_roundtrip: decode(encode h) = h for the QPACK pair fed in order (o_dec O sid (blk h) = DHeaders h), the header "
    "lists are valid for the receiving role, a content-length header states the body length, sizes below 2^62; sender: a "
    "stream nothing was sent on yet whose receiving side has not ended (model/H3Send.v scope)",
    "interleaving_independent_streams / interleaving_projection: bidirectional streams only, one oracle for the whole "
    "schedule (no encoder-stream delivery inside it), connection not closed, no stream ended locally (nothing is popped)",
]


# ------------------------------------------------------------------------------------------ suite plumbing
_CACHE = {}


def _key(case):
    return json.dumps(case, sort_keys=True)


def _run(case):
    k = _key(case)
    r = _CACHE.get(k)
    if r is None:
        if len(_CACHE) > 20000:
            _CACHE.clear()
        r = _CACHE[k] = hc.run_impl(case)
    return r


def impl(case):
    return _run(case).out


def encode(case):
    fixes, _ = hc.detect()
    return hc.encode_case(case, _run(case).tables, fixes)


def classify(sid, data, fin, client, want_push=False):
    """Which documented end-of-stream defect class (if any) the byte string of a stream falls in."""
    body = data
    if sid % 4 >= 2:                      # unidirectional: only push streams carry frames
        if not body or body[0] != 1:
            return None
        _, t = hc.scan_request_stream(b"")  # noqa
        # strip stream type and push id
        p = 1
        if p >= len(body):
            return None
        n = 1 << (body[p] >> 6)
        if p + n > len(body):
            return None
        body = body[p + n:]
    types, trunc = hc.scan_request_stream(body)
    if client and 5 in types and want_push:
        return "push-promise-blocked"
    if not fin:
        return None
    if trunc is not None:
        return "fin-inside-data-frame" if trunc == 0 else "fin-inside-frame"
    if types and types[-1] not in (0, 1, 0x41):
        return "fin-after-unmarked-frame"
    return None


STATS = {"chunk_compared": 0, "chunk_known_defect": 0, "chunk_closed": 0, "whole_runs": 0}


def chunk_oracle(case):
    """Property, on the implementation only: events of this delivery == events of whole delivery."""
    streams, order = hc.streams_of(case)
    client = case["client"]
    crit = [s for s in order if s % 4 >= 2 and streams[s][0][:1] in (b"\x00", b"\x02", b"\x03")]
    canon = crit + [s for s in order if s not in crit]
    whole = {"client": client, "dgram": case.get("dgram", True),
             "ops": [["s", s, streams[s][0].hex(), int(streams[s][1])] for s in canon]
                    + [op for op in case["ops"] if op[0] != "s"]}
    a = _run(case)
    b = _run(whole)
    STATS["chunk_compared"] += 1
    known = [s["defect"] for s in hc.known_signatures("C14")]
    if a.exn is not None or b.exn is not None:
        return None           # C16's subject
    message_streams = [s for s in order if s not in crit]
    if a.closes or b.closes:
        STATS["chunk_closed"] += 1
        if bool(a.closes) != bool(b.closes):
            # an end-of-stream defect can turn into a content-length error on one side only
            cls = [classify(s, streams[s][0], streams[s][1], client) for s in message_streams]
            cls += [classify(s, streams[s][0], streams[s][1], client, True) for s in message_streams]
            if any(c in known for c in cls):
                STATS["chunk_known_defect"] += 1
                return None
            return ("connection closed (%s) under one delivery but not (%s) under whole delivery of the same bytes"
                    % (a.closes, b.closes), {"defect": "close-depends-on-chunking"})
        if len(order) == 1 and int(a.closes[0]) != int(b.closes[0]):
            return ("close code %s under chunked delivery, %s under whole delivery" % (a.closes[0], b.closes[0]),
                    {"defect": "close-code-depends-on-chunking"})
        return None
    na = hc.normalise([e for evs in a.events for e in evs])
    nb = hc.normalise([e for evs in b.events for e in evs])
    for sid in sorted(set(na) | set(nb)):
        if na.get(sid) != nb.get(sid):
            c = classify(sid, streams[sid][0], streams[sid][1], client) if sid in streams else None
            if c in known or (sid in streams and classify(sid, streams[sid][0], streams[sid][1], client, True) in known):
                STATS["chunk_known_defect"] += 1
                continue
            return ("stream %d: normalised events differ between this delivery and whole delivery: %r vs %r"
                    % (sid, _brief(na.get(sid)), _brief(nb.get(sid))),
                    {"defect": c or "events-depend-on-chunking"})
    return None


def _brief(items):
    if items is None:
        return None
    out = []
    for it in items:
        if it[0] in ("D", "W"):
            out.append((it[0], it[1], len(it[2])))
        elif it[0] in ("H", "P"):
            out.append((it[0], it[1], len(it[2])))
        else:
            out.append(it)
    return out


def suite(ctx):
    return corr.Suite(ctx, "h3chunk", "exec_h3", encode, impl, chunk_oracle,
                      ops=lambda c: c["ops"], rebuild=lambda c, ops: dict(c, ops=ops),
                      nontrivial=lambda c, out: len(c["ops"]) >= 2 and len(out) > 12,
                      opname=lambda o: o[0] + ("+fin" if o[0] == "s" and o[3] else ""),
                      simplify=hc.simplify_op)


# ------------------------------------------------------------------------------------------ exhaustive splittings
def short_streams(rng, maxlen):
    """(client, sid, prefix ops, stream bytes) of short streams whose framing-relevant part is <= maxlen bytes."""
    import pylsqpack
    resp = hc.frame(1, pylsqpack.Encoder().encode(0, hc.RESP)[1])                    # 5 bytes
    trl = hc.frame(1, pylsqpack.Encoder().encode(0, [(b"etag", b"")])[1])
    req = hc.frame(1, pylsqpack.Encoder().encode(0, hc.REQ)[1])
    S = []
    bodies = [
        resp, resp + hc.frame(0, b"ab"), resp + hc.frame(0, b"") + hc.frame(0, b"x"), resp + hc.frame(0, b"abc")[:-1],
        resp + hc.H("2100"), resp + hc.H("210141"), resp + hc.H("0105"), resp + hc.H("01"), resp + hc.H("4021"),
        resp + hc.frame(0, b"a") + trl, resp + hc.H("000561"), resp + hc.H("0500"), resp + hc.H("0200"),
        hc.frame(0, b"a"), hc.H("404101") + b"abc", hc.H("40410102"), resp + hc.H("40410061"), hc.H("c0"), b"",
        hc.H("00") + hc.H("8000000261") + b"b", resp + hc.H("0040026162"),
    ]
    for b in bodies:
        if len(b) <= maxlen:
            S.append((True, 0, [], b))
    # push stream (client side) and a server-side request
    for b in [hc.H("0103") + resp + hc.frame(0, b"ab"), hc.H("014003") + resp, hc.H("01")]:
        if len(b) <= maxlen:
            S.append((True, 15, [], b))
    # webtransport / unknown unidirectional streams
    for b in [hc.H("405404") + b"abc", hc.H("4054"), hc.H("21") + b"abcd"]:
        if len(b) <= maxlen:
            S.append((True, 15, [], b))
    S.append((False, 0, [], req[:maxlen]))
    if len(req) + 3 <= maxlen + 4:
        S.append((False, 0, [["s", 2, hc.control_prefix().hex(), 0]], req + hc.frame(0, b"z")))
    return S


def exhaustive_cases(rng, maxlen, lone):
    for client, sid, prefix, data in short_streams(rng, maxlen):
        for fin in (True, False):
            for lone_fin in ((False, True) if (fin and lone) else (False,)):
                for chunks in hc.splittings(data, fin, lone_fin):
                    yield {"client": client, "dgram": True,
                           "ops": prefix + [["s", sid, bytes(d).hex(), int(f)] for d, f in chunks]}


# ------------------------------------------------------------------------------------------ round trip
def roundtrip(ctx, n):
    """Two real H3Connections over stub transports.  Everything the sender hands to send_stream_data is delivered
    to the receiver in per-stream order under a random splitting / interleaving."""
    from aioquic.h3 import events as E
    rng = ctx.rng
    stats = {"exchanges": 0, "streams": 0, "known_defect": 0, "failures": 0, "bytes": 0, "push_promises": 0}
    known = [s["defect"] for s in hc.known_signatures("C14")]
    for it in range(n):
        hcl, qcl = hc.new_h3(True)
        hsv, qsv = hc.new_h3(False)
        submitted = {}

        def drain(q):
            out = [(sid, d, f) for sid, d, f in q.sent if sid != "dgram"]
            q.sent.clear()
            return out

        def deliver(h, wire, in_order):
            per = {}
            for sid, d, f in wire:
                acc = per.setdefault(sid, [b"", False])
                acc[0] += d
                acc[1] = acc[1] or f
            chunks = {sid: hc.split_random(rng, v[0], v[1]) for sid, v in per.items()}
            chunks = {sid: [c for c in ch if c[0] or c[1]] for sid, ch in chunks.items()}
            if in_order:
                crit = sorted(s for s in chunks if s % 4 >= 2)
                ops = hc.sequential(chunks, crit) + hc.interleave(rng, {s: c for s, c in chunks.items() if s not in crit})
            else:
                ops = hc.interleave(rng, chunks)
            evs = []
            for op in ops:
                evs += h.handle_event(hc.make_event(op))
            stats["bytes"] += sum(len(v[0]) for v in per.values())
            return evs

        # settings exchange first (as a real connection would), in order
        deliver(hsv, drain(qcl), True)
        deliver(hcl, drain(qsv), True)
        nreq = rng.choice([1, 2, 3])
        sids = []
        for i in range(nreq):
            sid = qcl.get_next_available_stream_id()
            sids.append(sid)
            hs = list(rng.choice(hc.HEADER_POOL_REQ[:4]))
            has_cl = any(k == b"content-length" for k, _ in hs)
            body = [hc.gen_body(rng) for _ in range(rng.choice([0, 1, 2, 3]))] if not has_cl else [b"12", b"345"]
            trailers = rng.choice([None, None, [(b"x-trailer", b"1")], [(b"x-custom", b"v" * 40)]])
            exp = [("H", None, tuple(hs))]
            if not body and trailers is None:
                hcl.send_headers(sid, hs, end_stream=True)
            else:
                hcl.send_headers(sid, hs)
                for j, b in enumerate(body):
                    last = j == len(body) - 1 and trailers is None
                    hcl.send_data(sid, b, end_stream=last)
                if trailers is not None:
                    hcl.send_headers(sid, trailers, end_stream=True)
            data = b"".join(body)
            if data:
                exp.append(("D", None, data))
            if trailers is not None:
                exp.append(("H", None, tuple(trailers)))
            exp.append(("END",))
            submitted[sid] = exp
        got = hc.normalise(deliver(hsv, drain(qcl), rng.random() < 0.5))
        stats["exchanges"] += 1
        bad = None
        for sid in sids:
            stats["streams"] += 1
            if got.get(sid) != submitted[sid]:
                bad = ("request stream %d: received %r, submitted %r" % (sid, _brief(got.get(sid)), _brief(submitted[sid])), sid)
        if qsv.closes or qcl.closes:
            bad = ("connection closed during a valid exchange: %r %r" % (qsv.closes, qcl.closes), -1)
        # responses (+ push) the other way
        if bad is None:
            deliver(hcl, drain(qsv), True)      # decoder-stream acknowledgements
            submitted = {}
            pushed = False
            for sid in sids:
                hs = list(rng.choice(hc.HEADER_POOL_RESP[:4]))
                has_cl = any(k == b"content-length" for k, _ in hs)
                body = [hc.gen_body(rng) for _ in range(rng.choice([0, 1, 2]))] if not has_cl else [b"abc"]
                exp = [("H", None, tuple(hs))]
                if rng.random() < 0.3:
                    try:
                        psid = hsv.send_push_promise(sid, list(hc.REQ))
                    except Exception:
                        psid = None
                    if psid is not None:
                        pushed = True
                        stats["push_promises"] += 1
                        pid = hsv._next_push_id - 1
                        exp = [("P", pid, tuple(hc.REQ))] + exp
                        hsv.send_headers(psid, [(b":status", b"200")])
                        hsv.send_data(psid, b"pushed", end_stream=True)
                        submitted[psid] = [("H", pid, ((b":status", b"200"),)), ("D", pid, b"pushed"), ("END",)]
                hsv.send_headers(sid, hs, end_stream=not body)
                for j, b in enumerate(body):
                    hsv.send_data(sid, b, end_stream=j == len(body) - 1)
                data = b"".join(body)
                if data:
                    exp.append(("D", None, data))
                exp.append(("END",))
                submitted[sid] = exp
            got = hc.normalise(deliver(hcl, drain(qsv), rng.random() < 0.5))
            for sid, exp in submitted.items():
                stats["streams"] += 1
                if got.get(sid) != exp:
                    bad = ("response/push stream %d: received %r, submitted %r" % (sid, _brief(got.get(sid)), _brief(exp)), sid)
            if qsv.closes or qcl.closes:
                bad = ("connection closed during a valid exchange: %r %r" % (qsv.closes, qcl.closes), -1)
            if bad and pushed and "push-promise-blocked" in known:
                stats["known_defect"] += 1
                bad = None
        if bad:
            stats["failures"] += 1
            if stats["failures"] <= 2:
                ctx.violation("impl-violation", "roundtrip: " + bad[0], {"suite": "roundtrip", "iteration": it, "seed": ctx.seed},
                              signature={"defect": "roundtrip"})
    return stats


# ------------------------------------------------------------------------------------------ sending API (model tie)
SEND_POOL = [hc.REQ, hc.RESP, [(b":status", b"200"), (b"content-length", b"3")], [(b"x-trailer", b"1")],
             [(b":method", b"POST"), (b":scheme", b"https"), (b":authority", b"a"), (b":path", b"/u"), (b"x-custom", b"v" * 40)], []]
SEND_EXN = {"FrameUnexpected": 1, "NoAvailablePushIDError": 2, "InvalidStreamTypeError": 3, "AssertionError": 4}


def send_run(case):
    """The real H3Connection's sending API over the stub transport.  Per call: the send_stream_data calls it made
    (stream id, data, end_stream), its return value, or the exception class; plus what Encoder.encode returned."""
    h, q = hc.new_h3(bool(case["client"]))
    if not case["client"]:
        h._max_push_id = case.get("max_push")
    q.sent.clear()
    enc_calls = []
    real_encode = h._encoder.encode

    class Enc:
        def __getattr__(self, name):
            return getattr(h_encoder, name)

        def encode(self, stream_id, headers):
            r = real_encode(stream_id, headers)
            enc_calls.append(r)
            return r
    h_encoder = h._encoder
    h._encoder = Enc()
    res = []
    for op in case["ops"]:
        enc_calls.clear()
        q.sent.clear()
        ret, exn = None, None
        try:
            if op[0] == "h":
                h.send_headers(op[1], list(SEND_POOL[op[2]]), end_stream=bool(op[3]))
            elif op[0] == "d":
                h.send_data(op[1], hc.H(op[2]), end_stream=bool(op[3]))
            else:
                ret = h.send_push_promise(op[1], list(SEND_POOL[op[2]]))
        except Exception as e:  # noqa
            exn = e
        res.append({"writes": list(q.sent), "ret": ret, "exn": exn,
                    "enc": tuple(enc_calls[0]) if enc_calls else (b"", b"")})
    return res


def send_impl(case):
    out = []
    for r in send_run(case):
        if r["exn"] is not None:
            out += [1, SEND_EXN.get(type(r["exn"]).__name__, 9)]
        else:
            out += [0, len(r["writes"])]
            for sid, d, f in r["writes"]:
                out += [sid, int(f), len(d)] + list(d)
            out += [0] if r["ret"] is None else [1, r["ret"]]
    return out


def send_encode(case):
    t = [int(case["client"])] + ([0] if case.get("max_push") is None or case["client"] else [1, case["max_push"]])
    if case["client"]:
        t = [1, 1, 8]          # a client starts with _max_push_id = 8 (irrelevant: it cannot send push promises)
    for op, r in zip(case["ops"], send_run(case)):
        e, b = r["enc"]
        if op[0] == "h":
            t += [0, op[1], int(op[3]), len(e)] + list(e) + [len(b)] + list(b)
        elif op[0] == "d":
            d = hc.H(op[2])
            t += [1, op[1], int(op[3]), len(d)] + list(d)
        else:
            t += [2, op[1], len(e)] + list(e) + [len(b)] + list(b)
    return t


def send_oracle(case):
    """On the implementation only: a call either raises one of the documented exception classes and writes nothing, or
    what it wrote on its stream is exactly one well-formed frame of the right type (independent frame scan), with the
    end_stream flag it was given."""
    want = {"h": 1, "d": 0, "p": 5}
    for op, r in zip(case["ops"], send_run(case)):
        if r["exn"] is not None:
            if type(r["exn"]).__name__ not in SEND_EXN:
                return ("sending API raised %s" % type(r["exn"]).__name__, {"defect": "send-exception"})
            if r["writes"]:
                return ("a call that raised had already written to the transport", {"defect": "send-partial-write"})
            continue
        mine = [(d, f) for sid, d, f in r["writes"] if sid == op[1]]
        if len(mine) != 1:
            return ("%d writes on the stream for one call" % len(mine), {"defect": "send-writes"})
        types, cut = hc.scan_request_stream(mine[0][0])
        if types != [want[op[0]]] or cut is not None:
            return ("call %r wrote frames %r (cut %r)" % (op[0], types, cut), {"defect": "send-frame"})
        if op[0] != "p" and bool(mine[0][1]) != bool(op[3]):
            return ("end_stream flag lost", {"defect": "send-fin"})
    return None


def send_gen(rng, n):
    out = []
    for _ in range(n):
        client = rng.random() < 0.5
        sids = [0, 4, 8] if rng.random() < 0.8 else [0, 4, 1, 2, 15]
        ops = []
        for _ in range(rng.choice([1, 2, 3, 4, 6, 9])):
            k = rng.choice(["h", "h", "d", "d", "d", "p"])
            sid = rng.choice(sids)
            if k == "h":
                ops.append(["h", sid, rng.randrange(len(SEND_POOL)), int(rng.random() < 0.3)])
            elif k == "d":
                ops.append(["d", sid, bytes(rng.getrandbits(8) for _ in range(rng.choice([0, 0, 1, 3, 70, 300]))).hex(),
                            int(rng.random() < 0.3)])
            else:
                ops.append(["p", sid, 0])
        # mostly well-formed messages: headers, body pieces, optional trailers
        if rng.random() < 0.5:
            sid = rng.choice([0, 4])
            body = [bytes(rng.getrandbits(8) for _ in range(rng.choice([0, 1, 5, 64, 200]))).hex()
                    for _ in range(rng.choice([0, 1, 2, 3]))]
            tr = rng.random() < 0.4
            ops = [["h", sid, rng.randrange(3), int(not body and not tr)]]
            ops += [["d", sid, b, int(i == len(body) - 1 and not tr)] for i, b in enumerate(body)]
            if tr:
                ops.append(["h", sid, 3, 1])
            if not client and rng.random() < 0.5:
                ops.insert(rng.randrange(len(ops) + 1), ["p", sid, 0])
        out.append({"client": client, "max_push": rng.choice([None, 0, 1, 2, 8]), "ops": ops})
    return out


def send_suite(ctx):
    return corr.Suite(ctx, "h3send", "exec_h3send", send_encode, send_impl, send_oracle,
                      ops=lambda c: c["ops"], rebuild=lambda c, ops: dict(c, ops=ops),
                      nontrivial=lambda c, out: len(out) > 4, opname=lambda o: o[0])


# ------------------------------------------------------------------------------------------ close-code witnesses
def close_code_witnesses():
    """Replays, on the implementation, the two theorems saying that the close CODE (never an event) can depend on the
    chunking: chunking_independent_uni_control_fin_refuted and chunking_independent_uni_connection_close_code_refuted.
    Both deliveries close the connection and return no event, so this is recorded, not reported."""
    enc = "023fe11fc0882f91d35d055c87a7c18562bb513964"     # encoder stream: capacity + three insertions
    bad = "3fe21f"                                         # Set Dynamic Table Capacity above the maximum
    hdr = "01060381d1d71011"                               # HEADERS referring to them (request pseudo-headers: refused)
    pairs = {
        "control-fin": ({"client": False, "dgram": True, "ops": [["s", 2, "000d0101", 1]]},
                        {"client": False, "dgram": True, "ops": [["s", 2, "000d0101", 0], ["s", 2, "", 1]]}),
        "encoder-unblock-then-garbage": (
            {"client": True, "dgram": True, "ops": [["s", 0, hdr, 0], ["s", 7, enc + bad, 0]]},
            {"client": True, "dgram": True, "ops": [["s", 0, hdr, 0], ["s", 7, enc, 0], ["s", 7, bad, 0]]}),
    }
    out = {}
    for name, (whole, split) in pairs.items():
        a, b = hc.run_impl(whole), hc.run_impl(split)
        out[name] = {"whole_close": [int(c) for c in a.closes], "split_close": [int(c) for c in b.closes],
                     "events": sum(len(e) for e in a.events) + sum(len(e) for e in b.events),
                     "exception": repr(a.exn or b.exn) if (a.exn or b.exn) else None}
    return out


# ------------------------------------------------------------------------------------------ driver
def run(ctx):
    _CACHE.clear()
    for k in STATS:
        STATS[k] = 0
    fixes, present = hc.detect(force=True)
    nprobe = hc.report_probes(ctx, "C14")
    s = suite(ctx)
    s.run(corr.load_corpus("C14", s.name), "corpus")
    rng = ctx.rng
    maxlen = 12 if ctx.thorough else 10
    ex = list(exhaustive_cases(rng, maxlen, lone=True))
    step = max(1, int(1 / max(ctx.budget_scale, 1e-9))) if ctx.budget_scale < 1 else 1
    s.run(ex[::step], "exhaustive")
    nex = len(ex[::step])
    # random connections: chunked + interleaved (with QPACK blocking), and in-order critical streams
    cases = []
    for i in range(ctx.n(2500, 40000)):
        cases.append(hc.gen_connection_case(rng, malformed=0.15 if i % 3 == 0 else 0.0, blocked=(i % 2 == 0))[0])
    s.run(cases, "random")
    rt = roundtrip(ctx, ctx.n(400, 6000))
    snd = send_suite(ctx)
    snd.run(corr.load_corpus("C14", snd.name), "corpus")
    snd.run(send_gen(rng, ctx.n(2500, 30000)), "random")
    cov = corr.merge_coverage(
        [s, snd],
        "exhaustive: all 2^(n-1) splittings (FIN on the last chunk, and as a chunk of its own) of %d-byte-or-shorter "
        "request / response / push / WebTransport / unknown streams; random: whole connections from the grammar "
        "(real pylsqpack encoder: static, literal, dynamic entries) randomly split and interleaved; distinct = distinct "
        "token encoding, non-trivial = at least two deliveries with events or state" % maxlen,
        {"exhaustive_splitting_cases": nex, "exhaustive_max_stream_len": maxlen, "roundtrip": rt,
         "chunk_oracle": dict(STATS), "close_code_witnesses": close_code_witnesses(), "model_fix_flags": fixes, "defects_present": [p["id"] for p in present],
         "probe_violations": nprobe})
    _CACHE.clear()
    return cov


def replay(ctx, rep):
    case = rep["case"]
    if isinstance(case, dict) and case.get("suite") == "probe":
        res = {}
        for name, c in (case["case"].items() if "whole" in case["case"] else [("case", case["case"])]):
            r = hc.run_impl(c)
            res[name] = {"impl_tokens": r.out, "normalised": repr(hc.normalise([e for evs in r.events for e in evs])),
                         "exception": repr(r.exn)}
        return res
    if isinstance(case, dict) and case.get("suite") == "roundtrip":
        return {"roundtrip": "re-run ./check C14 with VERIF_SEED=%s" % case.get("seed")}
    if isinstance(case, dict) and "max_push" in case:
        snd = send_suite(ctx)
        d, e, g = snd.disagree(case)
        return {"disagree": d, "impl": e, "model": g, "oracle": send_oracle(case)}
    s = suite(ctx)
    d, e, g = s.disagree(case)
    return {"disagree": d, "impl": e, "model": g, "oracle": chunk_oracle(case)}
