"""C05 tie for the TLS message layer: coq/model/TlsRecv.v (extracted, exec_tlsrecv) against real
aioquic.tls.Context objects.

A case = {"side", "variant", "state", "pre": [hex...], "data": hex}: a client/server Context pair is driven by
its own genuine flights to `state`, `pre` chunks are fed (they must leave the Context alive), then the abstract
state is read from the Context (private attributes -- trusted harness code), `data` is fed through
Context.handle_message and the outcome (ok / alert number / QuicConnectionError code / exception class) and the
resulting state are compared with the model run on the same bytes.

Oracle answers (one record per dispatched message) are RECORDED from the real run or recomputed independently:
  share    wrapper around tls.decode_public_key (AlertIllegalParameter -> 1) + an exchange with a fresh private key
           of the same type (ValueError -> 2)
  tp       the harness' alpn_cb (written after QuicConnection._alpn_handler: missing extension 0x39 ->
           CRYPTO_ERROR + missing_extension; parameters starting with 0xEE are "rejected" -> TRANSPORT_PARAMETER_ERROR)
  ticket   wrapper around the harness' get_session_ticket_cb
  binder   inferred from the real outcome (AlertHandshakeFailure "PSK validation failed")  [circular for that field]
  load     x509.load_der_x509_certificate on the entries cut out of the message by the harness' own reader
           (ValueError -> 0, x509.InvalidVersion -> 2; on a tree with fix-9 the model runs with patched = true for it: see `PATCHED`)
  pubkey   type of ctx._peer_certificate.public_key()
  sig      public_key.verify recomputed on the transcript snapshot taken before the message
  vcert    wrapper around tls.verify_certificate (alert class / escaping exception class)
  mac      verify_data compared with key_schedule.finished_verify_data / _expected_verify_data before the message
"""
import datetime
import os
import ssl

from vlib import core  # noqa: F401

EXN = {"AssertionError": 1, "IndexError": 2, "KeyError": 3, "UnicodeDecodeError": 4, "ValueError": 5, "TypeError": 6,
       "AttributeError": 7, "CertificateError": 8, "InvalidVersion": 10}

CLIENT_STATES = [1, 2, 3, 4, 5, 6, 7]
SERVER_STATES = [8, 9, 10, 11, 12]
STATE_NAMES = {0: "CLIENT_HANDSHAKE_START", 1: "CLIENT_EXPECT_SERVER_HELLO", 2: "CLIENT_EXPECT_ENCRYPTED_EXTENSIONS",
               3: "CLIENT_EXPECT_CERTIFICATE_REQUEST_OR_CERTIFICATE", 4: "CLIENT_EXPECT_CERTIFICATE",
               5: "CLIENT_EXPECT_CERTIFICATE_VERIFY", 6: "CLIENT_EXPECT_FINISHED", 7: "CLIENT_POST_HANDSHAKE",
               8: "SERVER_EXPECT_CLIENT_HELLO", 9: "SERVER_EXPECT_CERTIFICATE", 10: "SERVER_EXPECT_CERTIFICATE_VERIFY",
               11: "SERVER_EXPECT_FINISHED", 12: "SERVER_POST_HANDSHAKE"}

_CERTS = {}


def certs(kind):
    """(certificate, private key, PEM) self-signed for "localhost"; kind: ec | rsa | ed25519 | p384"""
    if kind in _CERTS:
        return _CERTS[kind]
    from cryptography import x509
    from cryptography.hazmat.primitives import hashes, serialization
    from cryptography.hazmat.primitives.asymmetric import ec, ed25519, rsa
    from cryptography.x509.oid import NameOID
    if kind == "rsa":
        key = rsa.generate_private_key(65537, 2048)
    elif kind == "ed25519":
        key = ed25519.Ed25519PrivateKey.generate()
    elif kind == "p384":
        key = ec.generate_private_key(ec.SECP384R1())
    else:
        key = ec.generate_private_key(ec.SECP256R1())
    name = x509.Name([x509.NameAttribute(NameOID.COMMON_NAME, "localhost")])
    now = datetime.datetime.now(datetime.timezone.utc)
    san = x509.SubjectAlternativeName([x509.DNSName("localhost")])
    if kind == "badsan":        # T8: the extension's DER does not parse
        san = x509.UnrecognizedExtension(x509.ObjectIdentifier("2.5.29.17"), b"\x01\x02\x03")
    elif kind == "wildcard":    # T9: a dNSName service_identity rejects as a pattern
        san = x509.SubjectAlternativeName([x509.DNSName("*.com")])
    elif kind == "othername":
        san = x509.SubjectAlternativeName([x509.DNSName("example.org")])
    elif kind == "expired":
        now = now - datetime.timedelta(days=400)
    cert = (x509.CertificateBuilder().subject_name(name).issuer_name(name).public_key(key.public_key())
            .serial_number(7).not_valid_before(now - datetime.timedelta(days=2))
            .not_valid_after(now + datetime.timedelta(days=30))
            .add_extension(san, critical=False)
            .add_extension(x509.BasicConstraints(ca=True, path_length=None), critical=True)
            .sign(key, None if kind == "ed25519" else hashes.SHA256()))
    _CERTS[kind] = (cert, key, cert.public_bytes(serialization.Encoding.PEM))
    return _CERTS[kind]


class World:
    """A client and a server tls.Context with harness callbacks; `subject` is the one under test."""

    def __init__(self, side, variant):
        from aioquic import tls
        from aioquic.buffer import Buffer
        self.tls = tls
        self.side, self.variant = side, variant
        v = set(variant.split("+")) if variant else set()
        ckind = "ec"
        for k in ("rsa", "ed25519", "p384", "badsan", "wildcard", "othername", "expired"):
            if k in v:
                ckind = k
        cert, key, pem = certs(ckind)
        if "untrusted" in v:
            pem = certs("p384")[2]
        self.client = tls.Context(is_client=True, alpn_protocols=["hq-interop", "h3"], cadata=pem, server_name="localhost",
                                  verify_mode=ssl.CERT_NONE if "noverify" in v else None)
        self.server = tls.Context(is_client=False, alpn_protocols=None if "noalpn" in v else ["h3", "hq-interop"])
        self.server.certificate, self.server.certificate_private_key = cert, key
        self.client.handshake_extensions = [(0x39, b"\x01\x02client")]
        self.server.handshake_extensions = [(0x39, b"\x01\x02server")]
        if "reqcert" in v:
            self.server._request_client_certificate = True
            ccert, ckey, _ = certs("ec" if ckind != "ec" else "p384")
            if "nocert" not in v:
                self.client.certificate, self.client.certificate_private_key = ccert, ckey
        self.rec = {}           # filled by the callbacks during one handle_message call
        self.tickets = {}
        for ctx in (self.client, self.server):
            ctx.alpn_cb = self._alpn_cb(ctx)
        if "tickets" in v or "psk" in v:
            self.client.new_session_ticket_cb = self._ticket_cb
            self.server.new_session_ticket_cb = lambda t: self.tickets.__setitem__(t.ticket, t)
            self.server.get_session_ticket_cb = self._fetch
        if "psk" in v:
            # a previous session provides the ticket
            prev = World(side, "tickets" + ("+rsa" if "rsa" in v else ""))
            prev.run_all()
            t = prev.client_tickets[0] if prev.client_tickets else None
            self.client.session_ticket = t
            self.tickets.update(prev.tickets)
        self.client_tickets = []
        if "tickets" in v:
            self.client.new_session_ticket_cb = self._ticket_cb
        self.bufs = {c: {e: Buffer(capacity=8192) for e in tls.Epoch} for c in ("client", "server")}
        self.flights = {"client": [], "server": []}     # genuine messages produced so far, per sender
        self.subject = self.client if side == "client" else self.server

    def _ticket_cb(self, ticket):
        # written after QuicConnection._handle_session_ticket
        from aioquic.quic.connection import QuicConnectionError
        if ticket.max_early_data_size is not None and ticket.max_early_data_size != 0xFFFFFFFF:
            raise QuicConnectionError(error_code=10, frame_type=6, reason_phrase="Invalid max_early_data value")
        self.client_tickets.append(ticket)

    def _fetch(self, label):
        t = self.tickets.get(label)
        self.rec["ticket"] = int(t.cipher_suite) if (t is not None and t.is_valid) else -1
        return t

    def _alpn_cb(self, ctx):
        from aioquic.quic.connection import QuicConnectionError

        def cb(alpn):
            for ty, data in ctx.received_extensions:
                if ty == 0x39:
                    if data[:1] == b"\xee":
                        self.rec["tp"] = (8, 6)
                        raise QuicConnectionError(error_code=8, frame_type=6, reason_phrase="rejected by the harness")
                    break
            else:
                raise QuicConnectionError(error_code=0x100 + 109, frame_type=6, reason_phrase="No QUIC transport parameters received")
        return cb

    def _drain(self, who):
        out = []
        for e, b in self.bufs[who].items():
            if b.tell():
                data = b.data
                b.seek(0)
                while len(data) >= 4:
                    n = 4 + int.from_bytes(data[1:4], "big")
                    out.append(data[:n])
                    data = data[n:]
        self.flights[who] += out
        return out

    def feed(self, who, data):
        ctx = self.client if who == "client" else self.server
        ctx.handle_message(data, self.bufs[who])
        return self._drain(who)

    def _script(self):
        """a genuine handshake as a queue of (receiver, message) deliveries"""
        if not hasattr(self, "queue"):
            self.queue = [("server", m) for m in self.feed("client", b"")]
        return self.queue

    def advance_to(self, side, state, finish=False):
        """Run the genuine handshake; stop before the first delivery to `side` made while it is in `state`
        (deliveries to the peer are performed freely).  The undelivered messages for `side` stay in self.pending."""
        subj = self.client if side == "client" else self.server
        q = self._script()
        while q:
            who, m = q[0]
            if who == side and subj.state.value == state and not finish:
                break
            q.pop(0)
            other = "server" if who == "client" else "client"
            q += [(other, x) for x in self.feed(who, m)]
        self.pending = [m for who, m in q if who == side]
        if not finish and subj.state.value != state:
            raise RuntimeError("%s state %s not reached (%s)" % (side, state, subj.state))

    def run_all(self):
        self.advance_to("client", -1, finish=True)


# ------------------------------------------------------------------------------------------------
MISSING = -1
PEEK_MISSES = {}
_PEEK_EXC = (KeyError, AttributeError, IndexError, TypeError, ValueError)


def _peek(f, default=MISSING, label="tls"):
    """labelled peek at private state of a tls.Context: f() or the distinguished token (never raises)"""
    try:
        return f()
    except _PEEK_EXC:
        PEEK_MISSES[label] = PEEK_MISSES.get(label, 0) + 1
        return default


def _ks_generation(ctx):
    if ctx.key_schedule is not None:
        return ctx.key_schedule.generation
    for holder in (ctx._key_schedule_proxy, ):
        if holder is not None:
            for k in holder._KeyScheduleProxy__schedules.values():
                return k.generation
    if ctx._key_schedule_psk is not None:
        return ctx._key_schedule_psk.generation
    return -1


def _lst(xs):
    xs = [int(x) for x in xs]
    return [len(xs)] + xs


def _plst(f, label):
    """[len] + items, or [MISSING] when the list cannot be read"""
    return _peek(lambda: _lst(f()), [MISSING], label)


def _opt(x):
    return [0] if x is None else [1, int(x)]


def snapshot(ctx):
    """cfg + ctx tokens of exec_tlsrecv -- a labelled peek at the Context's private attributes; what cannot be read becomes
    the token MISSING (a list: length MISSING), so a changed layout is a model/impl disagreement, never an abort"""
    from aioquic import tls
    t = []
    t += _plst(lambda: ctx._cipher_suites, "_cipher_suites")
    t += _plst(lambda: ctx._signature_algorithms, "_signature_algorithms")
    alpn = _peek(lambda: ctx._alpn_protocols, MISSING, "_alpn_protocols")
    if alpn is None:
        t += [0]
    elif alpn == MISSING:
        t += [MISSING]
    else:
        t += [1, len(alpn)]
        for a in alpn:
            t += _plst(lambda: a.encode("ascii"), "_alpn_protocols")
    t += _plst(lambda: ctx._signature_algorithms_for_private_key(), "_signature_algorithms_for_private_key")
    is_client = _peek(lambda: bool(ctx._is_client), False, "_is_client")

    def _psk():
        if is_client and ctx.session_ticket is not None and ctx.session_ticket.is_valid:
            return int(ctx.session_ticket.cipher_suite)
        return None
    psk = _peek(_psk, None, "session_ticket")
    t += [_peek(lambda: int(ctx._verify_mode != ssl.CERT_NONE), MISSING, "_verify_mode"),
          _peek(lambda: int(bool(ctx._request_client_certificate)), MISSING, "_request_client_certificate"),
          _peek(lambda: int(ctx.alpn_cb is not None), MISSING, "alpn_cb"),
          _peek(lambda: int(ctx.get_session_ticket_cb is not None), MISSING, "get_session_ticket_cb"),
          _peek(lambda: int(ctx.new_session_ticket_cb is not None), MISSING, "new_session_ticket_cb"),
          _peek(lambda: int(ctx._x25519_private_key is not None), MISSING, "_x25519_private_key"),
          _peek(lambda: int(ctx._x448_private_key is not None), MISSING, "_x448_private_key")]
    t += _plst(lambda: [int(tls.CURVE_TO_GROUP[k.curve.__class__]) for k in ctx._ec_private_keys], "_ec_private_keys") \
        if is_client else [0]
    t += _opt(psk)
    t += [_peek(lambda: ctx.state.value, MISSING, "state")]
    t += _plst(lambda: ctx._receive_buffer, "_receive_buffer")
    t += [_peek(lambda: int(ctx._session_resumed), MISSING, "_session_resumed")]
    t += _peek(lambda: _opt(ctx._key_schedule_psk.cipher_suite if ctx._key_schedule_psk is not None else None), [MISSING],
               "_key_schedule_psk")
    t += [_peek(lambda: int(ctx._key_schedule_proxy is not None), MISSING, "_key_schedule_proxy"),
          _peek(lambda: _ks_generation(ctx), MISSING, "key_schedule"),
          _peek(lambda: int(ctx._peer_certificate is not None), MISSING, "_peer_certificate")]
    return t


def _exchange_ok(pk):
    from cryptography.hazmat.primitives.asymmetric import ec, x448, x25519
    try:
        if isinstance(pk, x25519.X25519PublicKey):
            x25519.X25519PrivateKey.generate().exchange(pk)
        elif isinstance(pk, x448.X448PublicKey):
            x448.X448PrivateKey.generate().exchange(pk)
        elif isinstance(pk, ec.EllipticCurvePublicKey):
            ec.generate_private_key(pk.curve).exchange(ec.ECDH(), pk)
    except ValueError:
        return False
    return True


def _cut_certificates(msg):
    """DER blobs of a Certificate message, read by the harness (None if it is not well-formed enough)"""
    try:
        p = 4
        n = msg[p]
        p += 1 + n
        total = int.from_bytes(msg[p:p + 3], "big")
        p += 3
        end = p + total
        out = []
        while p < end:
            n = int.from_bytes(msg[p:p + 3], "big")
            out.append(bytes(msg[p + 3:p + 3 + n]))
            p += 3 + n
            n = int.from_bytes(msg[p:p + 2], "big")
            p += 2 + n
        return out
    except Exception:
        return None


class Recorder:
    """Wraps the hooks of ONE tls.Context (handle_message, _handle_reassembled_message, alpn_cb, get_session_ticket_cb) and
    the module functions tls.decode_public_key / tls.verify_certificate while installed; records, per handle_message call, one
    oracle record per dispatched message (`calls`: list of lists).  Used for the harness' own Contexts (run_real) and for the
    tls.Context inside a real QuicConnection (frames suite of c05.py: the transport-parameter verdict then comes from the real
    QuicConnection._alpn_handler)."""

    def __init__(self, tls, ctx, holder=None, wrap_callbacks=False):
        self.tls, self.ctx = tls, ctx
        self.holder = holder            # object whose .rec the harness callbacks fill (World); else self
        self.calls = []
        self.records = []
        self.rec = {}
        self.wrap_callbacks = wrap_callbacks

    def _cur(self):
        return self.holder.rec if self.holder is not None else self.rec

    def _new_record(self, message_type, input_buf):
        from cryptography import x509
        from cryptography.exceptions import InvalidSignature, UnsupportedAlgorithm
        from cryptography.hazmat.primitives.asymmetric import ec, ed448, ed25519, rsa
        tls, ctx = self.tls, self.ctx
        r = {"share": [], "tp": (0, 0), "ticket": -1, "binder": 1, "load": 1, "pubkey": 1, "sig": 1, "vcert": 0, "mac": 1}
        if self.holder is not None:
            self.holder.rec = r
        self.rec = r
        self.records.append(r)
        # this runs INSIDE the implementation's call (wrapper around _handle_reassembled_message): nothing here may raise
        msg = _peek(lambda: bytes(input_buf.data_slice(0, input_buf.capacity)), b"", "input_buf")
        st = _peek(lambda: ctx.state.value, MISSING, "state")
        try:
            if message_type == 20 and st == 6:
                r["mac"] = int(msg[4:] == ctx.key_schedule.finished_verify_data(ctx._dec_key))
            elif message_type == 20 and st == 11:
                r["mac"] = int(msg[4:] == ctx._expected_verify_data)
            if message_type == 11 and st in (3, 4, 9):
                ders = _cut_certificates(msg)
                if ders:
                    for d in ders:
                        try:
                            x509.load_der_x509_certificate(d)
                        except ValueError:
                            r["load"] = 0
                            break
                        except x509.InvalidVersion:
                            r["load"] = 2
                            break
            if message_type == 15 and st in (5, 10) and ctx._peer_certificate is not None and len(msg) >= 8:
                alg = int.from_bytes(msg[4:6], "big")
                sig = msg[8:8 + int.from_bytes(msg[6:8], "big")]
                try:
                    pk = ctx._peer_certificate.public_key()
                except (ValueError, UnsupportedAlgorithm):
                    pk = None
                r["pubkey"] = (0 if pk is None else 1 if isinstance(pk, ed25519.Ed25519PublicKey)
                               else 2 if isinstance(pk, ed448.Ed448PublicKey) else 3 if isinstance(pk, ec.EllipticCurvePublicKey)
                               else 4 if isinstance(pk, rsa.RSAPublicKey) else 5)
                want = (1 if alg == 0x0807 else 2 if alg == 0x0808 else
                        3 if alg in (0x0403, 0x0503, 0x0603) else 4)
                if pk is not None and alg in ctx._signature_algorithms and want == r["pubkey"]:
                    try:
                        pk.verify(sig, ctx.key_schedule.certificate_verify_data(
                            tls.SERVER_CONTEXT_STRING if ctx._is_client else tls.CLIENT_CONTEXT_STRING),
                            *tls.signature_algorithm_params(alg))
                    except (InvalidSignature, ValueError):
                        r["sig"] = 0
        except Exception:
            pass

    def install(self):
        tls, ctx = self.tls, self.ctx
        self.real_dispatch = real_dispatch = ctx._handle_reassembled_message
        self.real_decode = real_decode = tls.decode_public_key
        self.real_verify = real_verify = tls.verify_certificate
        real_handle = ctx.handle_message
        me = self

        def dispatch(message_type, input_buf, output_buf):
            me._new_record(message_type, input_buf)
            return real_dispatch(message_type=message_type, input_buf=input_buf, output_buf=output_buf)

        def decode(key_share):
            try:
                pk = real_decode(key_share)
            except tls.AlertIllegalParameter:
                me._cur().setdefault("share", []).append(1)
                raise
            me._cur().setdefault("share", []).append(0 if (pk is None or _exchange_ok(pk)) else 2)
            return pk

        def verify(**kw):
            try:
                real_verify(**kw)
            except tls.AlertCertificateExpired:
                me._cur()["vcert"] = 1
                raise
            except tls.AlertBadCertificate:
                me._cur()["vcert"] = 2
                raise
            except Exception as e:
                me._cur()["vcert"] = 5 if type(e).__name__ == "CertificateError" else 4
                raise

        def handle(data, output_buf):
            me.records = []
            me.calls.append(me.records)
            try:
                return real_handle(data, output_buf)
            except tls.AlertHandshakeFailure as e:
                if "PSK validation failed" in str(e) and me.records:
                    me.records[-1]["binder"] = 0
                raise

        ctx._handle_reassembled_message = dispatch
        ctx.handle_message = handle
        tls.decode_public_key = decode
        tls.verify_certificate = verify
        self._cbs = None
        if self.wrap_callbacks:
            from aioquic.quic.connection import QuicConnectionError
            real_alpn, real_fetch = ctx.alpn_cb, ctx.get_session_ticket_cb
            self._cbs = (real_alpn, real_fetch)

            def alpn(proto):
                try:
                    return real_alpn(proto)
                except QuicConnectionError as e:
                    # `No QUIC transport parameters received` is decided by the model itself (for/else); every other
                    # QuicConnectionError is the verdict on the parameters
                    if int(e.error_code) != 0x100 + 109:
                        me._cur()["tp"] = (int(e.error_code), -1 if e.frame_type is None else int(e.frame_type))
                    raise
            if real_alpn is not None:
                ctx.alpn_cb = alpn
            if real_fetch is not None:
                def fetch(label):
                    t = real_fetch(label)
                    me._cur()["ticket"] = int(t.cipher_suite) if (t is not None and t.is_valid) else -1
                    return t
                ctx.get_session_ticket_cb = fetch
        return self

    def uninstall(self):
        tls, ctx = self.tls, self.ctx
        for name in ("_handle_reassembled_message", "handle_message"):
            if name in ctx.__dict__:
                del ctx.__dict__[name]
        tls.decode_public_key = self.real_decode
        tls.verify_certificate = self.real_verify
        if self._cbs is not None:
            ctx.alpn_cb, ctx.get_session_ticket_cb = self._cbs


class ClassRecorder(Recorder):
    """The same recording for WHATEVER tls.Context a QuicConnection uses during one receive_datagram() call -- including one
    created inside the call by _initialize() (server first flight, Retry, Version Negotiation): the hooks are installed on the
    tls.Context class and on the connection's callbacks (_alpn_handler, _session_ticket_fetcher)."""

    def __init__(self, tls, conn):
        super().__init__(tls, None)
        self.conn = conn

    def install(self):
        from aioquic.quic.connection import QuicConnectionError
        tls, me, conn = self.tls, self, self.conn
        C = tls.Context
        real_handle, real_dispatch = C.handle_message, C._handle_reassembled_message
        self.real_decode = real_decode = tls.decode_public_key
        self.real_verify = real_verify = tls.verify_certificate
        self._class = (real_handle, real_dispatch)

        def handle(ctx, data, output_buf):
            me.ctx = ctx
            me.records = []
            me.calls.append(me.records)
            try:
                return real_handle(ctx, data, output_buf)
            except tls.AlertHandshakeFailure as e:
                if "PSK validation failed" in str(e) and me.records:
                    me.records[-1]["binder"] = 0
                raise

        def dispatch(ctx, message_type, input_buf, output_buf):
            me.ctx = ctx
            me._new_record(message_type, input_buf)
            return real_dispatch(ctx, message_type=message_type, input_buf=input_buf, output_buf=output_buf)

        def decode(key_share):
            try:
                pk = real_decode(key_share)
            except tls.AlertIllegalParameter:
                me.rec.setdefault("share", []).append(1)
                raise
            me.rec.setdefault("share", []).append(0 if (pk is None or _exchange_ok(pk)) else 2)
            return pk

        def verify(**kw):
            try:
                real_verify(**kw)
            except tls.AlertCertificateExpired:
                me.rec["vcert"] = 1
                raise
            except tls.AlertBadCertificate:
                me.rec["vcert"] = 2
                raise
            except Exception as e:
                me.rec["vcert"] = 5 if type(e).__name__ == "CertificateError" else 4
                raise

        C.handle_message = handle
        C._handle_reassembled_message = dispatch
        tls.decode_public_key = decode
        tls.verify_certificate = verify
        real_alpn = conn._alpn_handler
        real_fetch = conn._session_ticket_fetcher

        def alpn(proto):
            try:
                return real_alpn(proto)
            except QuicConnectionError as e:
                if int(e.error_code) != 0x100 + 109:
                    me.rec["tp"] = (int(e.error_code), -1 if e.frame_type is None else int(e.frame_type))
                raise
        conn._alpn_handler = alpn
        self._had_tls = getattr(conn, "tls", None)
        if self._had_tls is not None:
            self._old_cb = (self._had_tls.alpn_cb, self._had_tls.get_session_ticket_cb)
            self._had_tls.alpn_cb = alpn
        if real_fetch is not None:
            def fetch(label):
                t = real_fetch(label)
                me.rec["ticket"] = int(t.cipher_suite) if (t is not None and t.is_valid) else -1
                return t
            conn._session_ticket_fetcher = fetch
            if self._had_tls is not None:
                self._had_tls.get_session_ticket_cb = fetch
        self._real_cbs = (real_alpn, real_fetch)
        return self

    def uninstall(self):
        tls, conn = self.tls, self.conn
        C = tls.Context
        C.handle_message, C._handle_reassembled_message = self._class
        tls.decode_public_key = self.real_decode
        tls.verify_certificate = self.real_verify
        for name in ("_alpn_handler", "_session_ticket_fetcher"):
            if name in conn.__dict__ and callable(conn.__dict__[name]) and getattr(conn.__dict__[name], "__name__", "") in ("alpn", "fetch"):
                del conn.__dict__[name]
        real_alpn, real_fetch = self._real_cbs
        if real_fetch is not None:
            conn._session_ticket_fetcher = real_fetch
        cur = getattr(conn, "tls", None)
        if cur is not None:
            cur.alpn_cb = conn._alpn_handler
            if real_fetch is not None:
                cur.get_session_ticket_cb = real_fetch


def run_real(world, data):
    """Feed `data` to the subject.  Returns (oracle records, outcome tokens, exception or None)."""
    from aioquic.quic.connection import QuicConnectionError
    tls = world.tls
    ctx = world.subject
    rec = Recorder(tls, ctx, holder=world).install()
    exc = None
    try:
        try:
            ctx.handle_message(data, world.bufs[world.side])
        finally:
            rec.uninstall()
        out = [0, 0, 0, ctx.state.value, len(ctx._receive_buffer), int(ctx._session_resumed),
               int(ctx._peer_certificate is not None), _ks_generation(ctx)]
    except tls.Alert as e:
        exc = e
        out = [1, int(e.description), 0]
    except QuicConnectionError as e:
        exc = e
        out = [2, int(e.error_code), int(e.frame_type if e.frame_type is not None else -1)]
    except Exception as e:  # noqa: BLE001 -- the observable IS the exception class
        exc = e
        out = [3, EXN.get(type(e).__name__, 9), 0]
    records = rec.calls[0] if rec.calls else []
    for b in world.bufs[world.side].values():
        b.seek(0)
    return records, out, exc


def orc_tokens(records):
    t = [len(records)]
    for r in records:
        t += _lst(r["share"]) + [r["tp"][0], r["tp"][1], r["ticket"], r["binder"], r["load"], r["pubkey"], r["sig"],
                                 r["vcert"], r["mac"]]
    return t


_OBS = {}
PATCHED = {}


def tree_patched():
    """1 if the tree turns x509.InvalidVersion into an alert (docs/C05-fix-9.patch), decided by running the T11 witness"""
    if "v" not in PATCHED:
        from cryptography.hazmat.primitives import serialization
        w = World("client", "")
        w.advance_to("client", 3)
        der = certs("ec")[0].public_bytes(serialization.Encoding.DER).replace(b"\xa0\x03\x02\x01\x02", b"\xa0\x03\x02\x01\x12", 1)
        msg = tls_msg(11, vec(1, b"") + vec(3, vec(3, der) + vec(2, b"")))
        try:
            w.subject.handle_message(msg, w.bufs["client"])
            PATCHED["v"] = 0
        except w.tls.Alert:
            PATCHED["v"] = 1
        except Exception:
            PATCHED["v"] = 0
    return PATCHED["v"]




def observe(case):
    """-> (model tokens, expected output tokens, exception, world)"""
    key = (case["side"], case["variant"], case["state"], tuple(case.get("pre", ())), case["data"], case.get("genuine", 0),
           tuple(case.get("gmut") or ()), tuple(case.get("pre_fail", ())))
    if key in _OBS:
        return _OBS[key]
    w = World(case["side"], case["variant"])
    w.advance_to(case["side"], case["state"])
    data = bytes.fromhex(case["data"])
    gen = list(w.pending[:case.get("genuine", 0)])
    if case.get("gmut") and gen:
        import random
        idx, seed = case["gmut"]
        gen[idx % len(gen)] = mutate(random.Random(seed), gen[idx % len(gen)])
    data = b"".join(gen) + data
    for pre in case.get("pre", ()):
        try:
            w.subject.handle_message(bytes.fromhex(pre), w.bufs[w.side])
        except Exception:
            # the first part alone already ends the handshake: deliver everything in one piece to a fresh Context
            w = World(case["side"], case["variant"])
            w.advance_to(case["side"], case["state"])
            data = b"".join(bytes.fromhex(x) for x in case["pre"]) + bytes.fromhex(case["data"])
            break
        for b in w.bufs[w.side].values():
            b.seek(0)
    for pf in case.get("pre_fail", ()):
        # a chunk that is expected to end in an Alert; the Context is used again afterwards (tls.Context level only:
        # since 54d8ff0 the connection never does this) -- ties the model's post-alert raise sites
        try:
            w.subject.handle_message(bytes.fromhex(pf), w.bufs[w.side])
        except Exception:
            pass
        for b in w.bufs[w.side].values():
            b.seek(0)
    snap = snapshot(w.subject)
    records, out, exc = run_real(w, data)
    tokens = [tree_patched()] + snap + orc_tokens(records) + _lst(data)
    res = (tokens, out, exc, w)
    if len(_OBS) > 4000:
        _OBS.clear()
    _OBS[key] = res
    return res


def encode(case):
    return observe(case)[0]


def impl(case):
    return observe(case)[1]


def oracle(case, exc_site):
    """the property on the implementation: only tls.Alert (documented description) or QuicConnectionError may leave"""
    from aioquic import tls
    _, out, exc, _ = observe(case)
    if case.get("pre_fail"):
        return None     # re-using a Context after it raised is not reachable through QuicConnection (judged there: sh-twice)
    if out[0] == 3:
        return ("%s escaped Context.handle_message at %s: %s [%s %s]" % (
            type(exc).__name__, exc_site(exc), str(exc)[:120], case["side"], STATE_NAMES.get(case["state"])),
            {"exception": type(exc).__name__, "site": exc_site(exc)})
    if out[0] == 1 and out[1] not in {int(x) for x in tls.AlertDescription}:
        return ("alert %d is not an AlertDescription" % out[1], {"rule": "alert_number", "alert": out[1]})
    return None


# ------------------------------------------------------------------------------------------------
# case generation
def tls_msg(t, body):
    return bytes([t]) + len(body).to_bytes(3, "big") + body


def ext(t, body):
    return t.to_bytes(2, "big") + len(body).to_bytes(2, "big") + body


def vec(n, body):
    return len(body).to_bytes(n, "big") + body


def mutate(rng, data):
    b = bytearray(data)
    k = rng.randrange(8)
    if not b:
        return bytes([rng.randrange(256)])
    if k == 0:
        b[rng.randrange(len(b))] ^= 1 << rng.randrange(8)
    elif k == 1:
        b[rng.randrange(len(b))] = rng.choice([0, 1, 0x7F, 0x80, 0xFF])
    elif k == 2:
        i = rng.randrange(len(b))
        del b[i:i + rng.randrange(1, 6)]
    elif k == 3:
        i = rng.randrange(len(b))
        b[i:i] = bytes(rng.randrange(256) for _ in range(rng.randrange(1, 6)))
    elif k == 4 and len(b) >= 4:
        # keep the message header consistent with the new length
        i = rng.randrange(4, len(b) + 1)
        del b[i:]
        b[1:4] = (len(b) - 4).to_bytes(3, "big")
    elif k == 5 and len(b) >= 4:
        i = rng.randrange(4, len(b) + 1)
        b[i:i] = bytes(rng.randrange(256) for _ in range(rng.randrange(1, 9)))
        b[1:4] = (len(b) - 4).to_bytes(3, "big")
    elif k == 6 and len(b) > 6:
        i = rng.randrange(4, len(b) - 1)
        b[i:i + 2] = rng.choice([0, 1, 0xFFFF, len(b), len(b) - i]).to_bytes(2, "big", signed=False) if True else b[i:i + 2]
    else:
        for _ in range(rng.randrange(2, 6)):
            b[rng.randrange(len(b))] = rng.randrange(256)
    return bytes(b)


def hello_grammar(rng, client):
    """ClientHello / ServerHello from the grammar, mostly valid, each field sometimes hostile"""
    def pick(ok, bad):
        return ok if rng.random() < 0.8 else rng.choice(bad)
    exts = []
    x25519_pub = bytes(range(1, 33))
    shares = []
    for _ in range(rng.choice([1, 1, 1, 0, 2, 3])):
        g = rng.choice([29, 29, 29, 30, 23, 24, 25, 0xAAAA, 0x1234])
        if g == 29:
            d = pick(x25519_pub, [bytes(32), bytes(31), bytes(33), b""])
        elif g == 30:
            d = pick(bytes(range(56)), [bytes(56), bytes(10)])
        elif g in (23, 24, 25):
            d = pick(b"\x04" + bytes(64), [b"", b"\x05abc", b"\x04" + bytes(10)])
        else:
            d = bytes(rng.randrange(256) for _ in range(rng.randrange(0, 5)))
        shares.append(g.to_bytes(2, "big") + vec(2, d))
    if client:
        if shares or rng.random() < 0.5:
            exts.append(ext(51, vec(2, b"".join(shares))))
        exts.append(ext(43, vec(1, b"".join(v.to_bytes(2, "big") for v in pick([0x0304], [[0x0303], [], [0x7F1C, 0x0304]])))))
        exts.append(ext(13, vec(2, b"".join(v.to_bytes(2, "big") for v in pick([0x0403, 0x0804, 0x0807], [[], [0x0201], [0x0603]])))))
        exts.append(ext(10, vec(2, b"\x00\x1d\x00\x17")))
        if rng.random() < 0.5:
            exts.append(ext(45, vec(1, bytes(pick([1], [[0], [], [0, 1]])))))
        if rng.random() < 0.5:
            name = pick(b"localhost", [b"", b"caf\xc3\xa9", b"a" * 300])
            nt = pick(0, [1, 255])
            exts.append(ext(0, vec(2, bytes([nt]) + vec(2, name))))
        if rng.random() < 0.8:
            protos = pick([b"h3"], [[], [b"\xff\xfe"], [b"zz"], [b"", b"h3"], [b"hq-interop", b"h3"]])
            exts.append(ext(16, vec(2, b"".join(vec(1, p) for p in protos))))
        if rng.random() < 0.85:
            exts.append(ext(0x39, pick(b"\x01\x02tp", [b"\xeebad", b""])))
        if rng.random() < 0.15:
            exts.append(ext(42, b""))
        if rng.random() < 0.15:
            ids = b"".join(vec(2, b"ticket%d" % i) + (0).to_bytes(4, "big") for i in range(rng.choice([1, 1, 2, 0])))
            bds = b"".join(vec(1, bytes(32)) for _ in range(rng.choice([1, 1, 2, 0])))
            exts.append(ext(41, vec(2, ids) + vec(2, bds)))
            if rng.random() < 0.3:
                exts.append(ext(0x1234, b"after-psk"))
        rng.shuffle(exts) if rng.random() < 0.3 else None
        suites = pick([0x1301, 0x1302, 0x1303], [[], [0x00FF], [0x1305], [0xC02F, 0x1303]])
        body = (pick(0x0303, [0x0304, 0x0301, 0]).to_bytes(2, "big") + bytes(32) + vec(1, bytes(rng.choice([0, 0, 32])))
                + vec(2, b"".join(s.to_bytes(2, "big") for s in suites)) + vec(1, bytes(pick([0], [[], [1], [1, 0]])))
                + vec(2, b"".join(exts)))
        return tls_msg(1, body)
    share = shares[0] if shares else None
    if share is not None:
        exts.append(ext(51, share))
    if rng.random() < 0.9:
        exts.append(ext(43, pick(0x0304, [0x0303, 0x7F1C]).to_bytes(2, "big")))
    if rng.random() < 0.15:
        exts.append(ext(41, pick(0, [1, 0xFFFF]).to_bytes(2, "big")))
    if rng.random() < 0.2:
        exts.append(ext(0x1234, bytes(rng.randrange(0, 6))))
    body = (pick(0x0303, [0x0304, 0]).to_bytes(2, "big") + bytes(32) + vec(1, bytes(rng.choice([0, 0, 32])))
            + pick(0x1301, [0x1302, 0x1303, 0x1305, 0x00FF]).to_bytes(2, "big") + bytes([pick(0, [1, 255])]) + vec(2, b"".join(exts)))
    return tls_msg(2, body)


def other_grammar(rng, t):
    def pick(ok, bad):
        return ok if rng.random() < 0.75 else rng.choice(bad)
    if t == 8:      # EncryptedExtensions
        exts = []
        if rng.random() < 0.8:
            protos = pick([b"h3"], [[], [b"\xff"], [b"\xff", b"h3"], [b"not-offered"], [b""]])
            exts.append(ext(16, vec(2, b"".join(vec(1, p) for p in protos))))
        if rng.random() < 0.85:
            exts.append(ext(0x39, pick(b"\x01\x02tp", [b"\xeebad", b""])))
        if rng.random() < 0.2:
            exts.append(ext(42, pick(b"", [b"x"])))
        if rng.random() < 0.2:
            exts.append(ext(0x4444, bytes(rng.randrange(0, 9))))
        return tls_msg(8, vec(2, b"".join(exts)))
    if t == 11:     # Certificate
        cert, _, _ = certs(rng.choice(["ec", "rsa", "ed25519"]))
        from cryptography.hazmat.primitives import serialization
        der = cert.public_bytes(serialization.Encoding.DER)
        entries = pick([der], [[], [b"garbage"], [der, b"junk"], [der, der], [b""], [der[:50]]])
        body = vec(1, pick(b"", [b"ctx"])) + vec(3, b"".join(vec(3, e) + vec(2, pick(b"", [b"\x00\x05\x00\x00"])) for e in entries))
        return tls_msg(11, body)
    if t == 13:     # CertificateRequest
        exts = []
        if rng.random() < 0.85:
            exts.append(ext(13, vec(2, b"".join(v.to_bytes(2, "big") for v in pick([0x0403, 0x0804], [[], [0x0201], [0x0503]])))))
        if rng.random() < 0.2:
            exts.append(ext(0x2F, b"\x00\x00"))
        return tls_msg(13, vec(1, pick(b"", [b"ctx"])) + vec(2, b"".join(exts)))
    if t == 15:     # CertificateVerify
        alg = pick(0x0403, [0x0804, 0x0401, 0x0807, 0x0808, 0x0503, 0x0201, 0x0809, 0x0603, 0x0202, 0xFFFF])
        return tls_msg(15, alg.to_bytes(2, "big") + vec(2, bytes(rng.randrange(256) for _ in range(rng.choice([0, 8, 64, 70, 256])))))
    if t == 20:
        return tls_msg(20, bytes(rng.randrange(256) for _ in range(rng.choice([0, 32, 48, 12]))))
    if t == 4:      # NewSessionTicket
        exts = []
        if rng.random() < 0.6:
            exts.append(ext(42, pick(0xFFFFFFFF, [0, 1, 0xFFFFFFFE]).to_bytes(4, "big")))
        if rng.random() < 0.2:
            exts.append(ext(0x99, b"zz"))
        return tls_msg(4, (3600).to_bytes(4, "big") + pick(1, [0xFFFFFFFF]).to_bytes(4, "big") + vec(1, pick(b"", [bytes(255)]))
                       + vec(2, b"ticket") + vec(2, b"".join(exts)))
    return tls_msg(t, bytes(rng.randrange(256) for _ in range(rng.randrange(0, 12))))


EXPECTED_TYPES = {1: [2], 2: [8], 3: [11, 13], 4: [11], 5: [15], 6: [20], 7: [4], 8: [1], 9: [11], 10: [15], 11: [20], 12: []}
SCENARIOS = [
    # (side, variant, reachable states)
    ("client", "", [1, 2, 3, 5, 6, 7]),
    ("client", "rsa", [2, 3, 5, 6]),
    ("client", "ed25519", [3, 5, 6]),
    ("client", "noverify", [5, 6]),
    ("client", "reqcert", [3, 4, 5, 6, 7]),
    ("client", "badsan", [5]),
    ("client", "wildcard", [5]),
    ("client", "othername", [5]),
    ("client", "expired", [5]),
    ("client", "untrusted", [5]),
    ("client", "tickets", [7]),
    ("client", "psk", [1, 2, 6]),
    ("server", "", [8, 11, 12]),
    ("server", "rsa", [8, 11]),
    ("server", "noalpn", [8]),
    ("server", "reqcert", [8, 9, 10, 11, 12]),
    ("server", "reqcert+nocert", [9, 11]),
    ("server", "tickets", [8, 11, 12]),
    ("server", "psk", [8, 11]),
]


def genuine_messages(side, variant, state):
    """what the honest peer has in flight for `side` when it is in `state` (possibly empty)"""
    w = World(side, variant)
    w.advance_to(side, state)
    return list(w.pending)


def gen_cases(rng, n):
    cases = []
    per = max(1, n // sum(len(s[2]) for s in SCENARIOS))
    for side, variant, states in SCENARIOS:
        for state in states:
            try:
                gen = genuine_messages(side, variant, state)
            except Exception:
                gen = []
            base = {"side": side, "variant": variant, "state": state, "pre": []}
            flight = b"".join(gen)
            out = []
            if gen:
                out.append(gen[0])                                  # the genuine next message
                out.append(flight)                                  # the whole genuine flight in one delivery
                out.append(gen[0][:len(gen[0]) // 2])               # first half only (stays buffered)
                out.append(gen[0] + bytes([rng.randrange(256)]))    # + 1 byte of the next message
            for i in range(per):
                k = rng.randrange(10)
                types = EXPECTED_TYPES[state]
                if k <= 2 and gen:
                    m = mutate(rng, gen[0])
                    if rng.random() < 0.3:
                        m = mutate(rng, m)
                    out.append(m)
                elif k == 3 and gen and len(gen) > 1:
                    j = rng.randrange(len(gen))
                    out.append(b"".join(gen[:j]) + mutate(rng, gen[j]) + b"".join(gen[j + 1:]))
                elif k <= 6 and types:
                    t = rng.choice(types)
                    m = hello_grammar(rng, t == 1) if t in (1, 2) else other_grammar(rng, t)
                    if rng.random() < 0.15:
                        m = mutate(rng, m)
                    out.append(m)
                elif k == 7:
                    t = rng.choice([0, 1, 2, 4, 5, 8, 11, 13, 15, 20, 24, 25, 254, 255])
                    out.append(other_grammar(rng, t) if t in (4, 8, 11, 13, 15, 20) else tls_msg(t, bytes(rng.randrange(0, 20))))
                elif k == 8:
                    out.append(bytes(rng.randrange(256) for _ in range(rng.randrange(0, 40))))
                else:
                    # oversize / boundary message lengths, short headers
                    out.append(rng.choice([b"", b"\x01", b"\x01\x00\x00", bytes([rng.choice(types or [1])]) + (524285).to_bytes(3, "big"),
                                           bytes([rng.choice(types or [1])]) + (524284).to_bytes(3, "big") + b"\x00" * 8,
                                           b"\x14\xff\xff\xff", tls_msg(rng.choice(types or [20]), b"")]))
            # this world's own flight: k genuine messages, then nothing / a hostile message / one of them mutated
            for k in range(1, len(gen) + 1):
                cases.append(dict(base, genuine=k, data=""))
                nxt_types = EXPECTED_TYPES.get(state, [])
                for _ in range(max(1, per // 6)):
                    cases.append(dict(base, genuine=k, gmut=[rng.randrange(k), rng.randrange(1 << 30)], data=""))
                    t = rng.choice([4, 8, 11, 13, 15, 20])
                    cases.append(dict(base, genuine=k, data=other_grammar(rng, t).hex()))
            # the Context used again after an alert (model's post-alert raise sites, e.g. _key_schedule_proxy is None)
            if state in (1, 8) and gen:
                if state == 1:
                    head = b"\x03\x03" + bytes(32) + b"\x00" + b"\x13\x01" + b"\x00"
                    for exts in (ext(43, b"\x03\x04"), ext(43, b"\x03\x04") + ext(51, b"\x12\x34" + vec(2, b"zz")),
                                 ext(43, b"\x03\x04") + ext(51, b"\x00\x1d" + vec(2, bytes(32)))):
                        bad = tls_msg(2, head + vec(2, exts))
                        for nxt in (gen[0], bad):
                            cases.append(dict(base, pre_fail=[bad.hex()], data=nxt.hex()))
                for _ in range(max(2, per // 4)):
                    bad = hello_grammar(rng, state == 8)
                    nxt = rng.choice([gen[0], hello_grammar(rng, state == 8)])
                    cases.append(dict(base, pre_fail=[bad.hex()], data=nxt.hex()))
            for d in out:
                c = dict(base, data=d.hex())
                cases.append(c)
                # split delivery: same bytes, the first part fed before the snapshot
                if len(d) > 5 and rng.random() < 0.12:
                    cut = rng.randrange(1, len(d))
                    cases.append(dict(base, pre=[d[:cut].hex()], data=d[cut:].hex()))
    return cases


def op_name(case):
    d = bytes.fromhex(case["data"]) or (b"G" if case.get("genuine") else b"")
    return "%s/%s/type%s" % (case["side"], STATE_NAMES.get(case["state"], "?")[7:], d[0] if d else "-")
