"""C05 path games: the network-path table of a connection (`_network_paths`, `_find_network_path`, the
MAX_NETWORK_PATHS bound and its eviction, promotion to index 0, path validation) driven through LONG HISTORIES of
migrations and validations by a key-holding peer, then one more packet.

World class `run_path_games` (called from c05.run):
  * a key-holding puppet sends correctly protected 1-RTT packets from MANY source addresses (2, 7, 8, 9, 12, 20 distinct
    ones -- below, at and above MAX_NETWORK_PATHS), each probing-only (PATH_CHALLENGE / PADDING) or non-probing (PING, PING +
    padding so that the anti-amplification budget lets the subject answer), with a new or an OLD packet number;
  * it answers the subject's PATH_CHALLENGEs (seen by the wire observer) with PATH_RESPONSE -- the latest one, all of them,
    an old one again, twice, a wrong one (PROTOCOL_VIOLATION close), late, never -- from the same or from another address;
  * packets from earlier addresses in between (promotion back), other destination connection IDs (server:
    change_connection_id), with and without `datagrams_to_send()` in between (`nopump`), timers in between;
  * the REAL peer migrating by NAT rebinding (`Pair.rebind`), answering the challenges itself (`rebind` worlds);
  * client and server subjects, connected and key-updated.
Judged by
  * the no-raise oracle of c05.judge (nothing escapes any API call until ConnectionTerminated), and
  * a TABLE oracle after every op (labelled peek at `_network_paths`, trusted harness code): len <= MAX_NETWORK_PATHS, no
    object and no address twice, never empty once the connection exists, and the ACTIVE path is index 0: the address the
    subject transmits to is the source address of the newest non-probing packet it accepted (computed by the harness from what
    it sent, independently of the model).
Tie (suite `paths`): coq/model/ConnPaths.v (extracted `exec_paths`) is run on the same history -- per datagram: the source
address, and per packet that reached the "update network path" block its verdict (epoch is Handshake, probing, packet number
above the largest received, which table entries the PATH_RESPONSE frames validated, PATH_CHALLENGE frames queued); per
transmit: whether a PATH_CHALLENGE / how many PATH_RESPONSE frames left on the wire -- and the table
[(address, is_validated, local_challenge_sent, len(remote_challenges))] is compared after every call."""
import collections

KINDS = ["probe", "pad", "ping", "bigping", "resp", "resp_ping", "chalresp"]
RESP_MODES = ["last", "last", "last", "all", "old", "twice", "wrong", "none"]


def max_paths():
    import aioquic.quic.connection as qc
    return getattr(qc, "MAX_NETWORK_PATHS", 8)


def _addr_of(i):
    return ("10.7.%d.%d" % (i // 200, 1 + i % 200), 40000 + i)


PEEK_MISSES = {}     # labelled peeks that could not read the private state (reported in the evidence)


class Game:
    """Per-world bookkeeping of the path games (attached to a c05.Lab as lab.pg)."""

    def __init__(self, lab):
        self.lab = lab
        self.home = lab.peer.addr
        self.direction = "s2c" if lab.side == "server" else "c2s"      # subject -> peer
        self.answered = set()
        self.exp_active = None        # address the subject must transmit to (None: not tracked)
        self.max_pn = None            # largest 1-RTT packet number the harness made the subject accept
        self.problems = []
        self.recorder = None
        conn = lab.subject.conn
        try:
            if conn is not None and conn._network_paths:
                self.exp_active = conn._network_paths[0].addr
            sp = self._space()
            if sp is not None:
                self.max_pn = sp.largest_received_packet
        except Exception:  # noqa: BLE001 -- labelled peek
            PEEK_MISSES["Game.__init__"] = PEEK_MISSES.get("Game.__init__", 0) + 1

    def _space(self):
        conn = self.lab.subject.conn
        try:
            from aioquic import tls
            return conn._spaces[tls.Epoch.ONE_RTT]
        except Exception:
            return None

    def addr(self, i):
        return self.home if i == 0 else _addr_of(i)

    def challenges(self):
        """PATH_CHALLENGE data the subject put on the wire, in order"""
        pu = self.lab.puppet
        obs = pu.observer if pu is not None else self.lab.pair.observer
        return [f.fields.get("data") for p, f in obs.frames(self.direction, "PATH_CHALLENGE")
                if not p.injected and f.fields.get("data") is not None]

    def ack_frame(self):
        from sim import F
        pu = self.lab.puppet
        pns = sorted({p.pn for p in pu.observer.packets
                      if p.direction == self.direction and p.decrypted and p.space == "app" and not p.injected})
        if not pns:
            return None
        ranges = []
        lo = hi = pns[0]
        for n in pns[1:]:
            if n == hi + 1:
                hi = n
            else:
                ranges.append((lo, hi))
                lo = hi = n
        ranges.append((lo, hi))
        return F.ack(ranges[-30:], 0)

    # -- one packet of the key-holding peer from address index ai
    def packet(self, ai, kind, opts):
        from sim import F
        lab = self.lab
        pu = lab.puppet
        chal = self.challenges()
        frames = []
        probing = True
        if kind == "probe":
            frames = [F.path_challenge(bytes([ai & 0xFF, opts.get("tag", 0) & 0xFF]) + bytes(6)), F.padding(opts.get("padding", 40))]
        elif kind == "pad":
            frames = [F.padding(opts.get("padding", 30))]
        elif kind == "ping":
            frames = [F.ping()]
            probing = False
        elif kind == "bigping":
            frames = [F.ping(), F.padding(opts.get("padding", 400))]
            probing = False
        elif kind in ("resp", "resp_ping", "chalresp"):
            mode = opts.get("which", "last")
            todo = []
            unanswered = [c for c in chal if c not in self.answered]
            if mode == "last":
                todo = unanswered[-1:] or chal[-1:]
            elif mode == "all":
                todo = unanswered or chal[-1:]
            elif mode == "old":
                todo = chal[:1]
            elif mode == "twice":
                todo = (unanswered[-1:] or chal[-1:]) * 2
            elif mode == "wrong":
                todo = [bytes([0xEE]) * 8]
            for c in todo:
                frames.append(F.path_response(c))
                if mode != "wrong":
                    self.answered.add(c)
            if kind == "resp_ping":
                frames.append(F.ping())
                frames.append(F.padding(opts.get("padding", 200)))
                probing = False
            elif kind == "chalresp":
                frames.append(F.path_challenge(bytes([0xC0, ai & 0xFF]) + bytes(6)))
            if not frames:
                frames = [F.padding(20)]
        else:
            raise ValueError("unknown path packet kind %r" % (kind,))
        if not probing and opts.get("ack", True) and opts.get("epoch", "1rtt") == "1rtt":
            # acknowledge what the subject has sent so far (an ACK frame is not a probing frame): without it the subject's
            # congestion window / pacer stops it from sending the next PATH_CHALLENGE after about three migrations
            ack = self.ack_frame()
            if ack is not None:
                frames.insert(0, ack)
        kw = {"pn_len": 4}
        epoch = opts.get("epoch", "1rtt")
        if epoch != "1rtt":
            # Initial / Handshake epochs (handshake-state worlds): the "validated by the handshake" branch of the block; the
            # harness does not track these packet-number spaces, so the active-path expectation is switched off
            self.exp_active = None
            probing = False if kind in ("ping", "bigping") else probing
        base = self.max_pn if self.max_pn is not None else 0
        if epoch != "1rtt":
            pn = pu.next_pn(epoch)
        elif opts.get("pn") == "old":
            pn = max(0, base - 1 - opts.get("back", 0))
        elif opts.get("pn") == "same":
            pn = max(0, base)
        else:
            pn = pu.next_pn("1rtt")
        kw["pn"] = pn
        newer = self.max_pn is None or pn > self.max_pn
        if "dcid_index" in opts:
            cids = [c.cid for c in lab.subject.conn._host_cids]
            if cids:
                kw["dcid"] = cids[opts["dcid_index"] % len(cids)]
        pkt = pu.build_packet(epoch, frames, **kw)
        if epoch == "initial" and lab.peer_side == "client" and len(pkt) < 1200:
            pkt += bytes(1200 - len(pkt))
        src = self.addr(ai)
        before_closed = self._closing()
        n_recv = self._n_received()
        if opts.get("nopump"):
            lab.subject.receive_datagram(pkt, src)
        else:
            lab.pair.deliver_now(pkt, src, lab.subject)
        accepted = self._n_received() > n_recv and not before_closed and not self._closing() and not lab.subject.raised
        if accepted and newer and epoch == "1rtt":
            if not probing:
                self.exp_active = src
            self.max_pn = pn
        self.check_table("after the packet from address #%d (%s)" % (ai, kind))

    def _closing(self):
        conn = self.lab.subject.conn
        try:
            return conn is None or conn._close_pending or conn._state.name in ("CLOSING", "DRAINING", "TERMINATED")
        except Exception:  # noqa: BLE001 -- labelled peek
            PEEK_MISSES["_closing"] = PEEK_MISSES.get("_closing", 0) + 1
            return True

    def _n_received(self):
        conn = self.lab.subject.conn
        lg = getattr(conn, "_quic_logger", None)
        if lg is None:
            return 0
        try:
            return sum(1 for e in lg._events if e.get("name") == "transport:packet_received")
        except Exception:  # noqa: BLE001 -- labelled peek
            PEEK_MISSES["_n_received"] = PEEK_MISSES.get("_n_received", 0) + 1
            return 0

    # -- the table oracle (labelled peek; trusted harness code)
    def check_table(self, where):
        conn = self.lab.subject.conn
        if conn is None or self.lab.subject.raised:
            return
        try:
            paths = list(conn._network_paths)
            [p.addr for p in paths]
        except Exception as e:  # noqa: BLE001 -- labelled peek: an unreadable table is a table problem, not an abort
            PEEK_MISSES["check_table"] = PEEK_MISSES.get("check_table", 0) + 1
            if not any(b[0] == "unreadable" for b in self.problems):
                self.problems.append(("unreadable", "network-path table %s: _network_paths cannot be read (%r)" % (where, e)))
            return
        mx = max_paths()
        bad = None
        if len(paths) > mx:
            bad = ("bound", "%d network paths remembered, MAX_NETWORK_PATHS = %d" % (len(paths), mx))
        elif len({id(p) for p in paths}) != len(paths):
            bad = ("duplicate_object", "the same QuicNetworkPath twice in _network_paths")
        elif len({p.addr for p in paths}) != len(paths):
            bad = ("duplicate_addr", "two network paths with the same address %r" % ([p.addr for p in paths],))
        elif not paths:
            bad = ("empty", "_network_paths is empty on a connection that accepted packets")
        elif self.exp_active is not None and not self._closing() and paths[0].addr != self.exp_active:
            bad = ("active", "active path (index 0) is %r, the newest accepted non-probing packet came from %r"
                   % (paths[0].addr, self.exp_active))
        if bad is not None and not any(b[0] == bad[0] for b in self.problems):
            self.problems.append((bad[0], "network-path table %s: %s" % (where, bad[1])))

    def check_transmit_addr(self):
        """every datagram the subject transmitted since the last check went to the active path"""
        # the destination of datagrams_to_send() is _network_paths[0].addr by construction; what is checked is that index 0
        # is the path the harness expects (check_table) -- kept as a hook for the wire log
        return


def apply(lab, op):
    """ops of the path games; returns True if the op was one of ours"""
    k = op[0]
    if k not in ("path", "rebind", "peer"):
        return False
    if getattr(lab, "pg", None) is None:
        lab.pg = Game(lab)
    g = lab.pg
    if k == "path":
        g.packet(int(op[1]), op[2], dict(op[3]) if len(op) > 3 else {})
    elif k == "rebind":
        # the REAL peer moves to address index op[1] (NAT rebinding); it is live in these worlds
        lab.pair.network.rebind(lab.peer, g.addr(int(op[1])))
        g.exp_active = None      # the real peer's packet numbers / frames are not the harness'
    elif k == "peer":
        # the real peer's application does something, then the world runs for op[2] seconds
        what = op[1]
        if what == "ping":
            lab.peer.send_ping(1)
        elif what == "data":
            sid = 0 if lab.peer_side == "client" else 1
            lab.peer.send_stream_data(sid, bytes(int(op[3]) if len(op) > 3 else 300))
        lab.pair.pump(lab.peer)
        lab.pair.run(lambda q: False, max_time=float(op[2]), max_steps=2000)
        g.check_table("after the real peer's %s" % what)
    return True


# ------------------------------------------------------------------------------------------
# generation
def gen_history(rng, n_addrs, length, side, live=False):
    """one path-game history: ops over address indices 0..n_addrs-1"""
    ops = []
    if live:
        # the real peer rebinding through n_addrs addresses, sending traffic from each (it answers PATH_CHALLENGE itself)
        order = list(range(1, n_addrs))
        for ai in order:
            ops.append(["rebind", ai])
            ops.append(["peer", rng.choice(["ping", "data", "data"]), rng.choice([0.05, 0.2, 0.5]), rng.choice([50, 300, 900])])
            if rng.random() < 0.25:
                ops.append(["peer", "ping", rng.choice([0.05, 0.3])])
            if rng.random() < 0.15 and ai > 1:
                ops.append(["rebind", rng.randrange(0, ai)])
                ops.append(["peer", "data", 0.2, 300])
        return ops
    visited = []
    style = rng.choice(["validate_all", "validate_all", "validate_some", "never", "mixed", "mixed"])
    for step in range(length):
        fresh = [a for a in range(1, n_addrs) if a not in visited]
        x = rng.random()
        if fresh and (x < 0.6 or not visited):
            ai = fresh[0] if rng.random() < 0.8 else rng.choice(fresh)
            visited.append(ai)
            new = True
        else:
            ai = rng.choice(visited + [0])
            new = False
        o = {}
        if rng.random() < 0.15:
            o["nopump"] = True
        if rng.random() < 0.08:
            o["pn"] = rng.choice(["old", "same"])
        if side == "server" and rng.random() < 0.08:
            o["dcid_index"] = rng.randrange(8)
        validate = {"validate_all": 1.0, "validate_some": 0.5, "never": 0.0, "mixed": rng.choice([0.0, 0.5, 0.9, 1.0])}[style]
        y = rng.random()
        if new or y < 0.5:
            first = rng.choice(["bigping", "bigping", "bigping", "ping", "probe", "pad"]) if style != "validate_all" else \
                rng.choice(["bigping", "bigping", "bigping", "bigping", "ping", "probe"])
            ops.append(["path", ai, first, o])
            if rng.random() < validate:
                # answer the PATH_CHALLENGE the subject just sent on the new active path
                ro = {"which": rng.choice(RESP_MODES) if style != "validate_all" else rng.choice(["last", "last", "last", "all", "twice"])}
                if ro["which"] == "wrong" and rng.random() < 0.7:
                    ro["which"] = "last"
                if rng.random() < 0.1:
                    ro["nopump"] = True
                src = ai
                if rng.random() < 0.12:
                    src = rng.choice(visited + [0, n_addrs + 2])   # the response arrives from another (or a never-seen) address
                if rng.random() < 0.2:
                    ops.append(["adv", rng.choice([0.001, 0.03, 0.3])])   # late
                ops.append(["path", src, rng.choice(["resp", "resp", "resp_ping", "chalresp"]), ro])
        else:
            ops.append(["path", ai, rng.choice(KINDS), dict(o, which=rng.choice(RESP_MODES))])
        if rng.random() < (0.85 if style == "validate_all" else 0.3):
            ops.append(["adv", rng.choice([0.03, 0.03, 0.05, 0.5])])
    return ops


def handshake_histories(rng, n):
    """handshake-state worlds: Initial / Handshake-epoch packets of the key-holding peer from the home address and from other
    addresses (a Handshake packet validates the path it arrives on), mixed with garbage-free 1-RTT-less traffic"""
    out = []
    for i in range(n):
        side = ("server", "client")[i % 2]
        ops = []
        for j in range(rng.randint(2, 7)):
            ai = rng.choice([0, 0, 1, 2, 3, 4])
            ep = rng.choice(["handshake", "handshake", "initial"])
            kind = rng.choice(["ping", "ping", "pad", "bigping"])
            o = {"epoch": ep}
            if rng.random() < 0.2:
                o["nopump"] = True
            ops.append(["path", ai, kind, o])
            if rng.random() < 0.3:
                ops.append(["adv", rng.choice([0.001, 0.03])])
        out.append((side, ops))
    return out


def directed_histories():
    """deterministic histories that are always run: n migrations each validated, then one packet from a never-seen address --
    for every n around MAX_NETWORK_PATHS; the same without validation; validation of every second path"""
    out = []
    for n in (1, 6, 7, 8, 11):
        for style in ("validated", "unvalidated", "alternate"):
            for last in ("bigping", "probe"):
                ops = []
                for ai in range(1, n + 1):
                    ops.append(["path", ai, "bigping", {}])
                    if style == "validated" or (style == "alternate" and ai % 2):
                        ops.append(["path", ai, "resp", {"which": "last"}])
                    ops.append(["adv", 0.05])        # the pacer: no time, no next PATH_CHALLENGE
                ops.append(["path", n + 1, last, {}])
                ops.append(["path", n + 1, "resp_ping", {"which": "last"}])
                ops.append(["path", 0, "bigping", {}])
                ops.append(["adv", 0.3])
                out.append(("%s-%d-%s" % (style, n, last), ops))
    return out


# ------------------------------------------------------------------------------------------
# tie with coq/model/ConnPaths.v (exec_paths)
EXN_NUM = {"IndexError": 2, "ValueError": 5}


class Recorder:
    """Sits on the SUBJECT's connection object (instance-level wrappers around receive_datagram, datagrams_to_send, connect,
    _payload_received and the two qlog path-frame encoders; trusted harness code, private attributes) and turns the world's
    history into the model's ops, with the table read after every call."""

    def __init__(self, conn):
        self.conn = conn
        self.addr_ix = {}
        self.init = self.table()
        self.ops = []          # token lists
        self.obs = []          # expected output tokens per op
        self.cur = None
        self.mode = None
        self.count = {"path_challenge": 0, "path_response": 0}
        self.dead = False      # a call raised: the model stops there too
        self.npk = 0
        self.orig = {}
        for name in ("receive_datagram", "datagrams_to_send", "connect", "_payload_received"):
            self.orig[name] = getattr(conn, name)
        conn.receive_datagram = self.receive_datagram
        conn.datagrams_to_send = self.datagrams_to_send
        conn.connect = self.connect
        conn._payload_received = self.payload_received
        lg = conn._quic_logger
        if lg is not None:
            for ft in ("path_challenge", "path_response"):
                self._wrap_encoder(lg, ft)

    def _wrap_encoder(self, lg, ft):
        orig = getattr(lg, "encode_%s_frame" % ft)

        def enc(*a, **kw):
            self.count[ft] += 1
            return orig(*a, **kw)
        setattr(lg, "encode_%s_frame" % ft, enc)

    def remove(self):
        for name in self.orig:
            try:
                delattr(self.conn, name)
            except AttributeError:
                pass

    def aix(self, addr):
        if addr not in self.addr_ix:
            self.addr_ix[addr] = len(self.addr_ix) + 1
        return self.addr_ix[addr]

    def table(self):
        """labelled peek at _network_paths; an unreadable table / entry becomes the distinguished entry [-1, -1, -1, -1]"""
        out = []
        try:
            paths = list(self.conn._network_paths)
        except Exception:  # noqa: BLE001
            PEEK_MISSES["table"] = PEEK_MISSES.get("table", 0) + 1
            return [[-1, -1, -1, -1]]
        for p in paths:
            try:
                out.append([self.aix(p.addr), int(bool(p.is_validated)), int(bool(p.local_challenge_sent)), len(p.remote_challenges)])
            except Exception:  # noqa: BLE001
                PEEK_MISSES["table"] = PEEK_MISSES.get("table", 0) + 1
                out.append([-1, -1, -1, -1])
        return out

    def _emit(self, op, raised=None):
        if self.dead:
            return
        self.ops.append(op)
        if raised is not None:
            self.obs.append([3, EXN_NUM.get(raised, 99)])
            self.dead = True
        else:
            t = self.table()
            self.obs.append([0, 0, len(t)] + [x for e in t for x in e])

    # -- wrappers
    def connect(self, addr, *a, **kw):
        try:
            r = self.orig["connect"](addr, *a, **kw)
        except Exception as e:
            self._emit([0, self.aix(addr)], type(e).__name__)
            raise
        self._emit([0, self.aix(addr)])
        return r

    def receive_datagram(self, data, addr, *a, **kw):
        try:
            start_len = len(self.conn._network_paths)
        except Exception:  # noqa: BLE001 -- labelled peek, inside the implementation's call path
            PEEK_MISSES["start_len"] = PEEK_MISSES.get("start_len", 0) + 1
            start_len = -1
        self.cur = {"addr": self.aix(addr), "pkts": [], "start_len": start_len}
        try:
            r = self.orig["receive_datagram"](data, addr, *a, **kw)
        except Exception as e:
            self._emit(self._recv_op(), type(e).__name__)
            self.cur = None
            raise
        self._emit(self._recv_op())
        self.cur = None
        return r

    def _recv_op(self):
        c = self.cur
        t = [1, c["addr"], len(c["pkts"])]
        for k in c["pkts"]:
            t += [k["reset"], k["reached"], k["hs"], k["probing"], k["newer"], len(k["resp"])] + k["resp"] + [k["nchal"]]
        return t

    def payload_received(self, context, plain, *a, **kw):
        from aioquic import tls
        from aioquic.quic.connection import END_STATES
        conn = self.conn
        if self.cur is None:           # not inside receive_datagram (cannot happen through the public API)
            return self.orig["_payload_received"](context, plain, *a, **kw)
        # This wrapper runs INSIDE the implementation's receive_datagram(): its own peeks at private state must never raise
        # (an exception here would look like one escaping the implementation).  If the state cannot be read the packet is
        # recorded with the distinguished verdict reset = -1 and the call goes through untouched.
        try:
            tab = list(conn._network_paths)
            np = context.network_path
            in_tab = any(np is p for p in tab)
            pre_val = {id(p): bool(p.is_validated) for p in tab + [np]}
            pre_rc = len(np.remote_challenges)
            pn = None
            lg = conn._quic_logger
            if lg is not None:
                for ev in reversed(lg._events):
                    if ev["name"] == "transport:packet_received":
                        pn = ev["data"]["header"]["packet_number"]
                        break
            space = conn._spaces[context.epoch]
            newer = pn is not None and pn > space.largest_received_packet
            reset = int(self.cur["start_len"] == 0 and not self.cur["pkts"] and len(tab) == 1 and tab[0] is np)
            n0 = self.count["path_challenge"]
            k = {"reset": reset, "reached": 0, "hs": int(context.epoch == tls.Epoch.HANDSHAKE), "probing": 0, "newer": int(newer),
                 "resp": [], "nchal": 0}
        except Exception as e:  # noqa: BLE001 -- harness peek failed
            PEEK_MISSES["payload_received:%s" % type(e).__name__] = PEEK_MISSES.get("payload_received:%s" % type(e).__name__, 0) + 1
            self.cur["pkts"].append({"reset": -1, "reached": 0, "hs": 0, "probing": 0, "newer": 0, "resp": [], "nchal": 0})
            self.npk += 1
            return self.orig["_payload_received"](context, plain, *a, **kw)

        def effects():
            try:
                k["resp"] = [i for i, p in enumerate(tab) if p.is_validated and not pre_val[id(p)]]
                if not in_tab and np.is_validated and not pre_val[id(np)]:
                    k["resp"].append(-1)
                k["nchal"] = (self.count["path_challenge"] - n0) if lg is not None else (len(np.remote_challenges) - pre_rc)
            except Exception as e:  # noqa: BLE001
                PEEK_MISSES["effects:%s" % type(e).__name__] = PEEK_MISSES.get("effects:%s" % type(e).__name__, 0) + 1
            self.cur["pkts"].append(k)
            self.npk += 1
        try:
            res = self.orig["_payload_received"](context, plain, *a, **kw)
        except BaseException:
            effects()
            raise
        try:
            k["probing"] = int(bool(res[1]))
            k["reached"] = int(not (conn._state in END_STATES or conn._close_pending))
        except Exception as e:  # noqa: BLE001
            PEEK_MISSES["verdict:%s" % type(e).__name__] = PEEK_MISSES.get("verdict:%s" % type(e).__name__, 0) + 1
        effects()
        return res

    def datagrams_to_send(self, *a, **kw):
        c0, r0 = self.count["path_challenge"], self.count["path_response"]
        try:
            out = self.orig["datagrams_to_send"](*a, **kw)
        except Exception as e:
            self._emit([2, int(self.count["path_challenge"] > c0), self.count["path_response"] - r0], type(e).__name__)
            raise
        self._emit([2, int(self.count["path_challenge"] > c0), self.count["path_response"] - r0])
        return out

    def tokens(self):
        t = [len(self.init)] + [x for e in self.init for x in e] + [len(self.ops)]
        for op in self.ops:
            t += op
        return t

    def expected(self):
        return [x for o in self.obs for x in o]


_TIE = {}


def tie_observe(case, Lab):
    """run a path-game case with the recorder on; -> (model tokens, expected output, problems of the oracle)"""
    key = repr(sorted(case["spec"].items())) + repr(case["ops"])
    if key in _TIE:
        return _TIE[key]
    lab = Lab(case["spec"])
    rec = Recorder(lab.subject.conn)
    for op in case["ops"]:
        try:
            lab.apply(op)
        except ValueError:
            continue
        if lab.subject.raised or lab.subject.terminated is not None:
            break
    lab.settle(max_time=10.0)
    rec.remove()
    if lab.pg is not None:
        lab.pg.check_table("at the end")
    r = (rec.tokens(), rec.expected(), rec.npk, lab)
    _TIE[key] = (r[0], r[1], r[2], [(r_["exception"], r_["site"]) for r_ in lab.raised()],
                 list(lab.pg.problems) if lab.pg is not None else [])
    return _TIE[key]
