"""C01  Reliable, ordered, exactly-once stream delivery over any lossy network.

Tie: real client/server QuicConnection pairs (harness/sim) run application scripts over a network
that drops, delays, duplicates and reorders datagrams (adversarial phase, then fair phase).
 (i)  implementation oracle: the property sentence coded directly over the public events;
 (ii) trace correspondence: every run is projected, per stream and direction, to the abstract step
      trace of coq/model/NetSys.v (writes / STREAM frames emitted / frames processed by the receiver /
      ACKED-LOST outcomes / events popped) and replayed through the extracted model `exec_netsys`:
      every real step must be an enabled model step with the same output.
`sim` is imported inside the functions (the aioquic overlay is activated after this module loads)."""
import collections
import json
import os
import random
import subprocess
import time

from vlib import core, corr

DEPENDS = ["RangeSet", "StreamRecv", "StreamSend", "StreamSpec", "NetSys", "NetSysLive", "NetSysFC", "C01Consts", "C10", "C01"]
GENERATORS = ["c01_consts"]
TRUSTED_BASE = [
    "extraction (ExtrOcamlBasic only; Z kept as the extracted inductive) + coq/extract/driver.ml for running exec_netsys "
    "and exec_netsys_complete",
    "PyNet in harness/props/c01.py: the NetSys glue (enabledness, event queue) re-implemented around the real stream halves "
    "for the function-level suites",
    "harness/sim (virtual-time network, driver loop mirroring aioquic.asyncio, wire observer using aioquic's own "
    "CryptoContext for decryption, independent frame parser) and the projection in harness/props/c01.py",
    "the qlog extension point (a QuicLogger subclass) is trusted to report packet_sent / packet_received / packet_lost "
    "faithfully; outcomes ACKED/LOST of the model trace are read from it",
    "modelled, not verified: stream.py halves (C10 models) and the STREAM/RESET_STREAM glue of connection.py; "
    "timers, loss detection, congestion control, key update, CID change and migration are exercised, not modelled; "
    "connection-level flow control is modelled for ONE stream (coq/model/NetSysFC.v), multi-stream sharing of the credit and "
    "the stream-level window are exercised (flow-control scenario family), not modelled",
    "tools/gen/c01_consts.py (ast probe of _write_application / _write_stream_frame / _write_connection_limits / "
    "_handle_max_data_frame, fail closed) decides which base (highest_offset / next_offset) the theorems are instantiated with",
    "flow-control coverage counters and the credit compared in the NetSysFC traces read private attributes of the connection "
    "(_remote_max_data, _remote_max_data_used, sender._pending) before every datagrams_to_send(); no oracle verdict uses them",
]
ASSUMPTIONS = [
    "NetSys: every frame returned by get_frame joins `emitted` and every emitted frame gets at most one outcome, ACKED only "
    "after it was handed to the receiver (C08 callbacks_at_most_once, C12 ack soundness) -- checked on every replayed trace",
    "liveness (everything written is eventually delivered) is proved only over the model: nothing_forgotten, "
    "fair_schedule_completes (explicit bounded continuation from every reachable state), schedule_accounting / "
    "fair_rounds_complete / fair_round_exists (any schedule with unacked-many useful acknowledgements completes, and one is "
    "always possible); under the real timers it is observed on the explored runs, not proved",
    "NetSysFC: one stream per connection direction, stream-level limit not binding, initial window w > 0 at both ends; MAX_DATA "
    "frames may be lost, duplicated and reordered (any advertised value may arrive at any time)",
]

NO_CLOSE_CODES = ()
BYTE_TOK = ["%x" % i for i in range(256)]


# ======================================================================================
# scenarios (JSON-serialisable, everything derived from seeds)
# ======================================================================================
def script_to_json(script):
    out = []
    for it in script:
        a = {}
        for k, v in it.args.items():
            a[k] = {"hex": bytes(v).hex()} if isinstance(v, (bytes, bytearray)) else v
        out.append({"side": it.side, "op": it.op, "args": a, "t": it.t, "step": it.step})
    return out


def script_from_json(js):
    from sim import ScriptItem
    out = []
    for j in js:
        a = {}
        for k, v in j.get("args", {}).items():
            if isinstance(v, dict) and "hex" in v:
                v = bytes.fromhex(v["hex"])
            elif isinstance(v, dict) and "fill" in v:          # compact: n bytes derived from a seed
                v = random.Random(v.get("seed", 0)).randbytes(v["fill"])
            elif isinstance(v, list) and k == "addr":
                v = tuple(v)
            a[k] = v
        out.append(ScriptItem(j["side"], j["op"], a, t=j.get("t"), step=j.get("step")))
    return out


def build_script(sc):
    from sim import gen_script
    if sc.get("script") is not None:
        return script_from_json(sc["script"])
    prof = sc.get("profile", "small")
    return gen_script(random.Random("c01-script-%s" % sc["seed"]), prof)


def build_fate(sc, phase_start_elapsed):
    """Fate policy of a scenario.  kinds: perfect | random (adversarial then fair) | table (explicit per-index)."""
    from sim import Fates, adversarial_then_fair, deliver, drop, duplicate, Action
    f = sc.get("fate") or {"kind": "perfect"}
    kind = f["kind"]
    if kind == "perfect":
        return Fates.perfect()
    if kind == "random":
        adv = Fates.random(random.Random("c01-fate-%s" % sc["seed"]), f.get("p_drop", 0.0), f.get("p_dup", 0.0),
                           f.get("p_reorder", 0.0), f.get("max_delay", 0.05))
        return adversarial_then_fair(adv, fair_after_time=phase_start_elapsed + f.get("fair_after", 3.0))
    if kind == "table":
        # {"drop": [i..], "dup": [i..], "delay": {i: d}} relative to the first datagram after the handshake
        base = f.get("base", 0)
        drops = set(f.get("drop", []))
        dups = set(f.get("dup", []))
        dup_delay = f.get("dup_delay", 0.02)
        delays = {int(k): v for k, v in (f.get("delay") or {}).items()}

        def fate(index, direction, data):
            i = index - base
            if i in drops:
                return [drop()]
            acts = [Action("deliver", None, extra=delays.get(i, 0.0))]
            if i in dups:
                acts.append(duplicate(dup_delay))
            return acts
        return fate
    if kind == "burst":
        # per direction: skip the first `skip` datagrams sent after the handshake in that direction, lose the next
        # `drop` of them, then deliver everything (bounded adversarial phase by construction: skip + drop datagrams).
        # {"c2s": [[skip, drop], ...], "s2c": [[skip, drop], ...], "until": s}: the windows follow each other; whatever
        # is left of them `until` virtual seconds after the script started is forgotten (PTO probes back off
        # exponentially: without the time bound a long window would outlast the run)
        base = f.get("base", 0)
        wins = {d: [list(w) for w in ([f[d]] if f.get(d) and not isinstance(f[d][0], list) else (f.get(d) or []))]
                for d in ("c2s", "s2c")}
        seen = {"c2s": 0, "s2c": 0}

        def fate(index, direction, data):
            if index < base:
                return [deliver()]
            k = seen[direction]
            seen[direction] = k + 1
            lo = 0
            for skip, n in wins[direction]:
                lo += skip
                if lo <= k < lo + n:
                    return [drop()]
                lo += n
            return [deliver()]
        return adversarial_then_fair(fate, fair_after_time=phase_start_elapsed + f.get("until", 2.0))
    raise ValueError(kind)


# ======================================================================================
# running one scenario
# ======================================================================================
class Run:
    pass


def _make_logger(sink, side):
    from aioquic.quic.logger import QuicLogger, QuicLoggerTrace
    keep = ("transport:packet_sent", "transport:packet_received", "recovery:packet_lost", "transport:packet_dropped")

    class SeqTrace(QuicLoggerTrace):
        def log_event(self, *, category, event, data):
            name = category + ":" + event
            if name in keep:
                sink.append(("q", side, name, data))

    class SeqLogger(QuicLogger):
        def start_trace(self, is_client, odcid):
            trace = SeqTrace(is_client=is_client, odcid=odcid)
            self._traces.append(trace)
            return trace

    return SeqLogger()


def _fc_sample(ep):
    """Coverage only (never used for a verdict): the sender-side flow-control position of `ep` just before it builds
    datagrams -- remaining connection credit, and per stream with unsent / lost data: (stream id, stream credit,
    a lost range below highest_offset is waiting).  Private attributes; None when they are not there."""
    try:
        conn = ep.conn
        credit = conn._remote_max_data - conn._remote_max_data_used
        pend = []
        for sid, st in conn._streams.items():
            snd = st.sender
            if snd.buffer_is_empty or snd.reset_pending or st.is_blocked:
                continue
            if len(snd._pending) == 0:
                continue
            pend.append((sid, st.max_stream_data_remote - snd.highest_offset, snd.next_offset < snd.highest_offset))
        return ("s", ep.name, credit, pend)
    except Exception:
        return None


def _wrap_calls(ep, sink):
    orig = ep.call
    keep = ("send_stream_data", "reset_stream", "stop_stream", "next_event", "receive_datagram")

    def call(name, *args, **kwargs):
        n = len(ep.api_log)
        if name == "datagrams_to_send":
            smp = _fc_sample(ep)
            if smp is not None:
                sink.append(smp)
        try:
            return orig(name, *args, **kwargs)
        finally:
            if name in keep and len(ep.api_log) > n:
                sink.append(("c", ep.name, ep.api_log[n]))
    ep.call = call


def run_scenario(sc, keep_pair=False):
    """Run one scenario on the tree under test.  Never raises for behaviour of the tree: exceptions escaping
    API calls are recorded in run.api_exceptions."""
    import sim
    from sim import Pair, ApiRaised, SimStall
    from aioquic.quic import events as qe
    r = Run()
    r.sc = sc
    G = r.G = []
    r.api_exceptions = []
    r.stall = None
    ver = [sim.V2, sim.V1] if sc.get("ver", 1) == 2 else [sim.V1]
    cfgs = {}
    for side in ("client", "server"):
        # the harness may wait long for `after_seen` script items: keep the idle timer out of the picture
        cfgs[side] = {"quic_logger": _make_logger(G, side), "idle_timeout": 600.0}
        for k, v in (sc.get("config") or {}).items():
            cfgs[side][k] = v
        for k, v in (sc.get("config_" + side) or {}).items():      # e.g. a small max_data / max_stream_data on one side
            cfgs[side][k] = v
    early = bool(sc.get("faults_from_start"))
    pair = Pair(sc["seed"], client_config=cfgs["client"], server_config=cfgs["server"], versions=ver,
                congestion_control_algorithm=sc.get("cc", "reno"),
                fates=build_fate(sc, 0.0) if early else None)
    _wrap_calls(pair.client, G)
    _wrap_calls(pair.server, G)
    r.script = build_script(sc)
    r.outcomes = []
    r.phase = "handshake"
    try:
        ok = pair.handshake(max_time=60.0)
        r.handshake_ok = ok
        if ok:
            pair.run_until_idle(max_time=5.0, quiet=0.2)
            r.base_index = len(pair.network.wire_log)
            if not early:
                f = dict(sc.get("fate") or {"kind": "perfect"})
                if f["kind"] in ("table", "burst"):
                    f["base"] = r.base_index
                pair.network.set_fate(build_fate(dict(sc, fate=f), pair.clock.elapsed()))
            r.phase = "script"
            r.outcomes = pair.run_script(r.script, on_api_error="record", settle=False,
                                         after_seen_timeout=sc.get("after_seen_timeout", 5.0))
            r.phase = "fair"
            # the fair phase: from now on every datagram is delivered (the adversarial policy switches itself off by
            # time; make it explicit as well), timers fire when due, bounded virtual time
            truth = sim.script_truth(r.script, r.outcomes)
            r.truth = truth
            want = _expectations(truth)
            done = _make_done_predicate(pair, want)
            pair.run(done, max_time=sc.get("fair_time", 45.0))
            r.completed = done(pair)
            # let trailing acks / retransmissions drain so duplicates after completion are seen as well
            pair.run_until_idle(max_time=3.0, quiet=1.0)
    except ApiRaised as exc:
        r.api_exceptions.append({"call": exc.call.name, "endpoint": exc.call.endpoint, "exception": type(exc.exc).__name__,
                                 "message": str(exc.exc)[:200], "phase": r.phase})
    except SimStall as exc:
        r.stall = str(exc)
    if not hasattr(r, "truth"):
        r.truth = sim.script_truth(r.script, r.outcomes) if r.outcomes else {}
        r.completed = False
    r.elapsed = pair.clock.elapsed()
    r.n_datagrams = len(pair.network.wire_log)
    r.base_index = getattr(r, "base_index", 0)
    r.events = {"client": list(pair.client.events), "server": list(pair.server.events)}
    r.terminated = {}
    for ep in (pair.client, pair.server):
        t = ep.terminated
        if t is not None:
            r.terminated[ep.name] = {"error_code": int(t.error_code), "frame_type": t.frame_type, "reason": t.reason_phrase}
    r.script_errors = [(it.brief(), o) for it, o in r.outcomes if o not in (None, "skipped")]
    r.anomalies = list(pair.anomalies)
    r.pair = pair
    r.observer_packets = _index_observer(pair)
    r.path_frames = _path_frames(pair)
    # wire accounting of the server's budget towards the client's current address (RFC 9000 8.1: at most three times
    # the bytes received from an address that is not validated yet)
    wl = pair.network.wire_log
    r.delivered_idx = set(i for _, i, _, _ in pair.network.delivered)
    r.sent_index = {"client": [rec.index for rec in wl if rec.sender == "client"],
                    "server": [rec.index for rec in wl if rec.sender == "server"]}
    r.budget = {"received": sum(len(wl[i].data) for _, i, src, dst in pair.network.delivered
                                if src == pair.client.addr and dst == pair.server.addr),
                "sent": sum(len(rec.data) for rec in wl if rec.sender == "server" and rec.dst == pair.client.addr)}
    if not keep_pair:
        r.pair = None
    return r


def _expectations(truth):
    """{(receiver side, sid): (n_bytes, fin, reset)} for streams whose outcome is determined."""
    want = {}
    for (side, sid), t in truth.items():
        if t["stopped"] is not None:
            continue
        rx = "server" if side == "client" else "client"
        want[(rx, sid)] = (len(t["data"]), t["fin"], t["reset"] is not None)
    return want


def _make_done_predicate(pair, want):
    from aioquic.quic import events as qe
    state = {"client": [0, {}], "server": [0, {}]}    # events consumed, per-stream [bytes, ended, reset]

    def done(p):
        for ep in (p.client, p.server):
            st = state[ep.name]
            evs = ep.events
            while st[0] < len(evs):
                ev = evs[st[0]][1]
                st[0] += 1
                if isinstance(ev, qe.StreamDataReceived):
                    d = st[1].setdefault(ev.stream_id, [0, False, False])
                    d[0] += len(ev.data)
                    d[1] = d[1] or ev.end_stream
                elif isinstance(ev, qe.StreamReset):
                    st[1].setdefault(ev.stream_id, [0, False, False])[2] = True
                elif isinstance(ev, qe.ConnectionTerminated):
                    return True
        for (rx, sid), (n, fin, reset) in want.items():
            d = state[rx][1].get(sid, [0, False, False])
            if reset:
                if not (d[2] or (fin and d[1])):
                    return False
            elif d[0] < n or (fin and not d[1]):
                return False
        return True
    return done


def _path_frames(pair):
    """[(sender, 'PATH_CHALLENGE'|'PATH_RESPONSE', data)] seen on the wire."""
    out = []
    if pair.observer is None:
        return out
    for p in pair.observer.packets:
        if p.decrypted and p.sender is not None:
            for f in p.frames:
                if f.name in ("PATH_CHALLENGE", "PATH_RESPONSE"):
                    out.append((p.sender, f.name, bytes(f.fields.get("data", b"")), p.datagram_index))
    return out


def _index_observer(pair):
    """(sender, pn) -> list of STREAM / RESET_STREAM frames (1-RTT and 0-RTT packets) seen on the wire."""
    idx = {}
    if pair.observer is None:
        return idx
    for p in pair.observer.packets:
        if p.type in ("1rtt", "0rtt") and p.decrypted and p.sender is not None and not p.injected:
            key = (p.sender, p.pn)
            if key not in idx:
                idx[key] = [f for f in p.frames if f.name in ("STREAM", "RESET_STREAM")]
    return idx


# ======================================================================================
# flow-control coverage of a run (counters for the evidence; no verdict depends on them)
# ======================================================================================
FC_KEYS = ("conn_credit_zero_with_data_pending", "stream_credit_zero_with_data_pending",
           "lost_range_pending_at_zero_conn_credit", "lost_range_pending_at_zero_stream_credit",
           "retransmission_at_zero_conn_credit", "retransmission_at_zero_stream_credit",
           "max_data_frame_lost", "max_stream_data_frame_lost", "max_data_raised", "max_stream_data_raised",
           "tail_loss_over_half_window")


def fc_stats(r):
    """Which flow-control situations did this run go through?  From the samples taken before every datagrams_to_send()
    (sender-side credit, private attributes) and from the qlog (frames sent, packets lost)."""
    out = dict.fromkeys(FC_KEYS, False)
    last = {}            # side -> (credit, {sid: (stream credit, lost range waiting)})
    hi = {}              # (side, sid) -> highest end offset sent so far
    limit_pns = {}       # (side, pn) -> set of limit frame kinds in that packet
    sent_bytes = {"client": 0, "server": 0}
    for ent in r.G:
        if ent[0] == "s":
            _, side, credit, pend = ent
            last[side] = (credit, {sid: (sc_, lost) for sid, sc_, lost in pend})
            if pend and credit == 0:
                out["conn_credit_zero_with_data_pending"] = True
                if any(lost for _, _, lost in pend):
                    out["lost_range_pending_at_zero_conn_credit"] = True
            for sid, sc_, lost in pend:
                if sc_ == 0:
                    out["stream_credit_zero_with_data_pending"] = True
                    if lost:
                        out["lost_range_pending_at_zero_stream_credit"] = True
            continue
        if ent[0] != "q":
            continue
        _, side, name, data = ent
        if name == "transport:packet_sent":
            hdr = data.get("header", {})
            if hdr.get("packet_type") not in ("1RTT", "0RTT"):
                continue
            for fr in data["frames"]:
                ft = fr.get("frame_type")
                if ft == "stream":
                    k = (side, fr["stream_id"])
                    end = fr["offset"] + fr["length"]
                    if fr["length"] and fr["offset"] < hi.get(k, 0):
                        credit, per = last.get(side, (None, {}))
                        if credit == 0:
                            out["retransmission_at_zero_conn_credit"] = True
                        if per.get(fr["stream_id"], (None, None))[0] == 0:
                            out["retransmission_at_zero_stream_credit"] = True
                    if end > hi.get(k, 0):
                        hi[k] = end
                elif ft in ("max_data", "max_stream_data"):
                    limit_pns.setdefault((side, hdr["packet_number"]), set()).add(ft)
                    out[ft + "_raised"] = True
        elif name == "recovery:packet_lost":
            for ft in limit_pns.get((side, data.get("packet_number")), ()):
                out[ft + "_frame_lost"] = True
    # more than half of a binding window lost at the tail: the receiver has seen at most half of what the sender used
    fc = r.sc.get("fc") or {}
    if fc.get("window"):
        # evaluated at every packet_lost of the sender: bytes charged so far vs. highest offsets the receiver has seen
        hi2, rx2 = {}, {}
        for ent in r.G:
            if ent[0] != "q":
                continue
            _, side, name, data = ent
            if name == "transport:packet_sent":
                for fr in data["frames"]:
                    if fr.get("frame_type") == "stream":
                        k = (side, fr["stream_id"])
                        hi2[k] = max(hi2.get(k, 0), fr["offset"] + fr["length"])
            elif name == "recovery:packet_lost":
                rx = "server" if side == "client" else "client"
                used = sum(v for (s_, _), v in hi2.items() if s_ == side)
                got = sum(v for (s_, sid), v in rx2.items() if s_ == rx)
                if fc.get("mode") != "stream" and used >= fc["window"] and 2 * got <= fc["window"]:
                    out["tail_loss_over_half_window"] = True
                sw = fc.get("stream_window")
                if sw and any(v >= sw and 2 * rx2.get((rx, sid), 0) <= sw for (s_, sid), v in hi2.items() if s_ == side):
                    out["tail_loss_over_half_window"] = True
            elif name == "transport:packet_received":
                for fr in data["frames"]:
                    if fr.get("frame_type") == "stream":
                        k = (side, fr["stream_id"])
                        rx2[k] = max(rx2.get(k, 0), fr["offset"] + fr["length"])
    return out


# ======================================================================================
# (i) implementation oracle: the property sentence, directly over public behaviour
# ======================================================================================
def stall_cause(r, tx):
    """Why did a transfer from `tx` not complete although the network became fair?  Classified from the wire and the
    qlog only; None = unexplained."""
    rx = "server" if tx == "client" else "client"
    # (0) the sender sits on lost ranges it does not re-send while its flow-control credit is zero: the last sample of
    #     its credit (taken before its last datagrams_to_send) and the wire (no STREAM frame in its last datagrams)
    smp = [e for e in r.G if e[0] == "s" and e[1] == tx]
    if smp:
        _, _, credit, pend = smp[-1]
        lost_wait = [(sid, sc_) for sid, sc_, lost in pend if lost]
        tail = [fr for e in r.G if e[0] == "q" and e[1] == tx and e[2] == "transport:packet_sent"
                for fr in [e[3]["frames"]]][-4:]
        silent = bool(tail) and not any(f.get("frame_type") == "stream" for fr in tail for f in fr)
        if lost_wait and silent and (credit == 0 or any(sc_ <= 0 for _, sc_ in lost_wait)):
            return ("%s has lost ranges of stream(s) %s waiting below highest_offset but its last %d packets carry no STREAM "
                    "frame; remaining connection credit %d, stream credit %s: retransmission of bytes already charged is "
                    "held back by flow control, and the receiver raises the limit only after more data arrives (deadlock)"
                    % (tx, [sid for sid, _ in lost_wait], len(tail), credit, [sc_ for _, sc_ in lost_wait]),
                    {"defect": "retransmission_blocked_by_flow_control"})
    # (a) an endpoint keeps discarding everything it receives as undecryptable after a key update
    if any(it.op == "key_update" for it in r.script):
        for side in (tx, rx):
            tail = [e[2] for e in r.G if e[0] == "q" and e[1] == side and e[2] in ("transport:packet_received", "transport:packet_dropped")
                    and (e[2] != "transport:packet_dropped" or e[3].get("trigger") == "payload_decrypt_error")]
            n = 0
            while n < len(tail) and tail[-1 - n] == "transport:packet_dropped":
                n += 1
            if n >= 3:
                return ("%s discarded its last %d incoming packets as undecryptable (key update: old read keys dropped before "
                        "the peer switched)" % (side, n), {"defect": "key_update_old_keys_discarded"})
    # (b) a PATH_CHALLENGE of the sender was never answered and never repeated: its new path stays amplification-limited
    sent = [d for s_, n_, d, i_ in r.path_frames if s_ == tx and n_ == "PATH_CHALLENGE"]
    answered = set(d for s_, n_, d, i_ in r.path_frames if s_ == rx and n_ == "PATH_RESPONSE" and i_ in r.delivered_idx)
    last_idx = max([i_ for s_, n_, d, i_ in r.path_frames if s_ == tx and n_ == "PATH_CHALLENGE"] + [-1])
    n_after = len([i for i in r.sent_index[tx] if i > last_idx])
    if (sent and sent[-1] not in answered and tx == "server" and r.budget["sent"] + 40 > 3 * r.budget["received"]
            and n_after < 6):
        # nothing an endpoint may do: the path is unvalidated, the budget is spent, the peer is silent.  Any compliant
        # server is stuck here (RFC 9000 has no peer-side timer after the handshake); not counted against aioquic.
        return ("anti-amplification deadlock after the client's address change: server sent %d bytes to the new address, "
                "received %d from it, its PATH_CHALLENGE is unanswered and the client has nothing to send"
                % (r.budget["sent"], r.budget["received"]), {"defect": "inherent_anti_amplification_deadlock"})
    if sent and sent[-1] not in answered:
        return ("the last PATH_CHALLENGE of %s was never answered and never repeated although %s sent %d more datagrams "
                "(path stays unvalidated, the anti-amplification limit throttles and finally blocks the sender)"
                % (tx, tx, n_after), {"defect": "path_challenge_not_retransmitted"})
    return None


def oracle(r):
    """Returns a list of (what, signature) -- empty when the run satisfies C01."""
    from aioquic.quic import events as qe
    bad = []
    r.inherent = []
    for x in r.api_exceptions:
        bad.append(("%s.%s raised %s during the %s phase: %s" % (x["endpoint"], x["call"], x["exception"], x["phase"], x["message"]),
                    {"defect": "api_exception", "exception": x["exception"], "call": x["call"]}))
    if r.stall:
        bad.append(("simulation stalled: %s" % r.stall, {"defect": "timer_stall"}))
    if not getattr(r, "handshake_ok", False) and not r.api_exceptions:
        bad.append(("handshake did not complete within 60 virtual seconds", {"defect": "handshake_incomplete"}))
    for name, o in r.script_errors:
        bad.append(("script call refused: %s -> %s" % (name, o), {"defect": "script_call_raised", "exception": o}))
    # connection must not be closed by a network that only drops / delays / duplicates / reorders
    seen_codes = set()
    for side, t in sorted(r.terminated.items()):
        key = (t["error_code"], t["frame_type"], t["reason"])
        if key in seen_codes:
            continue
        seen_codes.add(key)
        if t["error_code"] == 0xA and t["frame_type"] == 0x1B:
            sig = {"defect": "dup_path_response_closes"}
        else:
            sig = {"defect": "connection_closed", "error_code": t["error_code"], "frame_type": t["frame_type"]}
        bad.append(("%s: ConnectionTerminated(error_code=0x%x, frame_type=%r, reason=%r) although the network only "
                    "dropped/delayed/duplicated/reordered datagrams" % (side, t["error_code"], t["frame_type"], t["reason"]), sig))
    closed = bool(r.terminated)
    # per stream and direction
    per = {"client": {}, "server": {}}
    for side in ("client", "server"):
        for t, ev in r.events[side]:
            if isinstance(ev, qe.StreamDataReceived):
                per[side].setdefault(ev.stream_id, []).append(("data", ev.data, ev.end_stream))
            elif isinstance(ev, qe.StreamReset):
                per[side].setdefault(ev.stream_id, []).append(("reset", ev.error_code, None))
    for rx in ("client", "server"):
        tx = "server" if rx == "client" else "client"
        for sid, evs in sorted(per[rx].items()):
            t = r.truth.get((tx, sid))
            written = t["data"] if t else b""
            fin_written = bool(t and t["fin"])
            got = 0
            ends = 0
            resets = 0
            for kind, data, end in evs:
                if kind != "data":
                    resets += 1
                    continue
                if ends and data:
                    bad.append(("%s stream %d: %d bytes delivered after end-of-stream" % (rx, sid, len(data)),
                                {"defect": "data_after_end"}))
                if written[got:got + len(data)] != data:
                    bad.append(("%s stream %d: delivered bytes [%d,%d) are not the bytes written there "
                                "(written %d bytes)" % (rx, sid, got, got + len(data), len(written)),
                                {"defect": "not_a_prefix"}))
                    break
                got += len(data)
                if end:
                    ends += 1
                    if ends == 1 and resets and not fin_written:
                        bad.append(("%s stream %d: end-of-stream reported after StreamReset although no end-of-stream was "
                                    "ever written (%d bytes delivered)" % (rx, sid, got), {"defect": "spurious_end_stream"}))
                    elif ends == 1 and (not fin_written or got != len(written)):
                        bad.append(("%s stream %d: end-of-stream reported after %d of %d written bytes (fin written: %s)"
                                    % (rx, sid, got, len(written), fin_written), {"defect": "early_end"}))
            if ends > 1:
                bad.append(("%s stream %d: end-of-stream reported %d times" % (rx, sid, ends),
                            {"defect": "spurious_end_stream"}))
    # completeness after the fair phase
    if getattr(r, "handshake_ok", False) and not closed and not r.api_exceptions and not r.stall and r.phase == "fair":
        for (tx, sid), t in sorted(r.truth.items()):
            if t["stopped"] is not None:
                continue
            rx = "server" if tx == "client" else "client"
            evs = per[rx].get(sid, [])
            got = sum(len(d) for k, d, e in evs if k == "data")
            ended = any(e for k, d, e in evs if k == "data")
            was_reset = any(k == "reset" for k, d, e in evs)
            incomplete = (not was_reset and not (t["fin"] and ended)) if t["reset"] is not None else \
                (got < len(t["data"]) or (t["fin"] and not ended))
            cause = stall_cause(r, tx) if incomplete else None
            if cause and cause[1]["defect"].startswith("inherent_"):
                r.inherent.append("%s stream %d: %s" % (tx, sid, cause[0]))
                continue
            if cause:
                bad.append(("%s stream %d: %d of %d written bytes delivered after the fair phase (%.1f virtual s): %s"
                            % (tx, sid, got, len(t["data"]), r.elapsed, cause[0]), cause[1]))
                continue
            if t["reset"] is not None:
                if incomplete:
                    bad.append(("%s stream %d: reset by the sender but neither StreamReset nor the complete stream "
                                "reached the receiver after the fair phase" % (tx, sid), {"defect": "reset_not_delivered"}))
                continue
            if got < len(t["data"]):
                bad.append(("%s stream %d: only %d of %d written bytes delivered after the fair phase (%.1f virtual s)"
                            % (tx, sid, got, len(t["data"]), r.elapsed), {"defect": "data_not_delivered"}))
            elif t["fin"] and not ended:
                fins = [f for (s, pn), fr in r.observer_packets.items() if s == tx
                        for f in fr if f.name == "STREAM" and f.fields["stream_id"] == sid and f.fields["fin"]]
                bad.append(("%s stream %d: all %d bytes delivered but the written end-of-stream never was "
                            "(%d FIN-bearing frames on the wire, %.1f virtual s)" % (tx, sid, got, len(fins), r.elapsed),
                            {"defect": "fin_only_frame_dropped" if len(t["data"]) == got else "fin_not_delivered"}))
    return bad


# ======================================================================================
# (ii) projection of a run to NetSys step traces, one per (sender side, stream)
# ======================================================================================
class Projection:
    def __init__(self):
        self.toks = []          # model input
        self.exp = []           # per op: expected output tokens
        self.ops = []           # per op: short description
        self.problems = []      # things the projection itself could not explain

    def add(self, toks, exp, desc):
        self.toks += toks
        self.exp.append(exp)
        self.ops.append(desc)


def _in_ranges(pn, ranges):
    for lo, hi in ranges:
        if lo <= pn <= hi:
            return True
    return False


def project(r):
    """{(tx side, sid): Projection}"""
    from aioquic.quic import events as qe
    streams = set(r.truth.keys())
    P = {k: Projection() for k in streams}
    st = {}
    for k in streams:
        st[k] = {"emitted": [], "by_pn": {}, "resets": [], "rby_pn": {}, "done": set(), "rdone": set(),
                 "rx_reset": False, "dirty": False, "ended": False}
    other = {"client": "server", "server": "client"}
    for ent in r.G:
        if ent[0] == "s":
            continue
        if ent[0] == "c":
            side, call = ent[1], ent[2]
            if call.exc_type is not None:
                continue
            if call.name == "send_stream_data":
                k = (side, call.args[0])
                if k in P:
                    data = bytes(call.args[1])
                    fin = bool(call.kwargs.get("end_stream", call.args[2] if len(call.args) > 2 else False))
                    P[k].add([0, int(fin), len(data)] + list(data), [0], "write %d fin=%d" % (len(data), fin))
            elif call.name == "reset_stream":
                k = (side, call.args[0])
                if k in P:
                    P[k].add([4, call.args[1]], [0], "reset")
            elif call.name == "next_event":
                ev = call.result
                rx = side
                if ev is None:
                    for k in streams:
                        if k[0] == other[rx] and st[k]["dirty"]:
                            st[k]["dirty"] = False
                            P[k].add([9], [7, 0], "sync")
                elif isinstance(ev, qe.StreamDataReceived):
                    k = (other[rx], ev.stream_id)
                    if k in P and not st[k]["rx_reset"]:
                        st[k]["ended"] = st[k]["ended"] or ev.end_stream
                        P[k].add([8], [5, int(ev.end_stream), len(ev.data)] + list(ev.data),
                                 "event data %d end=%d" % (len(ev.data), ev.end_stream))
                elif isinstance(ev, qe.StreamReset):
                    k = (other[rx], ev.stream_id)
                    # compared up to the first accepted reset (as in C10); a StreamReset after the end of the stream
                    # was reported is outside the model (NetSys reports nothing once the receive half has finished)
                    if k in P and not st[k]["rx_reset"] and st[k].get("reset_due"):
                        st[k]["rx_reset"] = True
                        if not st[k]["ended"]:
                            P[k].add([8], [6], "event reset")
            continue
        _, side, name, data = ent
        hdr = data.get("header", {})
        if name == "transport:packet_sent":
            if hdr.get("packet_type") not in ("1RTT", "0RTT"):
                continue
            pn = hdr["packet_number"]
            wire = None
            for fr in data["frames"]:
                ft = fr.get("frame_type")
                if ft == "stream":
                    k = (side, fr["stream_id"])
                    if k not in P:
                        continue
                    if wire is None:
                        wire = r.observer_packets.get((side, pn), [])
                    m = [w for w in wire if w.name == "STREAM" and w.fields["stream_id"] == fr["stream_id"]
                         and w.fields["offset"] == fr["offset"] and len(w.fields["data"]) == fr["length"]
                         and bool(w.fields["fin"]) == bool(fr["fin"])]
                    if not m:
                        P[k].problems.append("packet %s/%d: STREAM frame logged as sent but not seen by the wire observer" % (side, pn))
                        continue
                    payload = bytes(m[0].fields["data"])
                    s = st[k]
                    idx = len(s["emitted"])
                    s["emitted"].append((pn, fr["offset"], fr["length"], bool(fr["fin"])))
                    s["by_pn"].setdefault(pn, []).append(idx)
                    P[k].add([1, len(payload), 0], [1, fr["offset"], int(bool(fr["fin"])), len(payload)] + list(payload),
                             "emit pn=%d [%d,%d) fin=%d" % (pn, fr["offset"], fr["offset"] + fr["length"], fr["fin"]))
                elif ft == "reset_stream":
                    k = (side, fr["stream_id"])
                    if k not in P:
                        continue
                    s = st[k]
                    j = len(s["resets"])
                    s["resets"].append((pn, fr["final_size"]))
                    s["rby_pn"].setdefault(pn, []).append(j)
                    P[k].add([5], [4, fr["final_size"]], "emit reset pn=%d final=%d" % (pn, fr["final_size"]))
        elif name == "recovery:packet_lost":
            if data.get("type") not in ("1RTT", "0RTT"):
                continue
            pn = data["packet_number"]
            for k in streams:
                if k[0] != side:
                    continue
                s = st[k]
                for idx in s["by_pn"].get(pn, []):
                    if idx not in s["done"]:
                        s["done"].add(idx)
                        P[k].add([3, idx, 0], [0], "lost #%d pn=%d" % (idx, pn))
                for j in s["rby_pn"].get(pn, []):
                    if j not in s["rdone"]:
                        s["rdone"].add(j)
                        P[k].add([7, 0], [0], "reset lost pn=%d" % pn)
        elif name == "transport:packet_received":
            if hdr.get("packet_type") not in ("1RTT", "0RTT"):
                continue
            pn = hdr["packet_number"]
            tx = other[side]
            for fr in data["frames"]:
                ft = fr.get("frame_type")
                if ft == "ack":
                    ranges = fr["acked_ranges"]
                    for k in streams:
                        if k[0] != side:
                            continue
                        s = st[k]
                        for p2 in sorted(s["by_pn"]):
                            if _in_ranges(p2, ranges):
                                for idx in s["by_pn"][p2]:
                                    if idx not in s["done"]:
                                        s["done"].add(idx)
                                        P[k].add([3, idx, 1], [0], "acked #%d pn=%d" % (idx, p2))
                        for p2 in sorted(s["rby_pn"]):
                            if _in_ranges(p2, ranges):
                                for j in s["rby_pn"][p2]:
                                    if j not in s["rdone"]:
                                        s["rdone"].add(j)
                                        P[k].add([7, 1], [0], "reset acked pn=%d" % p2)
                elif ft == "stop_sending":
                    k = (side, fr["stream_id"])
                    if k in P:
                        P[k].add([4, 0], [0], "stop_sending received -> reset")
                elif ft == "stream":
                    k = (tx, fr["stream_id"])
                    if k not in P:
                        continue
                    s = st[k]
                    cand = [i for i in s["by_pn"].get(pn, [])
                            if s["emitted"][i][1:] == (fr["offset"], fr["length"], bool(fr["fin"]))]
                    if not cand:
                        P[k].problems.append("%s processed STREAM frame pn=%d [%d,+%d) that %s never emitted"
                                             % (side, pn, fr["offset"], fr["length"], tx))
                        continue
                    s["dirty"] = True
                    P[k].add([2, cand[0]], [0], "deliver #%d pn=%d" % (cand[0], pn))
                elif ft == "reset_stream":
                    k = (tx, fr["stream_id"])
                    if k not in P:
                        continue
                    s = st[k]
                    cand = [j for j in s["rby_pn"].get(pn, []) if s["resets"][j][1] == fr["final_size"]]
                    if not cand:
                        P[k].problems.append("%s processed RESET_STREAM pn=%d that %s never emitted" % (side, pn, tx))
                        continue
                    s["dirty"] = True
                    s["reset_due"] = True
                    P[k].add([6, cand[0]], [0], "deliver reset #%d" % cand[0])
    return P


# ======================================================================================
# (ii-b) projection of a run with ONE data stream per direction to a step trace of coq/model/NetSysFC.v
#        (NetSys + the connection-level credit): the frames the sender emits must fit the model's max_offset, the
#        credit the real sender holds before every datagrams_to_send() must be the model's, every MAX_DATA value the
#        receiver puts on the wire must be the model's raised limit, no delivery may be a FLOW_CONTROL_ERROR
# ======================================================================================
def project_fc(r, base_code):
    """{(tx, sid): (tokens, [(expected out tokens, credit|None, lval|None, lused|None, description)])} for every
    direction of the run in which exactly one stream carries data and only the connection-level window is configured."""
    fc = r.sc.get("fc") or {}
    if fc.get("mode") != "conn" or not getattr(r, "handshake_ok", False):
        return {}
    other = {"client": "server", "server": "client"}
    out = {}
    for tx in ("client", "server"):
        sids = [sid for (side, sid), t in r.truth.items() if side == tx]
        if len(sids) != 1 or r.truth[(tx, sids[0])]["reset"] is not None:
            continue
        sid, rx = sids[0], other[tx]
        w = (r.sc.get("config_" + rx) or {}).get("max_data", 1048576)
        toks, exp = [base_code, w], []
        emitted, by_pn, done = [], {}, set()
        ok = True
        for ent in r.G:
            if ent[0] == "s":
                if ent[1] == tx and exp and exp[-1][1] is None:
                    e = exp[-1]
                    exp[-1] = (e[0], ent[2], e[2], e[3], e[4] + " / credit sampled %d" % ent[2])
                continue
            if ent[0] == "c":
                side, call = ent[1], ent[2]
                if side == tx and call.name == "send_stream_data" and call.exc_type is None and call.args[0] == sid:
                    data = bytes(call.args[1])
                    fin = bool(call.kwargs.get("end_stream", call.args[2] if len(call.args) > 2 else False))
                    toks += [0, int(fin), len(data)] + list(data)
                    exp.append(([0], None, None, None, "write %d fin=%d" % (len(data), fin)))
                continue
            _, side, name, data = ent
            hdr = data.get("header", {})
            if name == "transport:packet_sent" and hdr.get("packet_type") in ("1RTT", "0RTT"):
                pn = hdr["packet_number"]
                for fr in data["frames"]:
                    ft = fr.get("frame_type")
                    if ft == "stream" and side == tx and fr["stream_id"] == sid:
                        wire = [w_ for w_ in r.observer_packets.get((side, pn), []) if w_.name == "STREAM"
                                and w_.fields["stream_id"] == sid and w_.fields["offset"] == fr["offset"]
                                and len(w_.fields["data"]) == fr["length"]]
                        if not wire:
                            ok = False
                            continue
                        payload = bytes(wire[0].fields["data"])
                        by_pn.setdefault(pn, []).append(len(emitted))
                        emitted.append((pn, fr["offset"], fr["length"], bool(fr["fin"])))
                        toks += [1, len(payload)]
                        exp.append(([1, fr["offset"], int(bool(fr["fin"])), len(payload)] + list(payload), None, None, None,
                                    "emit pn=%d [%d,%d) fin=%d" % (pn, fr["offset"], fr["offset"] + fr["length"], fr["fin"])))
                    elif ft == "max_data" and side == rx:
                        toks += [4]
                        exp.append(([0], None, fr["maximum"], None, "receiver sends MAX_DATA %d" % fr["maximum"]))
            elif name == "transport:packet_received" and hdr.get("packet_type") in ("1RTT", "0RTT"):
                pn = hdr["packet_number"]
                for fr in data["frames"]:
                    ft = fr.get("frame_type")
                    if ft == "stream" and side == rx and fr["stream_id"] == sid:
                        cand = [i for i in by_pn.get(pn, []) if emitted[i][1:] == (fr["offset"], fr["length"], bool(fr["fin"]))]
                        if not cand:
                            ok = False
                            continue
                        toks += [2, cand[0]]
                        exp.append(([0], None, None, None, "deliver #%d pn=%d" % (cand[0], pn)))
                    elif ft == "max_data" and side == tx:
                        toks += [5, fr["maximum"]]
                        exp.append(([0], None, None, None, "sender receives MAX_DATA %d" % fr["maximum"]))
                    elif ft == "ack" and side == tx:
                        for p2 in sorted(by_pn):
                            if _in_ranges(p2, fr["acked_ranges"]):
                                for idx in by_pn[p2]:
                                    if idx not in done:
                                        done.add(idx)
                                        toks += [3, idx, 1]
                                        exp.append(([0], None, None, None, "acked #%d" % idx))
            elif name == "recovery:packet_lost" and side == tx and data.get("type") in ("1RTT", "0RTT"):
                for idx in by_pn.get(data["packet_number"], []):
                    if idx not in done:
                        done.add(idx)
                        toks += [3, idx, 0]
                        exp.append(([0], None, None, None, "lost #%d" % idx))
        if ok and len(exp) > 1:
            out[(tx, sid)] = (toks, exp)
    return out


def fc_mismatch(exp, got):
    """first op at which the model's output (frame / result token, then credit, limit, receiver's used) is not the
    implementation's; None = don't care"""
    pos = 0
    for i, (o, credit, lval, lused, desc) in enumerate(exp):
        g = got[pos:pos + len(o) + 3]
        want = list(o) + [credit, lval, lused]
        if len(g) != len(want) or any(w_ is not None and w_ != g_ for w_, g_ in zip(want, g)):
            return i, desc, [("*" if w_ is None else w_) for w_ in want[:8] + want[-3:]], g[:8] + g[-3:]
        pos += len(want)
    return None


def _big_stack():
    # the extracted model recurses over token lists (List.map, app, firstn ... are not tail recursive)
    import resource
    soft, hard = resource.getrlimit(resource.RLIMIT_STACK)
    want = 1 << 30
    if hard != resource.RLIM_INFINITY:
        want = min(want, hard)
    try:
        resource.setrlimit(resource.RLIMIT_STACK, (want, hard))
    except (ValueError, OSError):
        pass


def run_models(cases, shards=None):
    """cases: list of token lists -> list of output token lists, through the extracted driver (own encoder: bytes
    dominate, so use a table instead of formatting every token)."""
    if not cases:
        return []
    if not os.path.exists(core.DRIVER):
        raise core.BuildError("extracted driver missing")
    _big_stack()          # in this process (inherited by the children; a preexec_fn would force a slow fork)
    shards = shards or min(4, core.NPROC, max(1, len(cases)))    # few processes: start-up dominates on a loaded machine
    chunks = [cases[i::shards] for i in range(shards)]
    procs = []
    for ch in chunks:
        lines = []
        for c in ch:
            lines.append("exec_netsys " + " ".join(BYTE_TOK[v] if 0 <= v < 256 else core.tok(v) for v in c))
        p = subprocess.Popen([core.DRIVER], stdin=subprocess.PIPE, stdout=subprocess.PIPE, stderr=subprocess.PIPE, text=True,
                             )
        procs.append((p, "\n".join(lines) + "\n"))
    import threading
    outs = [None] * len(procs)

    def work(i):
        p, inp = procs[i]
        o, e = p.communicate(inp)
        outs[i] = (p.returncode, o, e)
    ths = [threading.Thread(target=work, args=(i,)) for i in range(len(procs))]
    for t in ths:
        t.start()
    for t in ths:
        t.join()
    res = [None] * len(cases)
    for i, (rc, o, e) in enumerate(outs):
        if rc != 0:
            raise core.BuildError("model driver failed: " + e[-500:])
        lines = o.split("\n")
        for kk, idx in enumerate(range(i, len(cases), shards)):
            line = lines[kk].strip()
            res[idx] = [int(t, 16) if t[0] != "-" else -int(t[1:], 16) for t in line.split(" ")] if line else []
    return res


def first_mismatch(proj, got):
    """Index of the first op whose expected output differs from the model's, with both outputs."""
    pos = 0
    for i, e in enumerate(proj.exp):
        g = got[pos:pos + len(e)]
        if g != e:
            # the model may have printed a shorter/longer output for this op: show what is there
            return i, e[:12], got[pos:pos + 12]
        pos += len(e)
    if pos != len(got):
        return len(proj.exp), [], got[pos:pos + 12]
    return None


# ======================================================================================
# scenario generators
# ======================================================================================
def gen_random_scenarios(rng, n, big=False):
    out = []
    for i in range(n):
        seed = rng.randrange(1 << 30)
        r = rng.random()
        if r < 0.55:
            profile = "small"
        elif r < 0.8:
            profile = {"streams": rng.randint(2, 6), "max_size": rng.choice([4096, 8192, 16384]), "span": 1.0}
        else:
            profile = "mixed" if big or rng.random() < 0.5 else {"streams": 4, "max_size": 20000}
        fr = rng.random()
        if fr < 0.1:
            fate = {"kind": "perfect"}
        else:
            fate = {"kind": "random", "p_drop": rng.choice([0.0, 0.05, 0.1, 0.2, 0.3]), "p_dup": rng.choice([0.0, 0.05, 0.1, 0.2]),
                    "p_reorder": rng.choice([0.0, 0.1, 0.3]), "max_delay": rng.choice([0.01, 0.05, 0.2]),
                    "fair_after": rng.choice([0.5, 1.0, 2.0, 4.0, 6.0])}
        out.append({"seed": seed, "profile": profile, "cc": rng.choice(["reno", "cubic"]), "ver": rng.choice([1, 2]),
                    "fate": fate, "faults_from_start": rng.random() < 0.15})
    return out


def _own_ids(side):
    """stream ids `side` may open: bidirectional, unidirectional"""
    return ([0, 4, 8, 12], [2, 6, 10, 14]) if side == "client" else ([1, 5, 9, 13], [3, 7, 11, 15])


def fc_scenario(seed, window, mode, txs, sizes, fate, cc="reno", ver=1, stream_window=None, spread=0.0, lone_fin=False,
                name=None):
    """A transfer against a BINDING flow-control window: the receiver of every sender in `txs` advertises
    max_data = window (mode conn / both) and / or max_stream_data = stream_window (mode stream / both); `sizes` are the
    bytes written per stream (all at script time 0 .. spread, competing for the connection credit)."""
    other = {"client": "server", "server": "client"}
    script = []
    sc = {"seed": seed, "cc": cc, "ver": ver, "fate": fate,
          "fc": {"window": window, "mode": mode, "stream_window": stream_window, "senders": list(txs)}}
    if name:
        sc["name"] = name
    rs = random.Random("c01-fc-script-%s" % seed)
    for tx in txs:
        cfg = sc.setdefault("config_" + other[tx], {})
        if mode in ("conn", "both"):
            cfg["max_data"] = window
        if mode in ("stream", "both"):
            cfg["max_stream_data"] = stream_window
        bidi, uni = _own_ids(tx)
        for j, n in enumerate(sizes):
            sid = (uni if rs.random() < 0.3 else bidi).pop(0)
            t = round(rs.uniform(0.0, spread), 4) if spread else 0.0
            if lone_fin and j == 0:
                script.append(_w(tx, sid, n, False, t, seed=seed % 1000 + j))
                script.append(_w(tx, sid, 0, True, round(t + 0.3, 4)))
            else:
                script.append(_w(tx, sid, n, rs.random() < 0.85, t, seed=seed % 1000 + j))
    script.sort(key=lambda it: it["t"])
    sc["script"] = script
    return sc


def _split(rng, total, k):
    if k <= 1 or total < k:
        return [total]
    cuts = sorted(rng.sample(range(1, total), k - 1))
    return [b - a for a, b in zip([0] + cuts, cuts + [total])]


def gen_fc_scenarios(rng, n):
    """Liveness under a binding connection-level / stream-level window combined with loss: windows 2 k - 64 k that the
    writes exhaust exactly (or by one byte less / more, or several times over), 1-4 competing streams, one or both
    directions; bursts that lose the tail of the flight (more than half of the window) and / or the receiver's first
    datagrams (ACK + MAX_DATA / MAX_STREAM_DATA), or heavy random loss; then a fair network."""
    out = []
    other = {"client": "server", "server": "client"}
    for _ in range(n):
        seed = rng.randrange(1 << 30)
        W = rng.choice([2048, 3000, 4096, 6000, 8192, 12000, 16384, 24000, 32768, 65536])
        mode = rng.choice(["conn", "conn", "conn", "stream", "both"])
        txs = rng.choice([["client"], ["server"], ["client", "server"]])
        k = rng.choice([1, 1, 2, 3, 4])
        SW = None
        if mode == "stream":
            SW = W
            sizes = [rng.choice([W, W, 2 * W, W + 1, W - 1, 3 * W // 2 + rng.randrange(100)]) for _ in range(k)]
        else:
            total = rng.choice([W, W, W, W + 1, W - 1, 2 * W, 3 * W + rng.randrange(1, 2000), 5 * W // 4])
            sizes = _split(rng, total, k)
            if mode == "both":
                SW = rng.choice([W, max(1024, W // 2), max(1024, W // 4)])
        # datagrams that make up half of the binding window (1200-byte payloads)
        half = max(1, (min(W, SW or W) // 2) // 1200)
        fr = rng.random()
        fwd = lambda: [rng.choice([0, 1, max(0, half - 1), half, min(10, half + 1)]), rng.choice([3, 6, 12, 24, 40])]
        rev = lambda: [rng.choice([0, 0, 1, 2]), rng.choice([1, 2, 3, 6])]
        if fr < 0.08:
            fate = {"kind": "perfect"}
        elif fr < 0.30:
            fate = {"kind": "random", "p_drop": rng.choice([0.2, 0.3, 0.5]), "p_dup": rng.choice([0.0, 0.1]),
                    "p_reorder": rng.choice([0.0, 0.2]), "max_delay": rng.choice([0.01, 0.05]),
                    "fair_after": rng.choice([0.3, 1.0, 2.0])}
        else:
            fate = {"kind": "burst", "until": rng.choice([0.5, 1.0, 2.0, 4.0])}
            shape = rng.choice(["tail", "tail", "tail", "rev", "tail+rev", "tail+rev", "two"])
            for tx in txs:
                d, b = ("c2s", "s2c") if tx == "client" else ("s2c", "c2s")
                if shape in ("tail", "tail+rev", "two"):
                    fate.setdefault(d, []).append(fwd())
                if shape == "two":
                    fate[d].append([rng.choice([1, 2, 4]), rng.choice([2, 5, 10])])
                if shape in ("rev", "tail+rev"):
                    fate.setdefault(b, []).append(rev())
        out.append(fc_scenario(seed, W, mode, txs, sizes, fate, cc=rng.choice(["reno", "cubic"]), ver=rng.choice([1, 2]),
                               stream_window=SW, spread=rng.choice([0.0, 0.0, 0.02, 0.2]), lone_fin=rng.random() < 0.15))
    return out


def fc_grid():
    """Deterministic core of the family: the window is exhausted exactly by one write burst and everything but the first
    `keep` datagrams of the flight is lost (so the receiver has seen at most half of the window and will not raise the
    limit before lost data is re-sent); once with the receiver's first answer lost as well."""
    out = []
    i = 0
    for W, keeps, drop in ((3000, (0, 1), 12), (6000, (0, 1, 2), 12), (12000, (0, 2, 4), 16), (24000, (9,), 20), (32768, (10, 12), 30)):
        for tx in ("client", "server"):
            for keep in keeps:
                d, b = ("c2s", "s2c") if tx == "client" else ("s2c", "c2s")
                fate = {"kind": "burst", d: [[keep, drop]]}
                if i % 3 == 2:
                    fate[b] = [[0, 2]]
                mode = "conn" if i % 4 != 3 else "stream"
                sizes = [W] if mode == "stream" or i % 2 == 0 else [W // 2, W - W // 2]
                if i % 5 == 4:
                    sizes = [s_ * 3 for s_ in sizes]
                out.append(fc_scenario(7000 + i, W, mode, [tx], sizes, fate, cc=("reno", "cubic")[i % 2], ver=(1, 2)[(i // 2) % 2],
                                       stream_window=W if mode == "stream" else None, name="fc_grid_%d" % i))
                i += 1
    return out


def _w(side, sid, n, fin, t, seed=0):
    return {"side": side, "op": "write", "args": {"stream": sid, "data": {"fill": n, "seed": seed}, "fin": fin}, "t": t}


FIXED_SCRIPTS = {
    # client bulk + lone empty FIN on a second stream (the packet being built is full when the FIN-only frame is asked for)
    "fin_only_after_bulk": [_w("client", 0, 5000, False, 0.0, 1), _w("client", 4, 0, True, 0.0)],
    # request / response on a bidirectional stream, both directions with FIN
    "bidi_echo": [_w("client", 0, 3000, True, 0.0, 2),
                  {"side": "server", "op": "write", "args": {"stream": 0, "data": {"fill": 2500, "seed": 3}, "fin": True, "after_seen": True}, "t": 0.05}],
    # NAT rebinding of the client in the middle of a transfer (path validation in both directions)
    "rebind_mid_transfer": [_w("client", 0, 2000, False, 0.0, 4), {"side": "client", "op": "rebind", "args": {}, "t": 0.1},
                            {"side": "client", "op": "ping", "args": {"uid": 1}, "t": 0.1}, _w("client", 0, 2000, True, 0.15, 5),
                            _w("server", 3, 1500, True, 0.2, 6)],
    # unidirectional streams both ways, FIN as a separate empty write, key update and CID change in between
    "uni_keyupdate": [_w("client", 2, 1300, False, 0.0, 7), {"side": "client", "op": "key_update", "args": {}, "t": 0.02},
                      _w("server", 3, 700, False, 0.02, 8), {"side": "server", "op": "change_cid", "args": {}, "t": 0.03},
                      _w("client", 2, 0, True, 0.05), _w("server", 3, 64, True, 0.06, 9)],
    # a stream that is reset after part of its data, next to one that completes
    "reset_partial": [_w("client", 0, 4000, False, 0.0, 10), _w("server", 1, 1000, True, 0.0, 11),
                      {"side": "client", "op": "reset", "args": {"stream": 0, "code": 7}, "t": 0.03}],
    # the client is rebound, then downloads: the server's new path must get validated for the transfer to proceed
    "rebind_download": [{"side": "client", "op": "rebind", "args": {}, "t": 0.0}, {"side": "client", "op": "ping", "args": {"uid": 2}, "t": 0.0},
                        _w("server", 3, 30000, True, 0.05, 17)],
    # the server updates its keys while it only has acknowledgements to send; the client keeps uploading
    "key_update_upload": [_w("client", 0, 1000, False, 0.0, 18), {"side": "server", "op": "key_update", "args": {}, "t": 0.05},
                          _w("client", 0, 1000, False, 0.1, 19), _w("client", 0, 1000, True, 0.6, 20)],
    # several small streams in one flight
    "many_small": [_w("client", 0, 10, True, 0.0, 12), _w("client", 4, 200, True, 0.0, 13), _w("client", 2, 1, True, 0.0, 14),
                   _w("server", 1, 300, True, 0.0, 15), _w("server", 3, 0, True, 0.01), _w("client", 8, 1200, True, 0.01, 16)],
}


def fixed_scenario(name, fate=None, seed=1, cc="reno", ver=1):
    return {"seed": seed, "script": FIXED_SCRIPTS[name], "name": name, "cc": cc, "ver": ver, "fate": fate or {"kind": "perfect"}}


def single_fault_scenarios(name, n_after, kinds=("drop", "dup"), seed=1):
    out = []
    for i in range(n_after):
        for k in kinds:
            out.append(fixed_scenario(name, {"kind": "table", k: [i]}, seed=seed))
    return out


# ======================================================================================
# suite
# ======================================================================================
class SimSuite:
    """Runs scenarios, the oracle and the trace correspondence; shaped like corr.Suite for merge_coverage."""

    def __init__(self, ctx, name="netsys"):
        self.ctx, self.name = ctx, name
        self.stats = {"cases": 0, "steps": 0, "disagreements": 0, "oracle_failures": 0, "distinct_nontrivial": 0,
                      "op_histogram": collections.Counter(), "size_histogram": collections.Counter(),
                      "outcome_histogram": collections.Counter(), "samples": [], "wall_s": 0.0,
                      "stream_traces_replayed": 0, "stream_traces_skipped_too_big": 0, "model_tokens": 0,
                      "bytes_written": 0, "datagrams": 0, "fates": collections.Counter(), "virtual_s": 0.0,
                      "incomplete_runs": 0,
                      # flow-control coverage: number of RUNS in which the situation occurred at least once (fc_stats)
                      "flow_control": dict.fromkeys(FC_KEYS, 0), "flow_control_runs": 0}
        self._seen = set()
        self.found = {}           # signature key -> (size, what, sig, scenario, extra)
        # replaying a trace costs about 20 ms per step on a 60 KB stream in the extracted model (Z and nat stay the
        # extracted inductives): the quick tier replays the traces up to this size, the thorough tier nearly all
        self.max_tokens = 400000 if ctx.thorough else 30000
        self.fc_base_code = None      # 0 / 1: which base the tree computes max_offset from (tools/gen/c01_consts.py)
        self.fc_pending = []

    def note(self, what, sig, sc, size, kind="impl-violation", extra=None):
        key = json.dumps(sig, sort_keys=True)
        cur = self.found.get(key)
        if cur is None or size < cur[0]:
            self.found[key] = (size, what, sig, sc, kind, extra)

    def run(self, scenarios, label=""):
        t0 = time.time()
        st = self.stats
        pending = []         # (scenario, key, projection)
        for sc in scenarios:
            r = run_scenario(sc)
            st["cases"] += 1
            st["datagrams"] += r.n_datagrams
            st["virtual_s"] += r.elapsed
            st["fates"][(sc.get("fate") or {}).get("kind", "perfect")] += 1
            if sc.get("fc"):
                st["fates"]["window:%s" % sc["fc"]["mode"]] += 1
            nbytes = sum(len(t["data"]) for t in r.truth.values())
            st["bytes_written"] += nbytes
            st["size_histogram"][corr._bucket(len(r.script))] += 1
            for it in r.script:
                st["op_histogram"][it.op] += 1
            if not r.completed:
                st["incomplete_runs"] += 1
            if sc.get("fc"):
                st["flow_control_runs"] += 1
            for k_, v_ in fc_stats(r).items():
                st["flow_control"][k_] += int(v_)
            key = json.dumps(sc, sort_keys=True)
            if key not in self._seen:
                self._seen.add(key)
                if nbytes > 0 and r.n_datagrams > r.base_index:
                    st["distinct_nontrivial"] += 1
            bad = oracle(r)
            st["outcome_histogram"]["ok" if not bad else "violation"] += 1
            if r.inherent:
                st["inherent_deadlocks"] = st.get("inherent_deadlocks", 0) + 1
            if bad:
                st["oracle_failures"] += 1
                for what, sig in bad:
                    self.note(what, sig, sc, r.n_datagrams + len(r.script))
            if self.fc_base_code is not None:
                for k, (toks, exp) in sorted(project_fc(r, self.fc_base_code).items()):
                    if len(toks) <= self.max_tokens:
                        self.fc_pending.append((sc, k, toks, exp, bool(bad), r.n_datagrams + len(r.script)))
            P = project(r)
            for k, pr in sorted(P.items()):
                st["steps"] += len(pr.ops)
                for d in pr.ops:
                    st["op_histogram"]["model:" + d.split(" ")[0]] += 1
                if pr.problems:
                    self.note("projection: " + pr.problems[0], {"suite": self.name, "kind": "projection"}, sc,
                              r.n_datagrams, kind="correspondence")
                if len(pr.toks) > self.max_tokens:
                    st["stream_traces_skipped_too_big"] += 1
                    continue
                pending.append((sc, k, pr, bool(bad), r.n_datagrams + len(r.script)))
            if len(st["samples"]) < 3 and P:
                k, pr = sorted(P.items())[0]
                st["samples"].append({"suite": self.name, "case": _short_sc(sc), "stream": list(k),
                                      "model_steps": pr.ops[:25], "datagrams": r.n_datagrams})
            if sum(len(p[2].toks) for p in pending) >= 3000000:
                self._flush(pending)
                pending = []
        self._flush(pending)
        st["wall_s"] += time.time() - t0
        return st

    def _flush(self, pending):
        if not pending:
            return
        st = self.stats
        pending.sort(key=lambda p: -len(p[2].toks) * (1 + len(p[2].ops)))     # longest first: balances the shards
        outs = run_models([p[2].toks for p in pending])
        for (sc, k, pr, oracle_bad, size), got in zip(pending, outs):
            st["stream_traces_replayed"] += 1
            st["model_tokens"] += len(pr.toks)
            mm = first_mismatch(pr, got)
            if mm is None:
                continue
            st["disagreements"] += 1
            i, e, g = mm
            desc = pr.ops[i] if i < len(pr.ops) else "(end of trace)"
            what = ("%s stream %d: real step %d '%s' is not the model's step: implementation output %s, model %s%s"
                    % (k[0], k[1], i, desc, e, g, " (9 = step not enabled in NetSys)" if g[:1] == [9] else ""))
            if oracle_bad:
                continue          # the oracle already reported this run as a violation of the property itself
            self.note(what, {"suite": self.name, "kind": "correspondence"}, sc, size, kind="correspondence",
                      extra={"stream": list(k), "step": i, "steps_before": pr.ops[max(0, i - 12):i + 1],
                             "impl_output": e, "model_output": g, "correspondence": self.name})

    def flush_fc(self):
        """replay the flow-control traces in the extracted NetSysFC model"""
        st = self.stats
        st["fc_traces_replayed"] = st.get("fc_traces_replayed", 0)
        st["fc_model_steps"] = st.get("fc_model_steps", 0)
        st["fc_credit_samples_compared"] = st.get("fc_credit_samples_compared", 0)
        if not self.fc_pending:
            return
        outs = core.run_model("exec_netsys_fc", [p[2] for p in self.fc_pending])
        for (sc, k, toks, exp, oracle_bad, size), got in zip(self.fc_pending, outs):
            st["fc_traces_replayed"] += 1
            st["fc_model_steps"] += len(exp)
            st["fc_credit_samples_compared"] += len([e for e in exp if e[1] is not None])
            mm = fc_mismatch(exp, got)
            if mm is None or oracle_bad:
                continue
            st["disagreements"] += 1
            i, desc, want, g = mm
            self.note("%s stream %d: flow-control step %d '%s' is not the model's (NetSysFC): implementation %s, model %s "
                      "(layout: output tokens ..., credit, receiver limit, receiver used; 9 = not enabled, 3 = FLOW_CONTROL_ERROR)"
                      % (k[0], k[1], i, desc, want, g), {"suite": self.name, "kind": "correspondence-fc"}, sc, size,
                      kind="correspondence", extra={"stream": list(k), "step": i, "steps_before": [e[4] for e in exp[max(0, i - 12):i + 1]],
                                                    "correspondence": "netsys-fc"})
        self.fc_pending = []

    def report(self):
        """One ctx.violation per distinct defect signature, with the smallest scenario that shows it."""
        for key, (size, what, sig, sc, kind, extra) in sorted(self.found.items()):
            self.ctx.violation(kind, "%s: %s" % (self.name, what), _short_sc(sc, full=True), signature=sig, extra=extra,
                               no_input=(kind == "correspondence"))

    def summary(self):
        st = dict(self.stats)
        for k in ("op_histogram", "size_histogram", "outcome_histogram", "fates"):
            st[k] = dict(st[k])
        st["wall_s"] = round(st["wall_s"], 2)
        st["virtual_s"] = round(st["virtual_s"], 1)
        return st


def _short_sc(sc, full=False):
    d = dict(sc)
    if not full and d.get("script") is not None:
        d["script"] = "<%d items, see FIXED_SCRIPTS[%r]>" % (len(d["script"]), d.get("name"))
    return d



# ======================================================================================
# function-level tie: the two real stream halves joined by the NetSys glue, every step kind (resets included),
# and the completing continuation computed by the extracted model (`exec_netsys_complete` = Coq's `live_complete`,
# the function of fair_schedule_completes_thm / reset_completes_thm) replayed on the real halves
# ======================================================================================
class PyNet:
    """coq/model/NetSys.v with the real QuicStreamSender / QuicStreamReceiver inside.  The glue (which op is enabled,
    queue an event unless the receive half had finished before) is the model's; the halves are the implementation."""

    def __init__(self):
        from aioquic.quic.stream import QuicStreamReceiver, QuicStreamSender
        self.s = QuicStreamSender(stream_id=0, writable=True)
        self.r = QuicStreamReceiver(stream_id=0, readable=True)
        self.emitted = []          # [off, data, fin, delivered, outcome]
        self.resets = []
        self.queue = []
        self.written = bytearray()
        self.fin = False
        self.reset = False
        self.rreset = False
        self.racked = False
        # what the application has been told (for the oracle)
        self.reported = bytearray()
        self.ends = 0
        self.stream_resets = 0
        self.fse = 0
        self.after_terminal = 0

    def enabled(self, op):
        k = op[0]
        if k == "w":
            return not self.fin and not self.reset
        if k == "e":
            return not self.reset
        if k == "d":
            return 0 <= op[1] < len(self.emitted)
        if k == "o":
            return 0 <= op[1] < len(self.emitted) and self.emitted[op[1]][4] is None and (not op[2] or self.emitted[op[1]][3])
        if k == "er":
            return self.reset
        if k == "dr":
            return 0 <= op[1] < len(self.resets)
        if k == "ro":
            return bool(self.resets)
        if k == "p":
            return bool(self.queue)
        return True       # r, s

    def _report(self, was_finished, ev):
        from aioquic.quic import events
        if ev is None or was_finished:
            return
        if self.ends or self.stream_resets:
            self.after_terminal += 1
        self.queue.append(ev)
        if isinstance(ev, events.StreamDataReceived):
            self.reported += ev.data
            self.ends += int(ev.end_stream)
        else:
            self.stream_resets += 1

    def step(self, op):
        from aioquic.quic import events
        from aioquic.quic.packet import QuicStreamFrame
        from aioquic.quic.packet_builder import QuicDeliveryState
        from aioquic.quic.stream import FinalSizeError
        if not self.enabled(op):
            return [9]
        k = op[0]
        if k == "w":
            data = bytes.fromhex(op[1])
            self.s.write(data, end_stream=bool(op[2]))
            self.written += data
            self.fin = self.fin or bool(op[2])
            return [0]
        if k == "e":
            f = self.s.get_frame(op[1], op[2])
            if f is None:
                return [0]
            self.emitted.append([f.offset, bytes(f.data), bool(f.fin), False, None])
            return [1, f.offset, int(f.fin), len(f.data)] + list(f.data)
        if k == "d":
            e = self.emitted[op[1]]
            was = self.r.is_finished
            try:
                ev = self.r.handle_frame(QuicStreamFrame(offset=e[0], data=e[1], fin=e[2]))
            except FinalSizeError:
                self.fse += 1
                return [2]
            e[3] = True
            self._report(was, ev)
            return [0]
        if k == "o":
            e = self.emitted[op[1]]
            self.s.on_data_delivery(QuicDeliveryState.ACKED if op[2] else QuicDeliveryState.LOST, e[0], e[0] + len(e[1]), e[2])
            e[4] = bool(op[2])
            return [0]
        if k == "r":
            self.s.reset(op[1])
            self.reset = True
            return [0]
        if k == "er":
            fr = self.s.get_reset_frame()
            self.resets.append(fr.final_size)
            return [4, fr.final_size]
        if k == "dr":
            was = self.r.is_finished
            try:
                ev = self.r.handle_reset(final_size=self.resets[op[1]], error_code=7)
            except FinalSizeError:
                self.fse += 1
                return [2]
            self.rreset = True
            self._report(was, ev)
            return [0]
        if k == "ro":
            self.s.on_reset_delivery(QuicDeliveryState.ACKED if op[1] else QuicDeliveryState.LOST)
            self.racked = self.racked or bool(op[1])
            return [0]
        if k == "p":
            ev = self.queue.pop(0)
            if isinstance(ev, events.StreamDataReceived):
                return [5, int(ev.end_stream), len(ev.data)] + list(ev.data)
            return [6]
        return [7, len(self.queue)]


def hv_tokens(ops):
    out = []
    for op in ops:
        k = op[0]
        if k == "w":
            d = bytes.fromhex(op[1])
            out += [0, int(op[2]), len(d)] + list(d)
        elif k == "e":
            out += [1, op[1]] + ([0] if op[2] is None else [1, op[2]])
        elif k == "d":
            out += [2, op[1]]
        elif k == "o":
            out += [3, op[1], int(op[2])]
        elif k == "r":
            out += [4, op[1]]
        elif k == "er":
            out += [5]
        elif k == "dr":
            out += [6, op[1]]
        elif k == "ro":
            out += [7, int(op[1])]
        elif k == "p":
            out += [8]
        else:
            out += [9]
    return out


def hv_parse(toks):
    """inverse of hv_tokens (the output of exec_netsys_complete)"""
    ops, i = [], 0
    while i < len(toks):
        k = toks[i]
        if k == 0:
            n = toks[i + 2]
            ops.append(["w", bytes(toks[i + 3:i + 3 + n]).hex(), int(toks[i + 1])])
            i += 3 + n
        elif k == 1:
            if toks[i + 2] == 0:
                ops.append(["e", toks[i + 1], None])
                i += 3
            else:
                ops.append(["e", toks[i + 1], toks[i + 3]])
                i += 4
        elif k == 2:
            ops.append(["d", toks[i + 1]])
            i += 2
        elif k == 3:
            ops.append(["o", toks[i + 1], int(toks[i + 2])])
            i += 3
        elif k == 4:
            ops.append(["r", toks[i + 1]])
            i += 2
        elif k == 5:
            ops.append(["er"])
            i += 1
        elif k == 6:
            ops.append(["dr", toks[i + 1]])
            i += 2
        elif k == 7:
            ops.append(["ro", int(toks[i + 1])])
            i += 2
        elif k == 8:
            ops.append(["p"])
            i += 1
        else:
            ops.append(["s"])
            i += 1
    return ops


def hv_all_ops(case):
    return list(case["ops"]) + list(case.get("completion") or [])


def hv_encode(case):
    return hv_tokens(hv_all_ops(case))


def hv_impl(case):
    net = PyNet()
    out = []
    for op in hv_all_ops(case):
        out += net.step(op)
    return out


def hv_oracle(case):
    """The property sentence on the real halves, independent of the model: prefix delivery, end marker at most once and only
    after everything, no FinalSizeError from the sender's own frames, StreamReset at most once and nothing after a terminal
    event, RESET_STREAM final size, is_finished only when justified; for `live` cases: the continuation completes the stream
    within the proved length bound."""
    net = PyNet()
    ops = hv_all_ops(case)
    n_prefix = len(case["ops"])
    emitted_at_prefix = None
    for i, op in enumerate(ops):
        if i == n_prefix:
            emitted_at_prefix = len(net.emitted)
        net.step(op)
        where = "op %d %s" % (i, op[0])
        if net.fse:
            return ("FinalSizeError from a frame the sender itself produced (%s)" % where, {"defect": "halves_final_size_error"})
        if bytes(net.written[:len(net.reported)]) != bytes(net.reported):
            return ("reported bytes are not a prefix of the written bytes (%s)" % where, {"defect": "halves_not_prefix"})
        if net.ends > 1 or (net.ends == 1 and not (net.fin and len(net.reported) == len(net.written))):
            return ("end marker reported %d times / before everything (%s)" % (net.ends, where), {"defect": "halves_end_marker"})
        if net.stream_resets > 1 or net.after_terminal:
            return ("event reported after the terminal event (%s)" % where, {"defect": "halves_after_terminal"})
        hi = net.s.highest_offset
        if hi > len(net.written) or any(e[0] + len(e[1]) > hi for e in net.emitted) or any(fs != hi for fs in net.resets):
            return ("highest_offset / RESET_STREAM final size unsound (%s)" % where, {"defect": "halves_final_size"})
        if net.s.is_finished and not (net.racked or (net.ends == 1 and bytes(net.reported) == bytes(net.written))):
            return ("sender is_finished before delivery / acknowledged reset (%s)" % where, {"defect": "halves_finished_early"})
    if case.get("live"):
        if emitted_at_prefix is None:
            emitted_at_prefix = len(net.emitted)
        comp = case.get("completion") or []
        if net.reset:
            ok = net.s.is_finished and net.r.is_finished and net.rreset and len(comp) == 3
        else:
            ok = (bytes(net.reported) == bytes(net.written) and net.ends == int(net.fin) and net.s.is_finished == net.fin
                  and all(e[4] is not None for e in net.emitted)
                  and len(comp) <= emitted_at_prefix + 3 * (len(net.written) + 1))
        if not ok:
            return ("the completing continuation (%d steps) does not complete the stream on the real halves: reported %d of %d "
                    "bytes, ends %d, sender finished %s" % (len(comp), len(net.reported), len(net.written), net.ends, net.s.is_finished),
                    {"defect": "halves_not_completed"})
    return None


def hv_gen(rng, n, big=False, resets=True):
    """random schedules driven by the live state of the real halves: mostly enabled steps, every step kind, duplicates,
    reordering, losses, resets at any time, a few steps that are not enabled"""
    cases = []
    for _ in range(n):
        net = PyNet()
        ops = []
        want_reset = resets and rng.random() < 0.45
        reset_at = rng.randint(0, 15)
        for step in range(rng.randint(1, 60 if big else 30)):
            ne = len(net.emitted)
            cand = [i for i, e in enumerate(net.emitted) if e[4] is None]
            menu = [(1, "wild"), (1, "sync")]
            if not net.fin and not net.reset:
                menu.append((5, "write"))
            if not net.reset:
                menu.append((8, "emit"))
            if ne:
                menu.append((7, "deliver"))
            if cand:
                menu.append((6, "outcome"))
            if want_reset and not net.reset and step >= reset_at:
                menu.append((6, "reset"))
            if net.reset:
                menu += [(3, "emit_reset"), (1, "reset")]
            if net.resets:
                menu += [(4, "deliver_reset"), (2, "reset_outcome")]
            if net.queue:
                menu.append((3, "pop"))
            kind = rng.choices([m[1] for m in menu], weights=[m[0] for m in menu])[0]
            if kind == "wild":                                                      # possibly not enabled
                op = rng.choice([["d", ne + rng.randint(0, 2)], ["o", rng.randint(0, max(0, ne)), 1], ["er"], ["dr", len(net.resets)],
                                 ["ro", 1], ["p"], ["w", "aa", 0], ["e", 5, None], ["o", rng.randint(0, max(0, ne)), 0]])
            elif kind == "write":
                size = rng.choice([0, 1, 1, 2, 3, 5, 8, 13, 40] + ([300] if big else []))
                op = ["w", bytes(rng.randrange(256) for _ in range(size)).hex(), int(rng.random() < 0.3)]
            elif kind == "emit":
                mo = None if rng.random() < 0.8 else rng.randint(0, len(net.written) + 2)
                op = ["e", rng.choice([1, 1, 2, 3, 5, 8, 64, 1200]), mo]
            elif kind == "deliver":
                op = ["d", rng.randrange(ne)]
            elif kind == "outcome":
                i = rng.choice(cand)
                op = ["o", i, int(net.emitted[i][3] and rng.random() < 0.6)]
            elif kind == "reset":
                op = ["r", rng.randint(0, 9)]
            elif kind == "emit_reset":
                op = ["er"]
            elif kind == "deliver_reset":
                op = ["dr", rng.randrange(len(net.resets))]
            elif kind == "reset_outcome":
                op = ["ro", int(rng.random() < 0.5)]
            elif kind == "pop":
                op = ["p"]
            else:
                op = ["s"]
            net.step(op)
            ops.append(op)
        cases.append({"ops": ops})
    return cases


def hv_with_completion(cases, rng):
    """ask the extracted model for the completing continuation of each prefix (Coq: live_complete ms state)"""
    for c in cases:
        c["ms"] = rng.choice([1, 2, 3, 7, 64, 1200])
        c["live"] = True
    outs = core.run_model("exec_netsys_complete", [[c["ms"]] + hv_tokens(c["ops"]) for c in cases])
    for c, o in zip(cases, outs):
        c["completion"] = hv_parse(o)
    return cases


def hv_rebuild(case, ops):
    c = {"ops": list(ops)}
    if case.get("live"):
        c["ms"], c["live"] = case["ms"], True
        c["completion"] = hv_parse(core.run_model("exec_netsys_complete", [[c["ms"]] + hv_tokens(c["ops"])], shards=1)[0])
    return c


def hv_suites(ctx):
    nontrivial = lambda c, out: any(o[0] == "w" and o[1] for o in c["ops"]) and any(o[0] == "d" for o in hv_all_ops(c))
    plain = corr.Suite(ctx, "halves", "exec_netsys", hv_encode, hv_impl, hv_oracle, lambda c: c["ops"], hv_rebuild,
                       nontrivial=nontrivial, opname=lambda o: o[0])
    live = corr.Suite(ctx, "halves-live", "exec_netsys", hv_encode, hv_impl, hv_oracle, lambda c: c["ops"], hv_rebuild,
                      nontrivial=nontrivial, opname=lambda o: o[0])
    return plain, live

# ======================================================================================
# driver
# ======================================================================================
def _quiet_logs():
    import logging
    logging.getLogger("quic").setLevel(logging.CRITICAL)


def _fc_base_code():
    """0 = the tree computes max_offset from highest_offset, 1 = from next_offset, None = shape not recognised (the
    generator fails closed; the traces are then not replayed, the oracle still judges every run)"""
    try:
        import sys
        tools = os.path.join(core.VERIF, "tools")
        if tools not in sys.path:
            sys.path.insert(0, tools)
        from gen import c01_consts
        return {"BaseHighest": 0, "BaseNext": 1}[c01_consts.read()[0]]
    except Exception:
        return None


def run(ctx):
    _quiet_logs()
    suite = SimSuite(ctx)
    rng = ctx.rng
    # 1. regression corpus first
    suite.run(corr.load_corpus("C01", suite.name), "corpus")
    # 2. fixed scripts on a perfect network (both controllers x both versions)
    fixed = []
    for name in sorted(FIXED_SCRIPTS):
        for cc in ("reno", "cubic"):
            for ver in (1, 2):
                fixed.append(fixed_scenario(name, cc=cc, ver=ver))
    suite.run(fixed, "fixed")
    # 3. random scripts x random adversarial-then-fair networks
    suite.run(gen_random_scenarios(rng, ctx.n(150, 5000), big=ctx.thorough), "random")
    # 4. single-fault placements: drop or duplicate datagram i, for every i
    exhaustive = []
    names = sorted(FIXED_SCRIPTS) if ctx.thorough else ["rebind_mid_transfer"]
    for name in names:
        base = run_scenario(fixed_scenario(name))
        n_after = base.n_datagrams - base.base_index
        cases = single_fault_scenarios(name, n_after)
        if not ctx.thorough:
            cases = [c for c in cases if "dup" in c["fate"]] + rng.sample([c for c in cases if "drop" in c["fate"]], min(8, n_after))
        suite.run(cases, "single-fault")
        exhaustive.append({"script": name, "datagrams": n_after, "placements": len(cases)})
    # 4b. liveness under a BINDING flow-control window combined with loss (own PRNG stream: the families above and the
    #     function-level suites below draw the same cases as before)
    fc_rng = random.Random("c01-fc/%s/%d" % (ctx.tier, ctx.seed))
    suite.fc_base_code = _fc_base_code()
    suite.run(fc_grid(), "flow-control grid")
    suite.run(gen_fc_scenarios(fc_rng, ctx.n(70, 1500)), "flow-control random")
    try:
        suite.flush_fc()
    except core.BuildError:
        pass          # model not built: reported through ctx.proof_ok() by main.py
    fcs = suite.stats["flow_control"]
    for need in ("conn_credit_zero_with_data_pending", "stream_credit_zero_with_data_pending",
                 "lost_range_pending_at_zero_conn_credit", "retransmission_at_zero_conn_credit",
                 "retransmission_at_zero_stream_credit", "tail_loss_over_half_window", "max_data_frame_lost"):
        # the family must really reach the situations it is there for (measured, on the tree under test); on a tree
        # that cannot retransmit at zero credit the retransmission counters are 0 and the oracle has already fired
        if fcs[need] == 0 and not suite.found and ctx.budget_scale >= 1.0:
            ctx.violation("harness", "flow-control family never reached the situation %r on this tree (%d runs): the "
                          "window-exhausted liveness check would be vacuous" % (need, suite.stats["flow_control_runs"]),
                          None, no_input=True)
    suite.report()
    # 5. function-level: the real stream halves under the NetSys glue, every step kind (resets included), and the
    #    completing continuation of fair_schedule_completes / reset_completes computed by the extracted model
    plain, live = hv_suites(ctx)
    plain.run(corr.load_corpus("C01", plain.name), "corpus")
    plain.run(hv_gen(rng, ctx.n(1500, 40000), big=ctx.thorough), "random")
    live_corpus = corr.load_corpus("C01", live.name)
    live.run(live_corpus, "corpus")
    live.run(hv_with_completion(hv_gen(rng, ctx.n(800, 20000), big=ctx.thorough), rng), "random")
    cov = corr.merge_coverage(
        [suite, plain, live],
        "end-to-end runs of two real QuicConnections under harness/sim: application scripts (<= 6 streams, bidi/uni, both "
        "directions, writes 0-40 KiB, FIN / reset / stop, ping, key update, CID change, client rebind) x per-datagram fates "
        "(deliver, drop, delay, duplicate, reorder) in an adversarial phase followed by a fair phase, reno/cubic x QUIC v1/v2; "
        "plus fixed scripts with every single-fault placement; plus the flow-control family: the receiver advertises a small "
        "max_data / max_stream_data (2 k - 64 k) that 1-4 competing streams exhaust exactly (or +-1 byte, or several times "
        "over), one or both directions, and bursts lose the tail of the flight (more than half of the window), the "
        "receiver's ACK + MAX_DATA / MAX_STREAM_DATA datagrams, or 20-50 % of everything, before the network turns fair "
        "(correspondence.netsys.flow_control counts the runs that reached zero credit with data pending, retransmitted at "
        "zero credit, lost a MAX_DATA frame, ...).  distinct = distinct scenario description; non-trivial = "
        "stream bytes were written and datagrams were exchanged after the handshake.  Every run is checked by the "
        "implementation oracle and projected per stream and direction to a NetSys step trace replayed in the extracted model.  "
        "halves / halves-live: random schedules of every NetSys step kind (resets, duplicates, disabled steps) on the real "
        "QuicStreamSender + QuicStreamReceiver, compared step by step with exec_netsys; halves-live appends the continuation "
        "computed by the extracted Coq function live_complete and requires it to complete the stream on the real halves.",
        {"single_fault_placements": exhaustive,
         "traces_validated_against_impl": suite.stats["stream_traces_replayed"],
         "liveness_note": "completion after the fair phase is observed on these runs, not proved for the real timers"})
    return cov


def replay(ctx, rep):
    _quiet_logs()
    sc = rep["case"]
    if isinstance(sc, dict) and "ops" in sc and "script" not in sc:       # function-level case (halves / halves-live)
        got = core.run_model("exec_netsys", [hv_encode(sc)], shards=1)[0] if ctx.build and os.path.exists(core.DRIVER) else None
        return {"oracle": hv_oracle(sc), "impl_output": hv_impl(sc), "model_output": got}
    r = run_scenario(sc)
    res = {"oracle": oracle(r), "terminated": r.terminated, "datagrams": r.n_datagrams, "virtual_s": round(r.elapsed, 3),
           "api_exceptions": r.api_exceptions, "streams": {}}
    P = project(r)
    keys = sorted(P)
    outs = run_models([P[k].toks for k in keys]) if ctx.build and os.path.exists(core.DRIVER) else [None] * len(keys)
    for k, got in zip(keys, outs):
        pr = P[k]
        mm = first_mismatch(pr, got) if got is not None else None
        res["streams"]["%s/%d" % k] = {
            "steps": len(pr.ops), "problems": pr.problems,
            "first_mismatch": None if mm is None else {"step": mm[0], "op": pr.ops[mm[0]] if mm[0] < len(pr.ops) else None,
                                                       "impl": mm[1], "model": mm[2], "before": pr.ops[max(0, mm[0] - 10):mm[0]]}}
    return res
