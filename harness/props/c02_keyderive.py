"""C02: tie between coq/model/KeyDerive.v (exec_keyderive) and the key derivation of tls.py / crypto.py / packet.py.

A case is one call:
  kind "label"    hkdf_label(label, ctx, length)                                  -> info bytes | struct.error
  kind "expand"   hkdf_expand_label(cipher_suite_hash(cs), secret, label, ctx, n) -> bytes | struct.error | ValueError | KeyError
  kind "derive"   derive_key_iv_hp(cipher_suite=cs, secret=.., version=..)        -> key, iv, hp
  kind "initial"  CryptoPair.setup_initial(cid, is_client, version)               -> recv and send: secret, key, iv, hp
  kind "update"   CryptoContext.setup + n x (next_key_phase; apply_key_phase)     -> secret, key, iv, hp (hp = the first one)
  kind "retry"    get_retry_integrity_tag's key and nonce for a version

The model has HMAC as a Section variable; its answers are DATA in the token stream (DESIGN.md 3.4): for every HMAC call that
RFC 5869 / RFC 8446 7.1 / RFC 9001 5 make for the case, (hash, key, message) -> digest computed here with `cryptography`'s HMAC
through the independent construction of c02_ref (the info bytes are built by the reference, not by aioquic and not by the
model).  A query of the model that is not in the table answers [] and the comparison fails.

The AEAD and HeaderProtection objects of a real CryptoContext are C objects without accessors: the key, iv and hp the
implementation side reports are those returned by the real derive_key_iv_hp for the context's (cipher_suite, secret, version)
AFTER checking that the context's own objects BEHAVE as if keyed with exactly them (a probe sealed by ctx.aead equals the
`cryptography` AEAD under (key, iv xor pn); ctx.hp's mask equals the reference mask under hp); otherwise the marker -1 is
reported instead, which no model output contains.

Oracle (independent of the model): aioquic == c02_ref (RFC 9001 / 9369 written from the RFC text) for versions 1 and 2, plus
literal RFC appendix values carried by the corpus cases (`expect`)."""
import struct

from . import c02_ref as R

SUITE_CODE = {"AES_128_GCM_SHA256": 0x1301, "AES_256_GCM_SHA384": 0x1302, "CHACHA20_POLY1305_SHA256": 0x1303}
CODE_SUITE = {v: k for k, v in SUITE_CODE.items()}
UNKNOWN_SUITE = 0x00FF          # CipherSuite.EMPTY_RENEGOTIATION_INFO_SCSV: a CipherSuite that CIPHER_SUITES does not know
HASH_ID = {"AES_128_GCM_SHA256": (256, 32), "AES_256_GCM_SHA384": (384, 48), "CHACHA20_POLY1305_SHA256": (256, 32)}
E_STRUCT, E_VALUE, E_KEY = 1, 2, 3
LABELS = [b"quic key", b"quic iv", b"quic hp", b"quic ku", b"quicv2 key", b"quicv2 iv", b"quicv2 hp", b"quicv2 ku",
          b"client in", b"server in", b"", b"finished", b"derived", b"c hs traffic"]
VERSIONS = [1, 0x6B3343CF, 0, 2, 0xFF00001D, 0x6B3343CE, 0x1A2A3A4A]


def tl(b):
    return [len(b)] + list(b)


def _h(name):
    return R.SUITES[name][0]


class Table:
    """records every HMAC call of the reference's HKDF"""

    def __init__(self):
        self.entries = {}

    def hmac(self, hid, h, key, msg):
        d = R._hmac(h, key, msg)
        self.entries[(hid, bytes(key), bytes(msg))] = d
        return d

    def expand(self, suite, prk, info, length):
        hid, dsz = HASH_ID[suite]
        h = _h(suite)
        out, t, i = b"", b"", 1
        while len(out) < length and i <= 255:
            t = self.hmac(hid, h, prk, t + info + bytes([i]))
            out += t
            i += 1
        return out[:length]

    def expand_label(self, suite, secret, label, ctx, length):
        """the reference's HkdfLabel (RFC 8446 7.1); None when the structure cannot be encoded"""
        full = b"tls13 " + label
        if not (0 <= length <= 0xFFFF and len(full) <= 255 and len(ctx) <= 255):
            return None
        info = length.to_bytes(2, "big") + bytes([len(full)]) + full + bytes([len(ctx)]) + ctx
        return self.expand(suite, secret, info, length)

    def keys(self, suite, secret, version_labels):
        klen = R.SUITES[suite][1]
        p = version_labels
        return (self.expand_label(suite, secret, p + b"key", b"", klen), self.expand_label(suite, secret, p + b"iv", b"", 12),
                self.expand_label(suite, secret, p + b"hp", b"", klen))

    def tokens(self):
        t = [len(self.entries)]
        for (hid, k, m), d in self.entries.items():
            key = [hid] + tl(k) + tl(m)
            t += [len(key)] + key + tl(d)
        return t


def _prefix(version):
    """labels as the implementation selects them: everything that is not version 2 uses the version 1 labels"""
    return b"quicv2 " if version == R.V2 else b"quic "


def _salt(version):
    return R.INITIAL_SALT[R.V2] if version == R.V2 else R.INITIAL_SALT[R.V1]


def _bytes(case, k):
    return bytes.fromhex(case[k])


# ------------------------------------------------------------------------------------------------ model side
def encode(case):
    kind = case["kind"]
    tb = Table()
    if kind == "label":
        return [1] + tl(_bytes(case, "label")) + tl(_bytes(case, "ctx")) + [case["length"]]
    if kind == "expand":
        if case["cs"] in CODE_SUITE:
            tb.expand_label(CODE_SUITE[case["cs"]], _bytes(case, "secret"), _bytes(case, "label"), _bytes(case, "ctx"), min(case["length"], 255 * 48))
        return [2, case["cs"]] + tl(_bytes(case, "secret")) + tl(_bytes(case, "label")) + tl(_bytes(case, "ctx")) + [case["length"]] + tb.tokens()
    if kind == "derive":
        if case["cs"] in CODE_SUITE:
            tb.keys(CODE_SUITE[case["cs"]], _bytes(case, "secret"), _prefix(case["version"]))
        return [3, case["cs"]] + tl(_bytes(case, "secret")) + [case["version"]] + tb.tokens()
    if kind == "initial":
        s = "AES_128_GCM_SHA256"
        cid = _bytes(case, "cid")
        init = tb.hmac(256, _h(s), _salt(case["version"]), cid)
        for lab in (b"client in", b"server in"):
            sec = tb.expand_label(s, init, lab, b"", 32)
            tb.keys(s, sec, _prefix(case["version"]))
        return [4] + tl(cid) + [1 if case["is_client"] else 0, case["version"]] + tb.tokens()
    if kind == "update":
        if case["cs"] in CODE_SUITE:
            s = CODE_SUITE[case["cs"]]
            sec = _bytes(case, "secret")
            tb.keys(s, sec, _prefix(case["version"]))
            for _ in range(case["n"]):
                sec = tb.expand_label(s, sec, _prefix(case["version"]) + b"ku", b"", HASH_ID[s][1])
                tb.keys(s, sec, _prefix(case["version"]))
        return [5, case["cs"]] + tl(_bytes(case, "secret")) + [case["version"], case["n"]] + tb.tokens()
    if kind == "retry":
        return [6, case["version"]]
    raise ValueError(kind)


# ------------------------------------------------------------------------------------------------ implementation side
def _aq_cs(code):
    from aioquic.tls import CipherSuite
    return CipherSuite(code)


def _res(f):
    """-> ('ok', value) | ('err', kind)"""
    try:
        return ("ok", f())
    except struct.error:
        return ("err", E_STRUCT)
    except KeyError:
        return ("err", E_KEY)
    except ValueError:
        return ("err", E_VALUE)


def behaves_as(ctx, key, iv, hp):
    """the C objects of a real CryptoContext act like ones keyed with (key, iv, hp)"""
    suite = CODE_SUITE[int(ctx.cipher_suite)]
    k = R.Keys.__new__(R.Keys)
    hcls, klen, aead, hpk = R.SUITES[suite]
    k.suite, k.key, k.iv, k.hp, k.hp_kind = suite, key, iv, hp, hpk
    from cryptography.hazmat.primitives.ciphers.aead import AESGCM, ChaCha20Poly1305
    k.aead = AESGCM(key) if aead == "gcm" else ChaCha20Poly1305(key)
    pn = 0x0102030405
    ad, pt = bytes(range(20, 33)), bytes(range(40, 75))
    if ctx.aead.encrypt(pt, ad, pn) != k.seal(pn, ad, pt):
        return False
    sample = bytes(range(100, 116))
    pkt = ctx.hp.apply(bytes([0x40]) + bytes(8) + b"\x07", b"\x00\x00\x00" + sample + bytes(8))
    m = k.mask(sample)
    return pkt[0] == 0x40 ^ (m[0] & 0x1F) and pkt[9] == 0x07 ^ m[1]


def ctx_tokens(ctx, hp_secret=None):
    """hp_secret: the secret the header protection key was derived from when it is not ctx.secret (apply_key_phase keeps hp)"""
    from aioquic.quic.crypto import derive_key_iv_hp
    key, iv, hp = derive_key_iv_hp(cipher_suite=ctx.cipher_suite, secret=ctx.secret, version=ctx.version)
    if hp_secret is not None:
        hp = derive_key_iv_hp(cipher_suite=ctx.cipher_suite, secret=hp_secret, version=ctx.version)[2]
    if not behaves_as(ctx, key, iv, hp):
        return tl(ctx.secret) + [-1]
    return tl(ctx.secret) + tl(key) + tl(iv) + tl(hp)


def impl(case):
    from aioquic import tls
    from aioquic.quic import crypto as C
    kind = case["kind"]
    if kind == "label":
        r = _res(lambda: tls.hkdf_label(_bytes(case, "label"), _bytes(case, "ctx"), case["length"]))
        return [1] + tl(r[1]) if r[0] == "ok" else [0]
    if kind == "expand":
        r = _res(lambda: tls.hkdf_expand_label(tls.cipher_suite_hash(_aq_cs(case["cs"])), _bytes(case, "secret"), _bytes(case, "label"),
                                               _bytes(case, "ctx"), case["length"]))
        return [1] + tl(r[1]) if r[0] == "ok" else [0, r[1]]
    if kind == "derive":
        r = _res(lambda: C.derive_key_iv_hp(cipher_suite=_aq_cs(case["cs"]), secret=_bytes(case, "secret"), version=case["version"]))
        return [1] + tl(r[1][0]) + tl(r[1][1]) + tl(r[1][2]) if r[0] == "ok" else [0, r[1]]
    if kind == "initial":
        p = C.CryptoPair()
        r = _res(lambda: p.setup_initial(_bytes(case, "cid"), bool(case["is_client"]), case["version"]))
        return [1] + ctx_tokens(p.recv) + ctx_tokens(p.send) if r[0] == "ok" else [0, r[1]]
    if kind == "update":
        ctx = C.CryptoContext()

        def go():
            ctx.setup(cipher_suite=_aq_cs(case["cs"]), secret=_bytes(case, "secret"), version=case["version"])
            first_hp = ctx.hp
            for _ in range(case["n"]):
                C.apply_key_phase(ctx, C.next_key_phase(ctx), trigger="local_update")
            return first_hp
        r = _res(go)
        if r[0] != "ok":
            return [0, r[1]]
        if ctx.hp is not r[1]:
            return [1, -2]
        return [1] + ctx_tokens(ctx, _bytes(case, "secret"))
    if kind == "retry":
        from aioquic.quic import packet as P
        from cryptography.hazmat.primitives.ciphers.aead import AESGCM
        odcid, body = bytes(range(1, 9)), bytes(range(50, 90))
        tag = P.get_retry_integrity_tag(body, odcid, case["version"])
        pseudo = bytes([len(odcid)]) + odcid + body
        for k, n in ((P.RETRY_AEAD_KEY_VERSION_1, P.RETRY_AEAD_NONCE_VERSION_1), (P.RETRY_AEAD_KEY_VERSION_2, P.RETRY_AEAD_NONCE_VERSION_2)):
            if AESGCM(k).encrypt(n, b"", pseudo) == tag:
                return tl(k) + tl(n)
        return [-1]
    raise ValueError(kind)


# ------------------------------------------------------------------------------------------------ oracle
def _hx(b):
    return b.hex() if b is not None else None


def oracle(case):
    """aioquic against the reference (and against literal RFC values in `expect`); None = fine"""
    from aioquic import tls
    from aioquic.quic import crypto as C
    kind = case["kind"]
    sig = {"site": "key-derivation", "rule": kind}
    exp = case.get("expect") or {}
    tb = Table()
    if kind == "label":
        r = _res(lambda: tls.hkdf_label(_bytes(case, "label"), _bytes(case, "ctx"), case["length"]))
        full = b"tls13 " + _bytes(case, "label")
        ok = 0 <= case["length"] <= 0xFFFF and len(full) <= 255 and len(_bytes(case, "ctx")) <= 255
        if ok:
            want = case["length"].to_bytes(2, "big") + bytes([len(full)]) + full + bytes([len(_bytes(case, "ctx"))]) + _bytes(case, "ctx")
            if r != ("ok", want):
                return ("hkdf_label(%s, %s, %d) is %s, RFC 8446 7.1 HkdfLabel is %s" % (case["label"], case["ctx"], case["length"], r, want.hex()), sig)
        elif r[0] == "ok":
            return ("hkdf_label encodes a structure RFC 8446 7.1 cannot express (label %d bytes, context %d bytes, length %d)"
                    % (len(full), len(_bytes(case, "ctx")), case["length"]), sig)
        return None
    if kind == "expand":
        if case["cs"] not in CODE_SUITE:
            return None
        s = CODE_SUITE[case["cs"]]
        r = _res(lambda: tls.hkdf_expand_label(tls.cipher_suite_hash(_aq_cs(case["cs"])), _bytes(case, "secret"), _bytes(case, "label"),
                                               _bytes(case, "ctx"), case["length"]))
        if case["length"] > 255 * HASH_ID[s][1]:
            return None if r[0] == "err" else ("HKDF-Expand produced more than 255 blocks", sig)
        want = tb.expand_label(s, _bytes(case, "secret"), _bytes(case, "label"), _bytes(case, "ctx"), case["length"])
        if want is None:
            return None if r[0] == "err" else ("hkdf_expand_label accepted an unencodable label", sig)
        if r != ("ok", want) or ("okm" in exp and want.hex() != exp["okm"]):
            return ("HKDF-Expand-Label(%s, %r, %d): aioquic %s, reference %s, expected %s" % (s, _bytes(case, "label"), case["length"],
                    _hx(r[1]) if r[0] == "ok" else r, want.hex(), exp.get("okm")), sig)
        return None
    if kind == "derive":
        if case["cs"] not in CODE_SUITE or case["version"] not in (R.V1, R.V2):
            return None
        s = CODE_SUITE[case["cs"]]
        k = R.Keys(s, _bytes(case, "secret"), case["version"])
        got = C.derive_key_iv_hp(cipher_suite=_aq_cs(case["cs"]), secret=_bytes(case, "secret"), version=case["version"])
        want = (k.key, k.iv, k.hp)
        if tuple(got) != want or any(n in exp and w.hex() != exp[n] for n, w in zip(("key", "iv", "hp"), want)):
            return ("derive_key_iv_hp(%s, v%x): aioquic %s, reference %s, expected %s" % (s, case["version"], [x.hex() for x in got],
                    [x.hex() for x in want], exp), sig)
        return None
    if kind == "initial":
        if case["version"] not in (R.V1, R.V2):
            return None
        ck, sk = R.initial_keys(case["version"], _bytes(case, "cid"))
        p = C.CryptoPair()
        p.setup_initial(_bytes(case, "cid"), bool(case["is_client"]), case["version"])
        send, recv = (ck, sk) if case["is_client"] else (sk, ck)
        for name, ctx, k in (("send", p.send, send), ("recv", p.recv, recv)):
            if ctx.secret != k.secret or not behaves_as(ctx, k.key, k.iv, k.hp):
                return ("setup_initial(%s, is_client=%s, v%x).%s is not keyed as RFC 9001 5.2 says (secret %s, reference %s)"
                        % (case["cid"], case["is_client"], case["version"], name, ctx.secret.hex(), k.secret.hex()), sig)
        for role, k in (("client", ck), ("server", sk)):
            for n in ("secret", "key", "iv", "hp"):
                if role + "_" + n in exp and getattr(k, n).hex() != exp[role + "_" + n]:
                    return ("reference %s %s is %s, the RFC appendix says %s" % (role, n, getattr(k, n).hex(), exp[role + "_" + n]), sig)
        return None
    if kind == "update":
        if case["cs"] not in CODE_SUITE or case["version"] not in (R.V1, R.V2):
            return None
        s = CODE_SUITE[case["cs"]]
        k = R.Keys(s, _bytes(case, "secret"), case["version"])
        ctx = C.CryptoContext()
        ctx.setup(cipher_suite=_aq_cs(case["cs"]), secret=_bytes(case, "secret"), version=case["version"])
        for _ in range(case["n"]):
            C.apply_key_phase(ctx, C.next_key_phase(ctx), trigger="local_update")
            k = k.next()
        if ctx.secret != k.secret or not behaves_as(ctx, k.key, k.iv, k.hp) or ("secret" in exp and k.secret.hex() != exp["secret"]):
            return ("after %d key updates (%s, v%x): secret %s, RFC 9001 6.1 / RFC 9369 3.3.2 give %s (expected %s), or the context is not "
                    "keyed with (key, iv) of that secret and the ORIGINAL hp key" % (case["n"], s, case["version"], ctx.secret.hex(), k.secret.hex(),
                                                                                      exp.get("secret")),
                    {"site": "next_key_phase", "rule": "v2-ku-label" if case["version"] == R.V2 else "ku"})
        return None
    if kind == "retry":
        if case["version"] not in (R.V1, R.V2):
            return None
        from aioquic.quic import packet as P
        odcid, body = bytes(range(1, 9)), bytes(range(50, 90))
        if P.get_retry_integrity_tag(body, odcid, case["version"]) != R.retry_tag(case["version"], odcid, body):
            return ("Retry integrity tag for version %x differs from RFC 9001 5.8 / RFC 9369 3.3.3" % case["version"], sig)
        return None
    return None


# ------------------------------------------------------------------------------------------------ cases
def _rb(rng, n):
    return bytes(rng.randrange(256) for _ in range(n)).hex()


def gen_cases(rng, n, thorough=False):
    out = []
    codes = sorted(CODE_SUITE)
    # every (suite, version, role, kind) combination once, deterministically
    for cs in codes + [UNKNOWN_SUITE]:
        dsz = HASH_ID[CODE_SUITE[cs]][1] if cs in CODE_SUITE else 32
        for v in VERSIONS:
            out.append({"kind": "derive", "cs": cs, "version": v, "secret": _rb(rng, dsz)})
            out.append({"kind": "update", "cs": cs, "version": v, "secret": _rb(rng, dsz), "n": rng.randrange(0, 4)})
    for v in VERSIONS:
        out.append({"kind": "retry", "version": v})
        for ic in (0, 1):
            out.append({"kind": "initial", "cid": _rb(rng, rng.choice([8, 8, 0, 1, 18, 20])), "is_client": ic, "version": v})
    for cs in codes:
        dsz = HASH_ID[CODE_SUITE[cs]][1]
        for ln in (0, 1, 11, 12, 16, 31, 32, 33, 47, 48, 49, 64, 65, 96, 97, 255 * dsz, 255 * dsz + 1, 65535, 65536, -1):
            out.append({"kind": "expand", "cs": cs, "secret": _rb(rng, dsz), "label": rng.choice(LABELS).hex(), "ctx": "", "length": ln})
    for ln in (-1, 0, 1, 255, 256, 65535, 65536, 1 << 32):
        out.append({"kind": "label", "label": rng.choice(LABELS).hex(), "ctx": _rb(rng, rng.randrange(3)), "length": ln})
    for ll in (0, 1, 248, 249, 250, 251, 300):
        for cl in (0, 1, 255, 256):
            out.append({"kind": "label", "label": _rb(rng, ll), "ctx": _rb(rng, cl), "length": rng.choice([12, 16, 32, 48])})
    while len(out) < n:
        r = rng.random()
        cs = rng.choice(codes + ([UNKNOWN_SUITE] if rng.random() < 0.05 else []))
        dsz = HASH_ID[CODE_SUITE[cs]][1] if cs in CODE_SUITE else 32
        v = rng.choice(VERSIONS[:2] * 6 + VERSIONS + [rng.randrange(1 << 32)])
        slen = dsz if rng.random() < 0.8 else rng.choice([0, 1, 16, 31, 33, 64, 65, 128, 129, 200])
        if r < 0.25:
            out.append({"kind": "label", "label": (rng.choice(LABELS) if rng.random() < 0.5 else bytes(rng.randrange(256) for _ in range(rng.choice([0, 1, 5, 9, 40, 249, 250])))).hex(),
                        "ctx": _rb(rng, rng.choice([0, 0, 1, 32, 48, 255, 256])), "length": rng.choice([0, 12, 16, 32, 48, 255, 256, 4660, 65535, 65536, -5])})
        elif r < 0.45:
            out.append({"kind": "expand", "cs": cs, "secret": _rb(rng, slen), "label": (rng.choice(LABELS) if rng.random() < 0.7 else bytes(rng.randrange(256) for _ in range(rng.randrange(12)))).hex(),
                        "ctx": _rb(rng, rng.choice([0, 0, 0, 32, 48])), "length": rng.choice([12, 16, 32, 48, rng.randrange(0, 200), rng.randrange(0, 200)])})
        elif r < 0.65:
            out.append({"kind": "derive", "cs": cs, "version": v, "secret": _rb(rng, slen)})
        elif r < 0.8:
            out.append({"kind": "initial", "cid": _rb(rng, rng.choice([8, 8, 8, 0, 1, 4, 16, 20, 21, 64])), "is_client": rng.randrange(2), "version": v})
        elif r < 0.97:
            out.append({"kind": "update", "cs": cs, "version": v, "secret": _rb(rng, slen), "n": rng.randrange(0, 6 if not thorough else 12)})
        else:
            out.append({"kind": "retry", "version": v})
    return out


def nontrivial(case, out):
    return bool(out) and out[0] == 1 or case["kind"] == "retry"


def histogram_key(case):
    v = case.get("version")
    vn = "" if v is None else "/v1" if v == R.V1 else "/v2" if v == R.V2 else "/other-version"
    cs = case.get("cs")
    return case["kind"] + ("" if cs is None else "/" + CODE_SUITE.get(cs, "unknown-suite")[:7]) + vn
