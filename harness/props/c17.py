"""C17  Wire codecs round-trip and agree with an independent codec.

Tie: the extracted Gallina codecs (coq/model/{Codec,Varint,AckFrame,Header,TParams,TlsCodec}.v) are run
side by side with the real Buffer / packet.py / packet_builder.py / tls.py functions on boundary tables,
small-scope exhaustive sets, grammar-generated values and arbitrary / mutated byte strings; every outcome
(bytes produced, value decoded, exception class, number of bytes consumed) is compared.

s17: suite `headerat` runs pull_quic_header on Buffers positioned at non-zero offsets of a larger datagram (coalesced
packets) against model/HeaderAt.v and a strict RFC reader; ack / tparams / tls decoders are re-run behind a prefix.

Implementation oracle (independent of the model): encode-with-impl -> decode-with-impl returns the original;
the bytes equal those of a Python encoder written here from RFC 9000 sections 16, 17.2, 18, 19.3 / RFC 8446
section 4; decoding arbitrary bytes gives a value that re-encodes and decodes to the same value, or the
documented parse error class, and never consumes more than the input."""
import itertools
import os
from unittest import mock

from vlib import core, corr

GENERATORS = ["c17_bits", "c17_blocks", "c17_header"]
DEPENDS = ["Base", "Tok", "RangeSet", "Codec", "Varint", "AckFrame", "Header", "HeaderAt", "TParams", "TlsCodec", "C17"]
TRUSTED_BASE = [
    "extraction (ExtrOcamlBasic only; Z kept as the extracted inductive) + coq/extract/driver.ml for running the models",
    "correspondence harness harness/props/c17.py + harness/vlib/corr.py (decides what 'agree' means)",
    "modelled, not verified: packet.py / packet_builder.py / tls.py codecs as Gallina functions over byte lists; a Buffer being read is "
    "its remaining suffix.  The shift/mask/or expressions, bounds checks and comparisons of the ten integer codecs of _buffer.c are "
    "translated from the C text (tools/gen/c17_bits.py -> gen/C17Bits.v) and PROVED equal to the arithmetic models (c_*_is_model); "
    "trusted there: the C typing rules the translator implements (integer promotion, usual arithmetic conversions, wrap modulo 2^N on "
    "conversion to uintN_t), LP64, PyArg formats B/H/I/K reducing modulo 2^N",
    "tools/gen/c17_blocks.py: AST template match of tls.pull_block / pull_list / pull_opaque; only the two comparison operators are read",
    "tools/gen/c17_header.py: symbolic execution of the integer assignments of pull_quic_header (+, -, buf.tell(), buf.capacity); trusted: "
    "that a buffer method other than tell / eof moves the position, the path classification by the text of the branch tests",
    "model/HeaderAt.v: a Buffer over the whole datagram is (capacity, remaining suffix), buf.tell() = capacity - |suffix|; tied at non-zero "
    "offsets by the headerat suite; the walk models only the positions of receive_datagram's loop (pull header, seek to start + packet_length)",
    "Retry integrity tag (AES-128-GCM) and os.urandom are inputs of the model, computed by the harness",
    "ipaddress text conversion of preferred_address and str<->ascii conversion of TLS names are outside the model (compared as bytes)",
]
ASSUMPTIONS = [
    "round-trip theorems are for in-domain values (0 <= v < 2^(8w), 0 <= v < 2^62, CID lengths <= 20, well-formed range sets); "
    "out-of-domain pushes are characterised exactly (wrap modulo 2^k) by fixed_push_wraps / varint_push_total",
    "byte lists given to decoders satisfy 0 <= b < 256 (bytes_ok)",
]

U62 = 1 << 62
E_READ, E_VALUE, E_WRITE, E_ALERT_DECODE, E_ALERT_ILLEGAL = 1, 2, 3, 5, 6
ERRNAME = {"IndexError": 100, "AssertionError": 101, "UnicodeDecodeError": 102, "KeyError": 103, "OverflowError": 104,
           "TypeError": 105, "UnicodeEncodeError": 106, "AttributeError": 107}
DOCUMENTED = {E_READ, E_VALUE}


def errk(e):
    from aioquic.buffer import BufferReadError, BufferWriteError
    if isinstance(e, BufferReadError):
        return E_READ
    if isinstance(e, BufferWriteError):
        return E_WRITE
    n = type(e).__name__
    if n == "ValueError":
        return E_VALUE
    if n == "AlertDecodeError":
        return E_ALERT_DECODE
    if n == "AlertIllegalParameter":
        return E_ALERT_ILLEGAL
    return ERRNAME.get(n, 199)


def H(b):
    return bytes(b).hex()


def B(h):
    return bytes.fromhex(h)


def lp(b):
    """length-prefixed token list"""
    return [len(b)] + list(b)


# ------------------------------------------------------------------ independent RFC encoders
def rfc_varint(v):
    """RFC 9000 section 16, written from the RFC text (Table 4)."""
    assert 0 <= v < U62
    if v < 1 << 6:
        return bytes([v])
    if v < 1 << 14:
        return bytes([0x40 | (v >> 8), v & 0xFF])
    if v < 1 << 30:
        return (0x80000000 | v).to_bytes(4, "big")
    return (0xC000000000000000 | v).to_bytes(8, "big")


def rfc_varint_decode(data, pos=0):
    """RFC 9000 appendix A.1 ReadVarint; returns (value, newpos) or None when truncated."""
    if pos >= len(data):
        return None
    v = data[pos]
    prefix = v >> 6
    length = 1 << prefix
    if pos + length > len(data):
        return None
    v &= 0x3F
    for i in range(1, length):
        v = (v << 8) + data[pos + i]
    return v, pos + length


def rfc_ack(ranges, delay):
    """RFC 9000 section 19.3 (without the frame type): ranges = ascending list of [start, stop)."""
    d = list(reversed(ranges))
    out = rfc_varint(d[0][1] - 1) + rfc_varint(delay) + rfc_varint(len(d) - 1) + rfc_varint(d[0][1] - 1 - d[0][0])
    smallest = d[0][0]
    for s, e in d[1:]:
        out += rfc_varint(smallest - (e - 1) - 2)     # Gap: "one lower than the smallest in the preceding range", minus one
        out += rfc_varint(e - 1 - s)
        smallest = s
    return out


def rfc_ack_decode(data):
    """RFC 9000 section 19.3.1; returns (ranges ascending, delay, consumed) or None when truncated."""
    pos = 0
    f = []
    for _ in range(4):
        r = rfc_varint_decode(data, pos)
        if r is None:
            return None
        f.append(r[0])
        pos = r[1]
    largest, delay, count, first = f
    ranges = [(largest - first, largest + 1)]
    smallest = largest - first
    for _ in range(count):
        r = rfc_varint_decode(data, pos)
        if r is None:
            return None
        gap, pos = r
        r = rfc_varint_decode(data, pos)
        if r is None:
            return None
        ln, pos = r
        largest = smallest - gap - 2
        smallest = largest - ln
        ranges.insert(0, (smallest, largest + 1))
    return ranges, delay, pos


LONG_TYPE_BITS = {1: {0: 0, 1: 1, 2: 2, 3: 3}, 2: {0: 1, 1: 2, 2: 3, 3: 0}}   # RFC 9000 17.2 / RFC 9369 3.2
V1, V2 = 1, 0x6B3343CF


def rfc_long_header(version, ptype, dcid, scid, token, length, pn, low_bits=1):
    bits = LONG_TYPE_BITS[2 if version == V2 else 1][ptype]
    out = bytes([0xC0 | (bits << 4) | low_bits]) + version.to_bytes(4, "big")
    out += bytes([len(dcid)]) + dcid + bytes([len(scid)]) + scid
    if ptype == 0:
        out += rfc_varint(len(token)) + token
    if ptype != 3:
        out += (0x4000 | length).to_bytes(2, "big") + (pn & 0xFFFF).to_bytes(2, "big")
    return out


RETRY_KEYS = {  # RFC 9001 section 5.8, RFC 9369 section 3.3.3
    1: ("be0c690b9f66575a1d766b54e368c84e", "461599d35d632bf2239825bb"),
    2: ("8fb4b01b56ac48e260fbcbcead7ccc92", "d86969bc2d7c6d9990efb04a"),
}


def rfc_retry_tag(version, odcid, packet_without_tag):
    from cryptography.hazmat.primitives.ciphers.aead import AESGCM
    key, nonce = RETRY_KEYS[2 if version == V2 else 1]
    pseudo = bytes([len(odcid) & 0xFF]) + odcid + packet_without_tag
    return AESGCM(B(key)).encrypt(B(nonce), b"", pseudo)


# ------------------------------------------------------------------ suite: integers
def vi_encode(case):
    op = case["op"]
    k = op[0]
    if k == "push":
        return [0, op[1], op[2]]
    if k == "pushvar":
        return [1, op[1]]
    if k == "size":
        return [2, op[1]]
    if k == "pull":
        return [3, op[1]] + lp(B(op[2]))
    if k == "pullvar":
        return [4] + lp(B(op[1]))
    if k == "pushvar_cap":
        return [5, op[1], op[2]]
    if k == "pullbytes":
        return [6, op[1]] + lp(B(op[2]))
    raise ValueError(k)


def vi_impl(case):
    from aioquic.buffer import Buffer, size_uint_var
    op = case["op"]
    k = op[0]
    try:
        if k == "push":
            b = Buffer(capacity=16)
            getattr(b, "push_uint%d" % (8 * op[1]))(op[2])
            return [0] + lp(b.data)
        if k == "pushvar":
            b = Buffer(capacity=16)
            b.push_uint_var(op[1])
            return [0] + lp(b.data)
        if k == "size":
            return [0, size_uint_var(op[1])]
        if k == "pull":
            b = Buffer(data=B(op[2]))
            v = getattr(b, "pull_uint%d" % (8 * op[1]))()
            return [0, v, b.tell()]
        if k == "pullvar":
            b = Buffer(data=B(op[1]))
            v = b.pull_uint_var()
            return [0, v, b.tell()]
        if k == "pushvar_cap":
            b = Buffer(capacity=op[1])
            b.push_uint_var(op[2])
            return [0] + lp(b.data)
        if k == "pullbytes":
            b = Buffer(data=B(op[2]))
            v = b.pull_bytes(op[1])
            return [0] + lp(v) + [b.tell()]
    except Exception as e:
        return [errk(e)]
    raise ValueError(k)


F12_SEEN = {"fixed": 0, "var": 0}


def vi_oracle(case):
    """The property on the implementation, in-domain values only; out-of-domain pushes (F12) are counted."""
    from aioquic.buffer import Buffer, BufferReadError, encode_uint_var, size_uint_var
    op = case["op"]
    k = op[0]
    if k == "push":
        w, v = op[1], op[2]
        b = Buffer(capacity=16)
        in_range = 0 <= v < 1 << (8 * w)
        try:
            getattr(b, "push_uint%d" % (8 * w))(v)      # unchanged tree: never raises for ints (F12)
        except (ValueError, OverflowError):
            if in_range:
                return ("push_uint%d(%d) raised on an in-range value" % (8 * w, v), {"codec": "fixed", "rule": "spurious_error"})
            return None                                  # a range check (docs/C17-fix-1.patch) is the desired behaviour
        if in_range:
            if b.data != v.to_bytes(w, "big"):
                return ("push_uint%d(%d) wrote %s" % (8 * w, v, H(b.data)), {"codec": "fixed", "rule": "bytes"})
            r = Buffer(data=b.data + b"\xaa")
            if getattr(r, "pull_uint%d" % (8 * w))() != v or r.tell() != w:
                return ("pull_uint%d does not return the pushed value %d" % (8 * w, v), {"codec": "fixed", "rule": "roundtrip"})
        else:
            F12_SEEN["fixed"] += 1
    elif k in ("pushvar", "pushvar_cap"):
        v = op[-1]
        cap = op[1] if k == "pushvar_cap" else 16
        b = Buffer(capacity=cap)
        try:
            b.push_uint_var(v)
            err = None
        except Exception as e:
            err = errk(e)
        if 0 <= v < U62:
            ref = rfc_varint(v)
            if len(ref) > cap:
                if err != E_WRITE:
                    return ("push_uint_var(%d) into capacity %d: expected BufferWriteError" % (v, cap), {"codec": "varint", "rule": "bounds"})
                return None
            if err is not None or b.data != ref:
                return ("push_uint_var(%d) differs from the RFC 9000 encoder" % v, {"codec": "varint", "rule": "bytes"})
            if size_uint_var(v) != len(ref) or encode_uint_var(v) != ref:
                return ("size_uint_var/encode_uint_var(%d) disagree with the encoder" % v, {"codec": "varint", "rule": "size"})
            r = Buffer(data=b.data + b"\x55")
            if r.pull_uint_var() != v or r.tell() != len(ref):
                return ("pull_uint_var does not return the pushed value %d" % v, {"codec": "varint", "rule": "roundtrip"})
        elif U62 <= v < 1 << 64:
            if err != E_VALUE:
                return ("push_uint_var(%d) must raise ValueError" % v, {"codec": "varint", "rule": "too_big"})
        else:
            F12_SEEN["var"] += 1
    elif k == "size":
        v = op[1]
        if 0 <= v < U62 and size_uint_var(v) != len(rfc_varint(v)):
            return ("size_uint_var(%d) wrong" % v, {"codec": "varint", "rule": "size"})
    elif k == "pull":
        w, data = op[1], B(op[2])
        b = Buffer(data=data)
        try:
            v = getattr(b, "pull_uint%d" % (8 * w))()
        except BufferReadError:
            if len(data) >= w:
                return ("pull_uint%d raised on %d bytes" % (8 * w, len(data)), {"codec": "fixed", "rule": "spurious_error"})
            return None
        if len(data) < w or v != int.from_bytes(data[:w], "big") or b.tell() != w:
            return ("pull_uint%d wrong value/consumed" % (8 * w), {"codec": "fixed", "rule": "decode"})
    elif k == "pullvar":
        data = B(op[1])
        b = Buffer(data=data)
        ref = rfc_varint_decode(data)
        try:
            v = b.pull_uint_var()
        except BufferReadError:
            if ref is not None:
                return ("pull_uint_var raised on a complete encoding", {"codec": "varint", "rule": "spurious_error"})
            return None
        if ref is None or (v, b.tell()) != ref:
            return ("pull_uint_var differs from RFC 9000 A.1 ReadVarint", {"codec": "varint", "rule": "decode"})
        b2 = Buffer(capacity=8)
        b2.push_uint_var(v)
        if Buffer(data=b2.data).pull_uint_var() != v or len(b2.data) > b.tell():
            return ("decoded varint does not re-encode to an equivalent encoding", {"codec": "varint", "rule": "reencode"})
    elif k == "pullbytes":
        n, data = op[1], B(op[2])
        b = Buffer(data=data)
        try:
            v = b.pull_bytes(n)
        except BufferReadError:
            if 0 <= n <= len(data):
                return ("pull_bytes raised within bounds", {"codec": "bytes", "rule": "spurious_error"})
            return None
        if not (0 <= n <= len(data)) or v != data[:n] or b.tell() != n:
            return ("pull_bytes(%d) read outside the buffer or wrong bytes" % n, {"codec": "bytes", "rule": "bounds"})
    return None


def boundary_ints():
    vals = set()
    for e in (0, 6, 7, 8, 14, 15, 16, 30, 31, 32, 62, 63, 64):
        for d in range(-3, 4):
            vals.add((1 << e) + d)
            vals.add(-(1 << e) + d)
    for e in (62, 64):
        for m in (2, 3):
            vals.add(m * (1 << e) + 5)
    vals |= {263, (1 << 64) + 5, (1 << 200) + 9, -(1 << 200) + 3, 16383, 16384, 1073741823, 1073741824, U62 - 1, U62}
    return sorted(vals)


def rand_int(rng):
    r = rng.random()
    if r < 0.35:
        return rng.getrandbits(62)
    if r < 0.55:
        return rng.getrandbits(64)
    if r < 0.85:
        return rng.getrandbits(rng.choice([1, 5, 6, 7, 8, 13, 14, 15, 16, 29, 30, 31, 32, 33, 48, 61]))
    if r < 0.93:
        return -rng.getrandbits(rng.choice([3, 8, 16, 63, 64, 70]))
    return rng.getrandbits(rng.choice([65, 66, 80, 128]))


def vi_gen(rng, n):
    cases = []

    def add(*op):
        cases.append({"s": "ints", "op": list(op)})

    for v in boundary_ints():
        for w in (1, 2, 4, 8):
            add("push", w, v)
        add("pushvar", v)
        add("size", v)
        if 0 <= v < U62:
            enc = rfc_varint(v)
            add("pullvar", H(enc))
            add("pullvar", H(enc + b"\x01\x02"))
            for cut in range(len(enc)):
                add("pullvar", H(enc[:cut]))
            # non-minimal encodings of the same value
            for L in (2, 4, 8):
                if L > len(enc) and v < 1 << (8 * L - 2):
                    add("pullvar", H(((({2: 1, 4: 2, 8: 3}[L]) << (8 * L - 2)) | v).to_bytes(L, "big")))
        for cap in (0, 1, 2, 3, 4, 7, 8):
            add("pushvar_cap", cap, v)
    for b0 in range(256):                      # every first byte, complete and one byte short
        L = 1 << (b0 >> 6)
        tail = bytes((b0 * 7 + i * 13 + 1) & 0xFF for i in range(L - 1))
        add("pullvar", H(bytes([b0]) + tail))
        add("pullvar", H((bytes([b0]) + tail)[:-1]))
        add("pullvar", H(bytes([b0]) + tail + b"\xff"))
    for w in (1, 2, 4, 8):
        for ln in range(0, w + 2):
            add("pull", w, H(bytes((i * 37 + 200) & 0xFF for i in range(ln))))
        add("pull", w, H(b"\xff" * w))
        add("pull", w, H(b"\x00" * w))
        add("pull", w, H(b"\x80" + b"\x00" * (w - 1)))
    for k in (-(1 << 62), -2, -1, 0, 1, 3, 4, 5, 1 << 31, 1 << 32, U62, (1 << 63) - 1):
        add("pullbytes", k, H(b"\x01\x02\x03\x04"))
    for _ in range(n):
        r = rng.random()
        v = rand_int(rng)
        if r < 0.3:
            add("pushvar", v)
        elif r < 0.5:
            add("push", rng.choice([1, 2, 4, 8]), v)
        elif r < 0.55:
            add("size", v)
        elif r < 0.6:
            add("pushvar_cap", rng.randint(0, 9), v)
        elif r < 0.85:
            data = bytes(rng.getrandbits(8) for _ in range(rng.randint(0, 10)))
            add("pullvar", H(data))
        elif r < 0.97:
            w = rng.choice([1, 2, 4, 8])
            add("pull", w, H(bytes(rng.getrandbits(8) for _ in range(rng.choice([w, w, w + 1, rng.randint(0, w)])))))
        else:
            add("pullbytes", rng.randint(-2, 12), H(bytes(rng.getrandbits(8) for _ in range(rng.randint(0, 10)))))
    return cases


# ------------------------------------------------------------------ decoders on a Buffer that stands mid-buffer (s17)
def at_offset_oracle(codec, fn, data, prefix):
    """Every model reads 'the remaining suffix'.  The implementation reads a Buffer with absolute tell() / capacity; a decoder
    that compares a length with an absolute position is only right at offset 0.  So: the outcome (value, exception class,
    bytes consumed) of fn on Buffer(prefix + data) standing at len(prefix) must equal the outcome on Buffer(data) at 0."""
    from aioquic.buffer import Buffer

    def outcome(buf, skip):
        try:
            v = fn(buf)
        except Exception as e:
            return ("raise", type(e).__name__)
        return ("ok", v, buf.tell() - skip)
    b = Buffer(data=prefix + data)
    b.seek(len(prefix))
    at, zero = outcome(b, len(prefix)), outcome(Buffer(data=data), 0)
    if at != zero:
        return ("%s decoder on a Buffer standing at offset %d behaves differently from the same bytes at offset 0: %s vs %s"
                % (codec, len(prefix), corr._short(at, 300), corr._short(zero, 300)), {"codec": codec, "rule": "position_dependent"})
    if at[0] == "ok" and not 0 <= at[2] <= len(data):
        return ("%s decoder at offset %d consumed %d of %d bytes" % (codec, len(prefix), at[2], len(data)), {"codec": codec, "rule": "bounds"})
    return None


def at_offset_cases(rng, cases, share, suite):
    """turn a share of the generated 'pull' cases into 'pullat' cases: same bytes behind a prefix of 1..1500 bytes"""
    out = []
    for c in cases:
        op = c["op"]
        if op[0] == "pull" and rng.random() < share:
            n = rng.choice([1, 1, 2, 3, 4, 7, 8, 16, 63, 64, 65, 255, 256, rng.randint(1, 1500)])
            out.append({"s": suite, "op": ["pullat"] + op[1:] + [H(bytes(rng.getrandbits(8) for _ in range(n)))]})
    return out


# ------------------------------------------------------------------ suite: ACK frames
def ack_encode(case):
    op = case["op"]
    if op[0] == "push":
        t = [0, op[1], op[2], len(op[3])]
        for s, e in op[3]:
            t += [s, e]
        return t
    return [1] + lp(B(op[1]))


def _rangeset(ranges):
    from aioquic.quic.rangeset import RangeSet
    return RangeSet([range(s, e) for s, e in ranges])


def ack_impl(case):
    from aioquic.buffer import Buffer
    from aioquic.quic import packet
    op = case["op"]
    try:
        if op[0] == "push":
            rs = _rangeset(op[3])
            if [[r.start, r.stop] for r in rs] != [list(x) for x in op[3]]:
                raise RuntimeError("generator produced a non-canonical range set")
            b = Buffer(capacity=op[1])
            packet.push_ack_frame(b, rs, op[2])
            return [0] + lp(b.data)
        data = B(op[1])
        skip = 0
        if op[0] == "pullat":       # the frame inside a packet payload: Buffer over prefix + frame, standing at the frame
            skip = len(B(op[2]))
            data = B(op[2]) + data
        b = Buffer(data=data)
        b.seek(skip)
        rs, delay = packet.pull_ack_frame(b)
        out = [0, delay, len(rs)]
        for r in rs:
            out += [r.start, r.stop]
        return out + [b.tell() - skip]
    except RuntimeError:
        raise
    except Exception as e:
        return [errk(e)]


def ack_wf(ranges):
    lo = 0
    for s, e in ranges:
        if not (lo <= s < e <= U62):
            return False
        lo = e + 1
    return len(ranges) > 0


def ack_oracle(case):
    from aioquic.buffer import Buffer, BufferReadError
    from aioquic.quic import packet
    op = case["op"]
    if op[0] == "push":
        cap, delay, ranges = op[1], op[2], op[3]
        if not ack_wf(ranges) or not 0 <= delay < U62:
            return None
        ref = rfc_ack(ranges, delay)
        b = Buffer(capacity=cap)
        try:
            n = packet.push_ack_frame(b, _rangeset(ranges), delay)
        except Exception as e:
            if errk(e) == E_WRITE and len(ref) > cap:
                return None
            return ("push_ack_frame raised %s on a well-formed range set" % type(e).__name__, {"codec": "ack", "rule": "raise"})
        if len(ref) > cap:
            return ("push_ack_frame wrote beyond the capacity", {"codec": "ack", "rule": "bounds"})
        if b.data != ref or n != len(ranges):
            return ("push_ack_frame bytes differ from the RFC 9000 19.3 encoder", {"codec": "ack", "rule": "bytes"})
        r = Buffer(data=b.data + b"\x00\x07")
        rs, d = packet.pull_ack_frame(r)
        if [[x.start, x.stop] for x in rs] != [list(x) for x in ranges] or d != delay or r.tell() != len(ref):
            return ("pull_ack_frame(push_ack_frame(rs)) != rs", {"codec": "ack", "rule": "roundtrip"})
        return None
    if op[0] == "pullat":
        return at_offset_oracle("ack", lambda b: packet.pull_ack_frame(b), B(op[1]), B(op[2])) or \
            ack_oracle({"s": "ack", "op": ["pull", op[1]]})
    data = B(op[1])
    b = Buffer(data=data)
    ref = rfc_ack_decode(data)
    try:
        rs, delay = packet.pull_ack_frame(b)
    except BufferReadError:
        if ref is not None:
            return ("pull_ack_frame raised on a complete frame", {"codec": "ack", "rule": "spurious_error"})
        return None
    got = [(x.start, x.stop) for x in rs]
    if ref is None or (got, delay, b.tell()) != ref:
        return ("pull_ack_frame differs from the RFC 9000 19.3.1 decoder", {"codec": "ack", "rule": "decode"})
    b2 = Buffer(capacity=len(data) + 16)
    packet.push_ack_frame(b2, rs, delay)
    rs2, d2 = packet.pull_ack_frame(Buffer(data=b2.data))
    if rs2 != rs or d2 != delay or len(b2.data) > b.tell():
        return ("decoded ACK frame does not re-encode to an equivalent encoding", {"codec": "ack", "rule": "reencode"})
    return None


def ranges_of_set(xs):
    out = []
    for x in sorted(xs):
        if out and out[-1][1] == x:
            out[-1][1] = x + 1
        else:
            out.append([x, x + 1])
    return out


def ack_exhaustive(universe, offsets):
    for bits in range(1, 1 << universe):
        base = ranges_of_set([i for i in range(universe) if bits >> i & 1])
        for off in offsets:
            rs = [[s + off, e + off] for s, e in base]
            if rs[-1][1] <= U62:
                yield {"s": "ack", "op": ["push", 256, (bits * 2654435761) % 70000, rs]}


def rand_ranges(rng):
    n = rng.choice([1, 1, 2, 3, 4, 8, 20, rng.randint(1, 60)])
    scale = rng.choice([3, 70, 20000, 1 << 31, 1 << 58])
    pos = rng.choice([0, 0, 1, 62, rng.randrange(scale)])
    out = []
    for _ in range(n):
        ln = rng.choice([1, 1, 2, 63, 64, 65, rng.randrange(1, scale + 1)])
        if pos + ln > U62:
            break
        out.append([pos, pos + ln])
        pos += ln + rng.choice([1, 1, 2, 64, 65, rng.randrange(1, scale + 1)])
    return out or [[0, 1]]


def mutate(rng, data):
    data = bytearray(data)
    r = rng.random()
    if r < 0.3 and data:
        data[rng.randrange(len(data))] = rng.getrandbits(8)
    elif r < 0.5 and data:
        del data[rng.randrange(len(data)):]
    elif r < 0.65:
        data += bytes(rng.getrandbits(8) for _ in range(rng.randint(1, 6)))
    elif r < 0.8 and data:
        i = rng.randrange(len(data))
        data[i] ^= 1 << rng.randrange(8)
    elif r < 0.9 and data:
        i = rng.randrange(len(data))
        del data[i:i + rng.randint(1, 3)]
    else:
        i = rng.randrange(len(data) + 1)
        data[i:i] = bytes(rng.getrandbits(8) for _ in range(rng.randint(1, 3)))
    return bytes(data)


def ack_gen(rng, n, thorough):
    cases = list(ack_exhaustive(8 if thorough else 6, [0, 1, 61, 62, 63, 16381, 16382, 16383, (1 << 30) - 4, U62 - 8]))
    # F11 calibration: thousands of ranges against a packet-sized buffer -> BufferWriteError
    many = [[3 * i, 3 * i + 1] for i in range(2000)]
    cases.append({"s": "ack", "op": ["push", 1200, 5, many]})
    cases.append({"s": "ack", "op": ["push", 8192, 5, many]})
    for v in (U62 - 1, U62, 1 << 64, -1):
        cases.append({"s": "ack", "op": ["push", 64, v, [[0, 1]]]})
    cases.append({"s": "ack", "op": ["push", 64, 0, []]})
    for _ in range(n):
        r = rng.random()
        if r < 0.45:
            rs = rand_ranges(rng)
            delay = rng.choice([0, 63, 64, rng.getrandbits(14), rng.getrandbits(62)])
            cap = rng.choice([4096, 4096, 4096, rng.randint(0, 40)])
            cases.append({"s": "ack", "op": ["push", cap, delay, rs]})
        elif r < 0.8:
            rs = rand_ranges(rng)
            data = rfc_ack(rs, rng.getrandbits(rng.choice([3, 14, 30])))
            for _ in range(rng.randint(0, 2)):
                data = mutate(rng, data)
            cases.append({"s": "ack", "op": ["pull", H(data)]})
        else:
            cases.append({"s": "ack", "op": ["pull", H(bytes(rng.getrandbits(rng.choice([3, 6, 8])) for _ in range(rng.randint(0, 24))))]})
    return cases


# ------------------------------------------------------------------ suite: packet headers
class StubCrypto:
    """identity 'encryption' with a 16-byte tag, so that the builder's plain header bytes are observable"""
    aead_tag_size = 16

    def __init__(self, key_phase=0):
        self.key_phase = key_phase

    def encrypt_packet(self, plain_header, plain_payload, packet_number):
        return plain_header + plain_payload + bytes(16)


def build_packet(version, ptype, pn, payload_len, pcid, hcid, token, spin=False, key_phase=0, is_client=True):
    """drive the real QuicPacketBuilder; returns (datagram, sent_bytes)"""
    from aioquic.quic.packet import QuicFrameType, QuicPacketType
    from aioquic.quic.packet_builder import QuicPacketBuilder
    b = QuicPacketBuilder(host_cid=hcid, peer_cid=pcid, version=version, is_client=is_client, max_datagram_size=1280,
                          packet_number=pn, peer_token=token, spin_bit=spin)
    b.start_packet(QuicPacketType(ptype), StubCrypto(key_phase))
    buf = b.start_frame(QuicFrameType.PING)
    buf.push_bytes(bytes(payload_len))
    datagrams, packets = b.flush()
    return datagrams[0], packets[0].sent_bytes


def long_header_size(ptype, pcid, hcid, token):
    n = 7 + len(pcid) + len(hcid)
    if ptype == 0:
        n += len(rfc_varint(len(token))) + len(token)
    return n + 4


def hd_encode(case):
    op = case["op"]
    k = op[0]
    if k == "pull":
        return [0, op[1]] + lp(B(op[2]))
    if k == "long":
        _, version, ptype, pn, payload_len, pcid, hcid, token = op
        dg, sent = build_packet(version, ptype, pn, payload_len, B(pcid), B(hcid), B(token))
        length = sent - long_header_size(ptype, B(pcid), B(hcid), B(token)) + 2
        return [1, version, ptype, pn, length] + lp(B(pcid)) + lp(B(hcid)) + lp(B(token))
    if k == "short":
        return [2, op[1], op[2], op[3]] + lp(B(op[4]))
    if k == "retry":
        _, version, unused, scid, dcid, odcid, token = op
        scid, dcid, odcid, token = B(scid), B(dcid), B(odcid), B(token)
        try:
            first = 0xC0 | (LONG_TYPE_BITS[2 if version == V2 else 1][3] << 4) | unused
            wo = bytes([first & 0xFF]) + (version & 0xFFFFFFFF).to_bytes(4, "big") + bytes([len(dcid) & 0xFF]) + dcid + \
                bytes([len(scid) & 0xFF]) + scid + token
            tag = rfc_retry_tag(version, odcid, wo)
        except Exception:
            tag = bytes(16)
        return [3, version, unused] + lp(scid) + lp(dcid) + lp(token) + lp(tag)
    if k == "vn":
        return [4, op[1]] + lp(B(op[2])) + lp(B(op[3])) + [len(op[4])] + list(op[4])
    raise ValueError(k)


def _hdr_tokens(h, tell):
    out = [0] if h.version is None else [1, h.version]
    out += [h.packet_type.value, h.packet_length]
    for f in (h.destination_cid, h.source_cid, h.token, h.integrity_tag):
        out += lp(f)
    return out + [len(h.supported_versions)] + list(h.supported_versions) + [tell]


def hd_impl(case):
    from aioquic.buffer import Buffer
    from aioquic.quic import packet
    op = case["op"]
    k = op[0]
    try:
        if k == "pull":
            b = Buffer(data=B(op[2]))
            h = packet.pull_quic_header(b, host_cid_length=op[1])
            return [0] + _hdr_tokens(h, b.tell())
        if k == "long":
            _, version, ptype, pn, payload_len, pcid, hcid, token = op
            dg, sent = build_packet(version, ptype, pn, payload_len, B(pcid), B(hcid), B(token))
            return [0] + lp(dg[:long_header_size(ptype, B(pcid), B(hcid), B(token))])
        if k == "short":
            dg, sent = build_packet(V1, 5, op[3], 5, B(op[4]), b"\x01", b"", spin=bool(op[1]), key_phase=op[2])
            return [0] + lp(dg[:3 + len(B(op[4]))])
        if k == "retry":
            _, version, unused, scid, dcid, odcid, token = op
            data = packet.encode_quic_retry(version, B(scid), B(dcid), B(odcid), B(token), unused)
            return [0] + lp(data)
        if k == "vn":
            with mock.patch.object(os, "urandom", lambda n: bytes([op[1]]) * n):
                data = packet.encode_quic_version_negotiation(B(op[2]), B(op[3]), op[4])
            return [0] + lp(data)
    except Exception as e:
        return [errk(e)]
    raise ValueError(k)


def hd_oracle(case):
    from aioquic.buffer import Buffer
    from aioquic.quic import packet
    from aioquic.quic.packet import QuicPacketType
    op = case["op"]
    k = op[0]
    if k == "pull":
        data = B(op[2])
        b = Buffer(data=data)
        try:
            h = packet.pull_quic_header(b, host_cid_length=op[1])
        except ValueError:      # BufferReadError is a ValueError: the documented parse errors
            return None
        except Exception as e:
            return ("pull_quic_header raised %s" % type(e).__name__, {"codec": "header", "rule": "exception", "exception": type(e).__name__})
        if not (0 <= b.tell() <= len(data)) or not (b.tell() <= h.packet_length <= len(data)):
            return ("header fields not nested in the datagram: tell=%d packet_length=%d datagram=%d" % (b.tell(), h.packet_length, len(data)),
                    {"codec": "header", "rule": "nesting"})
        if len(h.destination_cid) > 20 and h.packet_type != QuicPacketType.ONE_RTT or len(h.source_cid) > 20:
            return ("connection ID longer than 20 bytes accepted", {"codec": "header", "rule": "cid_length"})
        # re-encode -> decode gives the same header
        if h.packet_type == QuicPacketType.VERSION_NEGOTIATION:
            again = packet.encode_quic_version_negotiation(h.source_cid, h.destination_cid, h.supported_versions)
            h2 = packet.pull_quic_header(Buffer(data=again), host_cid_length=op[1])
            if (h2.packet_type, h2.destination_cid, h2.source_cid, h2.supported_versions) != \
                    (h.packet_type, h.destination_cid, h.source_cid, h.supported_versions):
                return ("decoded Version Negotiation does not re-encode to the same value", {"codec": "header", "rule": "reencode_vn"})
        elif h.packet_type in (QuicPacketType.INITIAL, QuicPacketType.ZERO_RTT, QuicPacketType.HANDSHAKE):
            rest = h.packet_length - b.tell()
            if 2 <= rest < 16384 - 16 and rest <= 1100:
                ref = rfc_long_header(h.version, h.packet_type.value, h.destination_cid, h.source_cid, h.token, rest, 0)
                h2 = packet.pull_quic_header(Buffer(data=ref + bytes(rest - 2)), host_cid_length=op[1])
                if (h2.version, h2.packet_type, h2.destination_cid, h2.source_cid, h2.token, h2.packet_length - len(ref) + 2) != \
                        (h.version, h.packet_type, h.destination_cid, h.source_cid, h.token, rest):
                    return ("decoded long header does not re-encode to the same value", {"codec": "header", "rule": "reencode_long"})
        return None
    if k == "long":
        _, version, ptype, pn, payload_len, pcid, hcid, token = op
        pcid, hcid, token = B(pcid), B(hcid), B(token)
        dg, sent = build_packet(version, ptype, pn, payload_len, pcid, hcid, token)
        if not (0 < version < 1 << 32) or len(pcid) > 255 or len(hcid) > 255:
            return None
        hs = long_header_size(ptype, pcid, hcid, token)
        ref = rfc_long_header(version, ptype, pcid, hcid, token, sent - hs + 2, pn)
        if dg[:hs] != ref:
            return ("builder header bytes differ from the RFC 9000 17.2 layout", {"codec": "header", "rule": "builder_bytes"})
        b = Buffer(data=dg)
        try:
            h = packet.pull_quic_header(b, host_cid_length=len(pcid))
        except ValueError:
            if len(pcid) > 20 or len(hcid) > 20:
                return None
            return ("pull_quic_header rejects a header written by the builder", {"codec": "header", "rule": "builder_roundtrip"})
        if len(pcid) > 20 or len(hcid) > 20:
            return ("connection ID longer than 20 bytes accepted", {"codec": "header", "rule": "cid_length"})
        if (h.version, h.packet_type.value, h.destination_cid, h.source_cid, h.token, h.packet_length, b.tell()) != \
                (version, ptype, pcid, hcid, token if ptype == 0 else b"", sent, hs - 2):
            return ("pull_quic_header of the builder's packet returns other fields", {"codec": "header", "rule": "builder_roundtrip"})
        return None
    if k == "short":
        pcid = B(op[4])
        dg, sent = build_packet(V1, 5, op[3], 5, pcid, b"\x01", b"", spin=bool(op[1]), key_phase=op[2])
        ref = bytes([0x40 | (op[1] << 5) | (op[2] << 2) | 1]) + pcid + (op[3] & 0xFFFF).to_bytes(2, "big")
        if dg[:len(ref)] != ref:
            return ("builder short header differs from the RFC 9000 17.3 layout", {"codec": "header", "rule": "builder_bytes"})
        b = Buffer(data=dg)
        h = packet.pull_quic_header(b, host_cid_length=len(pcid))
        if (h.version, h.packet_type, h.destination_cid, h.packet_length, b.tell()) != (None, QuicPacketType.ONE_RTT, pcid, len(dg), 1 + len(pcid)):
            return ("pull_quic_header of the builder's short packet returns other fields", {"codec": "header", "rule": "builder_roundtrip"})
        return None
    if k == "retry":
        _, version, unused, scid, dcid, odcid, token = op
        scid, dcid, odcid, token = B(scid), B(dcid), B(odcid), B(token)
        if not (0 < version < 1 << 32) or not (0 <= unused < 16) or max(len(scid), len(dcid), len(odcid)) > 255:
            return None
        data = packet.encode_quic_retry(version, scid, dcid, odcid, token, unused)
        ref = rfc_long_header(version, 3, dcid, scid, b"", 0, 0, low_bits=unused) + token
        ref += rfc_retry_tag(version, odcid, ref)
        if data != ref:
            return ("encode_quic_retry differs from the RFC 9000 17.2.5 / RFC 9001 5.8 encoder", {"codec": "header", "rule": "retry_bytes"})
        b = Buffer(data=data)
        try:
            h = packet.pull_quic_header(b, host_cid_length=8)
        except ValueError:
            if len(scid) > 20 or len(dcid) > 20:
                return None
            return ("pull_quic_header rejects encode_quic_retry output", {"codec": "header", "rule": "retry_roundtrip"})
        if len(scid) > 20 or len(dcid) > 20:
            return ("connection ID longer than 20 bytes accepted", {"codec": "header", "rule": "cid_length"})
        if (h.version, h.packet_type, h.destination_cid, h.source_cid, h.token, h.integrity_tag, h.packet_length, b.tell()) != \
                (version, QuicPacketType.RETRY, dcid, scid, token, ref[-16:], len(data), len(data)):
            return ("pull_quic_header(encode_quic_retry(..)) returns other fields", {"codec": "header", "rule": "retry_roundtrip"})
        return None
    if k == "vn":
        scid, dcid, versions = B(op[2]), B(op[3]), op[4]
        if max(len(scid), len(dcid)) > 255 or any(not 0 <= v < 1 << 32 for v in versions):
            return None
        data = packet.encode_quic_version_negotiation(scid, dcid, versions)
        ref = bytes([len(dcid)]) + dcid + bytes([len(scid)]) + scid + b"".join(v.to_bytes(4, "big") for v in versions)
        if not (data[0] & 0x80) or data[1:5] != bytes(4) or data[5:] != ref:
            return ("encode_quic_version_negotiation differs from the RFC 9000 17.2.1 layout", {"codec": "header", "rule": "vn_bytes"})
        b = Buffer(data=data)
        try:
            h = packet.pull_quic_header(b, host_cid_length=8)
        except ValueError:
            if len(scid) > 20 or len(dcid) > 20:
                return None
            return ("pull_quic_header rejects encode_quic_version_negotiation output", {"codec": "header", "rule": "vn_roundtrip"})
        if len(scid) > 20 or len(dcid) > 20:
            return ("connection ID longer than 20 bytes accepted", {"codec": "header", "rule": "cid_length"})
        if (h.version, h.packet_type, h.destination_cid, h.source_cid, h.supported_versions, h.packet_length) != \
                (0, QuicPacketType.VERSION_NEGOTIATION, dcid, scid, list(versions), len(data)):
            return ("pull_quic_header(encode_quic_version_negotiation(..)) returns other fields", {"codec": "header", "rule": "vn_roundtrip"})
        return None
    return None


def rbytes(rng, n):
    return bytes(rng.getrandbits(8) for _ in range(n))


def hd_valid_packet(rng):
    """a syntactically valid packet (independent encoder), to be mutated"""
    version = rng.choice([V1, V1, V2, V2, 0xFF00001D, rng.getrandbits(32) or 7])
    dcid, scid = rbytes(rng, rng.randint(0, 20)), rbytes(rng, rng.randint(0, 20))
    r = rng.random()
    if r < 0.12:
        return bytes([0x80 | rng.getrandbits(7)]) + bytes(4) + bytes([len(dcid)]) + dcid + bytes([len(scid)]) + scid + \
            b"".join(rng.getrandbits(32).to_bytes(4, "big") for _ in range(rng.randint(0, 4)))
    if r < 0.24:
        return rfc_long_header(version, 3, dcid, scid, b"", 0, 0, low_bits=rng.getrandbits(4)) + rbytes(rng, rng.randint(0, 30)) + rbytes(rng, 16)
    if r < 0.34:
        return bytes([0x40 | rng.getrandbits(6)]) + rbytes(rng, rng.randint(0, 30))
    ptype = rng.choice([0, 1, 2])
    token = rbytes(rng, rng.choice([0, 0, 1, 16, 63, 64, 70]))
    payload = rng.choice([2, 3, 20, 63, 64, 100])
    return rfc_long_header(version, ptype, dcid, scid, token, payload, rng.getrandbits(16), low_bits=rng.getrandbits(4)) + \
        bytes(payload - 2) + rbytes(rng, rng.choice([0, 0, 0, 5, 40]))


def hd_gen(rng, n, thorough):
    cases = []

    def add(*op):
        cases.append({"s": "header", "op": list(op)})

    cid = lambda k: H(bytes((i * 11 + k) & 0xFF for i in range(k)))
    # all CID lengths 0..20 (+21, 255) x packet types x both versions, through the real builder
    for version in (V1, V2):
        for ptype in (0, 1, 2):
            for L in list(range(0, 22)) + [255]:
                add("long", version, ptype, 0x12345 + L, 7, cid(L), cid((L * 7) % 21), H(bytes(range(L % 5))) if ptype == 0 else "")
                add("long", version, ptype, L, 1, cid(8), cid(L), "")
            for tl in (0, 1, 63, 64, 65, 200):
                add("long", version, 0, 3, 30, cid(8), cid(8), H(bytes(i & 0xFF for i in range(tl))))
            for pl in (0, 1, 2, 3, 50, 61, 62, 63, 900, 1100):
                add("long", version, ptype, 0xFFFF + pl, pl, cid(8), cid(5), "")
        for L in list(range(0, 22)) + [255]:
            for unused in (0, 15):
                add("retry", version, unused, cid(L), cid((L * 3) % 21), cid(8), H(bytes(range(L))))
            add("retry", version, 0, cid(4), cid(L), cid(L % 21), "")
    for L in list(range(0, 22)) + [255]:
        add("vn", 0x7F & (L * 5), cid(L), cid((L * 3) % 21), [V1, V2, 0xFF00001D][: L % 4])
        add("vn", 0xFF, cid(3), cid(L), [0, 0xFFFFFFFF])
        for spin in (0, 1):
            for kp in (0, 1):
                add("short", spin, kp, 0xFFFE + L, cid(L if L < 30 else 21))
    add("retry", 0, 0, cid(8), cid(8), cid(8), "aabb")              # version 0 Retry decodes as Version Negotiation
    add("retry", 1 << 32 | 5, 3, cid(8), cid(8), cid(8), "")        # version wraps (F12 family)
    add("retry", V1, 16, cid(8), cid(8), cid(8), "")                # unused bits overflow into the type field
    add("retry", V1, 256 + 1, cid(2), cid(2), cid(2), "01")
    add("vn", 0, cid(3), cid(4), [1 << 32, -1])
    # decoding: valid packets, truncations at every length, mutations, random bytes, host cid lengths
    for _ in range(n):
        r = rng.random()
        hcl = rng.choice([0, 8, 8, 8, 20, rng.randint(0, 25), -1])
        if r < 0.25:
            add("pull", hcl, H(hd_valid_packet(rng)))
        elif r < 0.7:
            data = hd_valid_packet(rng)
            for _ in range(rng.randint(1, 3)):
                data = mutate(rng, data)
            add("pull", hcl, H(data))
        elif r < 0.8:
            data = hd_valid_packet(rng)
            add("pull", hcl, H(data[:rng.randint(0, len(data))]))
        elif r < 0.9:
            add("pull", hcl, H(rbytes(rng, rng.randint(0, 40))))
        else:
            # lying lengths: huge token / payload lengths, CID length 21 and 255
            dcid = rbytes(rng, rng.choice([20, 21, 255]))
            body = rng.choice([rfc_varint(rng.choice([U62 - 1, 1 << 30, 16384, 64, 5])), b""]) + rbytes(rng, rng.randint(0, 8))
            add("pull", hcl, H(bytes([0xC0 | rng.getrandbits(6)]) + rng.choice([V1, V2]).to_bytes(4, "big") + bytes([len(dcid)]) + dcid +
                               bytes([rng.choice([0, 4, 20, 21])]) + rbytes(rng, 4) + body))
    if thorough:
        base = [hd_valid_packet(rng) for _ in range(200)]
        for data in base:
            for cut in range(len(data)):
                add("pull", 8, H(data[:cut]))
    return cases



# ------------------------------------------------------------------ suite: packet headers at a buffer offset (s17)
# pull_quic_header is handed a Buffer over the WHOLE datagram standing at the packet start (second and later
# coalesced packets: receive_datagram's loop); model/HeaderAt.v keeps buf.tell() / buf.capacity absolute.
E_SEEK = 110


def rfc_varint_w(v, width):
    """varint of a chosen width (1, 2, 4, 8) -- RFC 9000 16 allows non-minimal encodings"""
    return (v | ({1: 0, 2: 1, 4: 2, 8: 3}[width] << (8 * width - 2))).to_bytes(width, "big")


def rfc_long_prefix(version, ptype, dcid, scid, token, length, width=2, low_bits=1):
    """long header up to and including the Length field (RFC 9000 17.2, RFC 9369 3.2); Length of any varint width"""
    bits = LONG_TYPE_BITS[2 if version == V2 else 1][ptype]
    out = bytes([0xC0 | (bits << 4) | low_bits]) + version.to_bytes(4, "big")
    out += bytes([len(dcid)]) + dcid + bytes([len(scid)]) + scid
    if ptype == 0:
        out += rfc_varint(len(token)) + token
    return out + rfc_varint_w(length, width)


def rfc_header_strict(data, start, hcl):
    """RFC 9000 17.2 / 17.3, RFC 9369 3.2 walked strictly from offset `start` of the datagram `data`, written
    without reference to packet.py.  None = not a well-formed header whose packet lies inside the datagram
    (truncated field, CID > 20, fixed bit clear, DECLARED PACKET END > DATAGRAM END).  Otherwise the fields,
    the offset where the header ends and the offset where the packet ends."""
    n = len(data)
    p = start
    if not 0 <= p < n:
        return None
    first = data[p]
    p += 1
    if not first & 0x80:
        if not first & 0x40 or hcl < 0 or p + hcl > n:
            return None
        # RFC 9000 section 10.3: with the AEADs defined for QUIC a short-header packet of fewer than 21 bytes is never valid;
        # an endpoint may (must, once it tries to remove protection) discard it.  The property allows a decoder either to
        # return the header or to raise its documented parse error on such input: "optional" marks that class.
        return {"version": None, "ptype": 5, "dcid": data[p:p + hcl], "scid": b"", "token": b"", "tag": b"", "versions": [],
                "hdr_end": p + hcl, "pkt_end": n, "optional": n - start < 21}
    if p + 4 > n:
        return None
    version = int.from_bytes(data[p:p + 4], "big")
    p += 4
    cids = []
    for _ in range(2):
        if p >= n:
            return None
        ln = data[p]
        p += 1
        if ln > 20 or p + ln > n:
            return None
        cids.append(data[p:p + ln])
        p += ln
    out = {"version": version, "dcid": cids[0], "scid": cids[1], "token": b"", "tag": b"", "versions": []}
    if version == 0:
        if (n - p) % 4:
            return None
        out.update(ptype=4, versions=[int.from_bytes(data[i:i + 4], "big") for i in range(p, n, 4)], hdr_end=n, pkt_end=n)
        return out
    if not first & 0x40:
        return None
    bits = (first >> 4) & 3
    ptype = {v: k for k, v in LONG_TYPE_BITS[2 if version == V2 else 1].items()}[bits]
    if ptype == 3:
        if n - p < 16:
            return None
        out.update(ptype=3, token=data[p:n - 16], tag=data[n - 16:], hdr_end=n, pkt_end=n)
        return out
    if ptype == 0:
        r = rfc_varint_decode(data, p)
        if r is None or r[1] + r[0] > n:
            return None
        out["token"] = data[r[1]:r[1] + r[0]]
        p = r[1] + r[0]
    r = rfc_varint_decode(data, p)
    if r is None:
        return None
    length, p = r
    if p + length > n:          # the Length field must not claim more than what is left of the datagram
        return None
    out.update(ptype=ptype, hdr_end=p, pkt_end=p + length)
    return out


def _real_walk(data, hcl):
    """the packet boundaries as receive_datagram derives them, with the real pull_quic_header / Buffer.seek"""
    from aioquic.buffer import Buffer, BufferReadError
    from aioquic.quic import packet
    buf = Buffer(data=data)
    bounds, status = [], 0
    while not buf.eof():
        start = buf.tell()
        try:
            h = packet.pull_quic_header(buf, host_cid_length=hcl)
        except ValueError as e:
            status = errk(e)
            break
        end = start + h.packet_length
        bounds.append((start, end))
        if end <= start:
            status = 111            # no progress: the real loop would not terminate
            break
        try:
            buf.seek(end)
        except BufferReadError:
            status = E_SEEK
            break
    return bounds, status


def _rfc_walk(data, hcl, reject_optional=False):
    """the same walk with the strict RFC reader only"""
    pos, bounds = 0, []
    while pos < len(data):
        r = rfc_header_strict(data, pos, hcl)
        if r is None:
            return bounds, "drop"
        if r.get("optional") and reject_optional:
            return bounds, "drop"
        bounds.append((pos, r["pkt_end"]))
        pos = r["pkt_end"]
    return bounds, "eof"


def build_coalesced(version, pkts, pcid, hcid, token, is_client):
    """drive the real QuicPacketBuilder: several packets into ONE datagram; returns (datagram, [sent_bytes])"""
    from aioquic.quic.packet import QuicFrameType, QuicPacketType
    from aioquic.quic.packet_builder import QuicPacketBuilder
    b = QuicPacketBuilder(host_cid=hcid, peer_cid=pcid, version=version, is_client=is_client, max_datagram_size=1280,
                          packet_number=7, peer_token=token)
    for ptype, payload_len in pkts:
        b.start_packet(QuicPacketType(ptype), StubCrypto(0))
        buf = b.start_frame(QuicFrameType.PING)
        buf.push_bytes(bytes([0x5A]) * payload_len)
    datagrams, packets = b.flush()
    if len(datagrams) != 1:
        raise RuntimeError("generator: packets did not fit one datagram")
    return datagrams[0], [p.sent_bytes for p in packets]


def _coalesced_of(op):
    _, version, pkts, pcid, hcid, token, is_client = op
    return build_coalesced(version, [tuple(x) for x in pkts], B(pcid), B(hcid), B(token), bool(is_client))


def hat_encode(case):
    op = case["op"]
    if op[0] == "pullat":
        return [0, op[1], op[2]] + lp(B(op[3]))
    if op[0] == "walk":
        return [1, op[1]] + lp(B(op[2]))
    if op[0] == "coalesce":
        dg, _ = _coalesced_of(op)
        return [1, len(B(op[3]))] + lp(dg)
    raise ValueError(op[0])


def _walk_tokens(bounds, status):
    out = [0, len(bounds)]
    for s, e in bounds:
        out += [s, e]
    return out + [status]


def hat_impl(case):
    from aioquic.buffer import Buffer, BufferReadError
    from aioquic.quic import packet
    op = case["op"]
    if op[0] == "pullat":
        b = Buffer(data=B(op[3]))
        try:
            b.seek(op[2])
        except BufferReadError:
            return [E_SEEK]
        try:
            h = packet.pull_quic_header(b, host_cid_length=op[1])
            return [0] + _hdr_tokens(h, b.tell())
        except Exception as e:
            return [errk(e)]
    if op[0] == "walk":
        return _walk_tokens(*_real_walk(B(op[2]), op[1]))
    if op[0] == "coalesce":
        dg, _ = _coalesced_of(op)
        return _walk_tokens(*_real_walk(dg, len(B(op[3]))))
    raise ValueError(op[0])


def hat_oracle(case):
    from aioquic.buffer import Buffer, BufferReadError
    from aioquic.quic import packet
    op = case["op"]
    if op[0] == "pullat":
        hcl, start, data = op[1], op[2], B(op[3])
        b = Buffer(data=data)
        try:
            b.seek(start)
        except BufferReadError:
            return None if not 0 <= start <= len(data) else ("Buffer.seek refused an offset inside the buffer", {"codec": "buffer", "rule": "seek"})
        if not 0 <= start <= len(data):
            return ("Buffer.seek accepted an offset outside the buffer", {"codec": "buffer", "rule": "seek"})
        ref = rfc_header_strict(data, start, hcl)
        try:
            h = packet.pull_quic_header(b, host_cid_length=hcl)
        except ValueError:
            if ref is not None and not ref.get("optional"):
                return ("pull_quic_header at offset %d rejects a well-formed packet that lies inside the datagram" % start,
                        {"codec": "header", "rule": "spurious_error_at_offset"})
            return None
        except Exception as e:
            return ("pull_quic_header raised %s" % type(e).__name__, {"codec": "header", "rule": "exception", "exception": type(e).__name__})
        end = start + h.packet_length
        if end > len(data) or b.tell() > end or b.tell() <= start:
            return ("packet at offset %d: pull_quic_header returned packet_length=%d, i.e. a packet end %d beyond the datagram end %d "
                    "(tell=%d) instead of raising 'Packet payload is truncated'" % (start, h.packet_length, end, len(data), b.tell())
                    if end > len(data) else
                    "packet at offset %d: header end %d not inside the packet [%d, %d)" % (start, b.tell(), start, end),
                    {"codec": "header", "rule": "nesting_at_offset"})
        if ref is None:
            return ("pull_quic_header at offset %d accepted a header that the strict RFC 9000 17.2 reader refuses" % start,
                    {"codec": "header", "rule": "accepts_malformed_at_offset"})
        got = (h.version, h.packet_type.value, h.destination_cid, h.source_cid, h.token, h.integrity_tag, list(h.supported_versions),
               b.tell(), end)
        want = (ref["version"], ref["ptype"], ref["dcid"], ref["scid"], ref["token"], ref["tag"], ref["versions"], ref["hdr_end"], ref["pkt_end"])
        if got != want:
            return ("pull_quic_header at offset %d differs from the strict RFC reader (fields, header end or packet end)" % start,
                    {"codec": "header", "rule": "decode_at_offset"})
        # the function must not depend on what precedes the packet
        b0 = Buffer(data=data[start:])
        h0 = packet.pull_quic_header(b0, host_cid_length=hcl)
        if (h0, b0.tell()) != (h, b.tell() - start):
            return ("pull_quic_header at offset %d differs from the same packet at offset 0" % start,
                    {"codec": "header", "rule": "position_dependent"})
        return None
    if op[0] in ("walk", "coalesce"):
        if op[0] == "walk":
            hcl, data, sent = op[1], B(op[2]), None
        else:
            data, sent = _coalesced_of(op)
            hcl = len(B(op[3]))
        try:
            bounds, status = _real_walk(data, hcl)
        except Exception as e:
            return ("walk over the coalesced packets raised %s" % type(e).__name__, {"codec": "header", "rule": "walk_exception", "exception": type(e).__name__})
        if status == E_SEEK:
            s, e = bounds[-1]
            return ("receive walk: packet at offset %d has packet_length=%d, buf.seek(%d) is out of bounds of the %d-byte datagram "
                    "(BufferReadError 'Seek out of bounds' instead of 'Packet payload is truncated')" % (s, e - s, e, len(data)),
                    {"codec": "header", "rule": "walk_seek_out_of_bounds"})
        if status not in (0, E_READ, E_VALUE):
            return ("receive walk ended with status %d" % status, {"codec": "header", "rule": "walk_status"})
        pos = 0
        for s, e in bounds:
            if s != pos or not s < e <= len(data):
                return ("receive walk: boundaries not consecutive / not inside the datagram: %r" % (bounds,), {"codec": "header", "rule": "walk_chain"})
            pos = e
        rb, rs = _rfc_walk(data, hcl)
        rb2, rs2 = _rfc_walk(data, hcl, reject_optional=True)      # a decoder that discards too-small short-header packets
        if (bounds, status == 0) != (rb, rs == "eof") and (bounds, status == 0) != (rb2, rs2 == "eof"):
            return ("receive walk differs from the strict RFC walk: %r %r vs %r %r" % (bounds, status, rb, rs), {"codec": "header", "rule": "walk_rfc"})
        if sent is not None:
            want, pos = [], 0
            for n in sent:
                want.append((pos, pos + n))
                pos += n
            tail = data[pos:]
            # bytes after the last packet: the builder's datagram padding (zero bytes tacked on after an Initial, RFC 9000 14.1)
            if bounds != want or any(tail) or (status == 0) != (not tail):
                return ("walk over a datagram of %d coalesced packets written by QuicPacketBuilder does not recover the builder's "
                        "packet boundaries: %r, status %d, builder %r + %d padding bytes" % (len(sent), bounds, status, want, len(tail)),
                        {"codec": "header", "rule": "coalesced_roundtrip"})
        return None
    return None


def hat_second_packets(rng, version, ptype, start, k_values):
    """long-header packets whose Length field is remaining + k, to be placed at offset `start`"""
    out = []
    dcid, scid = rbytes(rng, rng.choice([0, 8, 20])), rbytes(rng, rng.choice([0, 4, 20]))
    token = rbytes(rng, rng.choice([0, 7, 64])) if ptype == 0 else b""
    payload = rng.choice([0, 1, 2, 24, 70, 300])
    for k in k_values:
        length = payload + k
        if length < 0:
            continue
        width = rng.choice([w for w in (1, 2, 4, 8) if length < 1 << (8 * w - 2)])
        out.append(rfc_long_prefix(version, ptype, dcid, scid, token, length, width, rng.getrandbits(4)) + rbytes(rng, payload))
    return out


def hat_gen(rng, n, thorough):
    cases = []

    def add(*op):
        cases.append({"s": "headerat", "op": list(op)})

    def first_packet():
        r = rng.random()
        if r < 0.4:      # a real first packet (independent encoder), honest Length
            pl = rng.choice([2, 20, 60, 300, 1100])
            return rfc_long_header(rng.choice([V1, V2]), rng.choice([0, 2]), rbytes(rng, 8), rbytes(rng, rng.choice([0, 4, 8])), b"", pl, 1) + rbytes(rng, pl - 2)
        if r < 0.5:      # a real first packet through the real builder
            return build_packet(rng.choice([V1, V2]), rng.choice([0, 1, 2]), 3, rng.choice([1, 40, 200]), rbytes(rng, 8), rbytes(rng, 8), b"")[0]
        return rbytes(rng, rng.choice([1, 2, 3, 7, 16, 41, 63, 64, 65, 100, 255, 256, 1199, 1200, 1500, rng.randint(1, 1500)]))

    # 1. small scope, exhaustive: every start offset 1..S, every overstatement k = -2 .. start+2, all long types, both versions
    S = 48 if thorough else 24
    for version in (V1, V2):
        for ptype in (0, 1, 2):
            for start in range(1, S + 1):
                prefix = rbytes(rng, start)
                for pkt in hat_second_packets(rng, version, ptype, start, list(range(-2, start + 3))):
                    add("pullat", 8, start, H(prefix + pkt))
    # 2. prefixes of 1..1500 arbitrary bytes or a real first packet; Length = remaining + k around 0 and around start
    for _ in range(n // 12):
        prefix = first_packet()
        start = len(prefix)
        version, ptype = rng.choice([V1, V2]), rng.choice([0, 1, 2])
        ks = [-2, -1, 0, 1, 2, start - 2, start - 1, start, start + 1, start + 2, rng.randint(1, start), 5000, (1 << 30) - 1]
        for pkt in hat_second_packets(rng, version, ptype, start, ks):
            add("pullat", rng.choice([0, 8, 20]), start, H(prefix + pkt))
            if rng.random() < 0.15:
                add("walk", 8, H(prefix + pkt))
    # 3. every kind of packet the decoder knows (valid, mutated, truncated, random) behind a prefix; start offsets at / beyond the end
    for _ in range(n // 3):
        hcl = rng.choice([0, 8, 8, 20, rng.randint(0, 25), -1])
        data = hd_valid_packet(rng)
        r = rng.random()
        if r < 0.5:
            for _ in range(rng.randint(1, 3)):
                data = mutate(rng, data)
        elif r < 0.6:
            data = data[:rng.randint(0, len(data))]
        prefix = first_packet() if rng.random() < 0.3 else rbytes(rng, rng.randint(0, 40))
        start = len(prefix)
        if rng.random() < 0.05:
            start = rng.choice([len(prefix) + len(data), len(prefix) + len(data) + 1, -1, len(prefix) + len(data) - 1])
        add("pullat", hcl, start, H(prefix + data))
    # 4. walks: 1..4 well-formed packets back to back, then possibly one lying / mutated / short packet
    for _ in range(n // 4):
        hcl = 8
        parts = []
        for _ in range(rng.randint(1, 4)):
            pl = rng.choice([2, 3, 20, 100, 400])
            parts.append(rfc_long_header(rng.choice([V1, V2]), rng.choice([0, 1, 2]), rbytes(rng, 8), rbytes(rng, rng.choice([0, 8])),
                                         b"", pl, rng.getrandbits(16)) + rbytes(rng, pl - 2))
        data = b"".join(parts)
        r = rng.random()
        if r < 0.3:
            start = len(data)
            k = rng.choice([1, 2, start - 1, start, start + 1, rng.randint(1, start)])
            data += hat_second_packets(rng, rng.choice([V1, V2]), rng.choice([0, 1, 2]), start, [k])[0]
        elif r < 0.5:
            data += bytes([0x40 | rng.getrandbits(6)]) + rbytes(rng, rng.randint(0, 30))
        elif r < 0.6:
            data += bytes(rng.randint(1, 30))
        elif r < 0.8:
            data = mutate(rng, data)
        add("walk", hcl, H(data))
    # 5. the real builder writes 2..4 packets into one datagram; the receive walk recovers them
    cid = lambda k: H(bytes((i * 13 + k) & 0xFF for i in range(k)))
    for version in (V1, V2):
        for is_client in (0, 1):
            for L in (0, 1, 8, 20):
                for pkts in ([[0, 10], [2, 20]], [[0, 5], [2, 7], [5, 30]], [[0, 1], [1, 40], [2, 3], [5, 9]], [[2, 100], [5, 0]],
                             [[1, 30], [5, 60]], [[2, 12], [2, 200]], [[0, 300], [1, 300], [2, 300]]):
                    add("coalesce", version, pkts, cid(L), cid((L * 3) % 21), H(bytes(range(L % 6))), is_client)
    for _ in range(n // 40):
        k = rng.randint(2, 4)
        pkts = [[rng.choice([0, 1, 2]), rng.choice([0, 1, 2, 30, 150, 250])] for _ in range(k - 1)]
        pkts.append([rng.choice([0, 1, 2, 5, 5]), rng.choice([0, 1, 30, 150])])
        add("coalesce", rng.choice([V1, V2]), pkts, H(rbytes(rng, rng.randint(0, 20))), H(rbytes(rng, rng.randint(0, 20))),
            H(rbytes(rng, rng.choice([0, 0, 16, 70]))), rng.getrandbits(1))
    return cases


# ------------------------------------------------------------------ suite: transport parameters (stretch)
KIND = {"int": 0, "bytes": 1, "bool": 2, "QuicPreferredAddress": 3, "QuicVersionInformation": 4}


def _params_table():
    from aioquic.quic import packet
    return [(pid, name, KIND[typ.__name__]) for pid, (name, typ) in packet.PARAMS.items()]


def _addr_tokens(a, n):
    import ipaddress
    if a is None:
        return [0]
    packed = (ipaddress.IPv4Address if n == 4 else ipaddress.IPv6Address)(a[0]).packed
    return [1] + list(packed) + [a[1]]


def _pval_tokens(kind, v):
    if kind == 0:
        return [0, v]
    if kind == 1:
        return [1] + lp(v)
    if kind == 2:
        return [2]
    if kind == 3:
        return [3] + _addr_tokens(v.ipv4_address, 4) + _addr_tokens(v.ipv6_address, 16) + lp(v.connection_id) + lp(v.stateless_reset_token)
    return [4, v.chosen_version] + lp(v.available_versions)


def _params_dump(params):
    out = []
    for pid, name, kind in _params_table():
        v = getattr(params, name)
        if v is None or v is False:
            continue
        out += [pid] + _pval_tokens(kind, v)
    return out


def _mk_params(spec):
    """spec: {name: json value}; bytes as hex, preferred address / version information as dicts"""
    from aioquic.quic import packet
    kw = {}
    for pid, name, kind in _params_table():
        if name not in spec:
            continue
        v = spec[name]
        if kind == 1:
            v = B(v)
        elif kind == 2:
            v = None if v is None else bool(v)
        elif kind == 3:
            v = packet.QuicPreferredAddress(
                ipv4_address=tuple(v["v4"]) if v["v4"] else None, ipv6_address=tuple(v["v6"]) if v["v6"] else None,
                connection_id=B(v["cid"]), stateless_reset_token=B(v["tok"]))
        elif kind == 4:
            v = packet.QuicVersionInformation(chosen_version=v["chosen"], available_versions=list(v["avail"]))
        kw[name] = v
    return packet.QuicTransportParameters(**kw)


def _rec_tokens(params):
    """the dataclass attribute by attribute (dataclass order), 0 | 1 payload -- model/TParams.v out_qtp / tk_qtp"""
    import dataclasses
    kinds = {name: kind for pid, name, kind in _params_table()}
    out = []
    for f in dataclasses.fields(params):
        v = getattr(params, f.name)
        kind = kinds[f.name]
        if v is None:
            out += [0]
        elif kind == 2:
            out += [1, 1 if v else 0]
        else:
            out += [1] + _pval_tokens(kind, v)[1:]
    return out


def tp_encode(case):
    op = case["op"]
    if op[0] in ("pull", "pullat"):
        return [0] + lp(B(op[1]))
    if op[0] == "pullrec":
        return [2] + lp(B(op[1]))
    if op[0] == "pushrec":
        return [3, op[1]] + _rec_tokens(_mk_params(op[2]))
    params = _mk_params(op[2])
    ents = []
    n = 0
    for pid, name, kind in _params_table():
        v = getattr(params, name)
        if v is None or v is False:
            continue
        ents += [pid] + _pval_tokens(kind, v)
        n += 1
    return [1, op[1], n] + ents


def tp_impl(case):
    from aioquic.buffer import Buffer
    from aioquic.quic import packet
    op = case["op"]
    try:
        if op[0] == "pull":
            b = Buffer(data=B(op[1]))
            return [0] + _params_dump(packet.pull_quic_transport_parameters(b))
        if op[0] == "pullat":       # the parameters at the end of a larger buffer (the function reads until buf.eof())
            b = Buffer(data=B(op[2]) + B(op[1]))
            b.seek(len(B(op[2])))
            return [0] + _params_dump(packet.pull_quic_transport_parameters(b))
        if op[0] == "pullrec":
            b = Buffer(data=B(op[1]))
            return [0] + _rec_tokens(packet.pull_quic_transport_parameters(b))
        b = Buffer(capacity=op[1])
        packet.push_quic_transport_parameters(b, _mk_params(op[2]))
        return [0] + lp(b.data)
    except Exception as e:
        return [errk(e)]


def rfc_tparams(params):
    """RFC 9000 section 18: sequence of (id varint, length varint, value), independent of packet.py's push."""
    import ipaddress
    out = b""
    for pid, name, kind in _params_table():
        v = getattr(params, name)
        if v is None or v is False:
            continue
        if kind == 0:
            body = rfc_varint(v)
        elif kind == 1:
            body = v
        elif kind == 2:
            body = b""
        elif kind == 3:
            body = (ipaddress.IPv4Address(v.ipv4_address[0]).packed + v.ipv4_address[1].to_bytes(2, "big")) if v.ipv4_address else bytes(6)
            body += (ipaddress.IPv6Address(v.ipv6_address[0]).packed + v.ipv6_address[1].to_bytes(2, "big")) if v.ipv6_address else bytes(18)
            body += bytes([len(v.connection_id)]) + v.connection_id + v.stateless_reset_token
        else:
            body = b"".join(x.to_bytes(4, "big") for x in [v.chosen_version] + v.available_versions)
        out += rfc_varint(pid) + rfc_varint(len(body)) + body
    return out


def tp_in_domain(params):
    """the domain of tparams_roundtrip (TParamsRoundtrip.qtp_wf), written independently"""
    if params.disable_active_migration is None:
        return False             # Optional[bool]: None is sent like False and read back as False
    for pid, name, kind in _params_table():
        v = getattr(params, name)
        if v is None or v is False:
            continue
        if kind == 0 and not 0 <= v < U62:
            return False
        if kind == 1 and len(v) > 65536:
            return False
        if kind == 4 and len(v.available_versions) > 16383:
            return False
        if kind == 3:
            if len(v.connection_id) > 255 or len(v.stateless_reset_token) != 16:
                return False
            for a in (v.ipv4_address, v.ipv6_address):
                if a is not None and (not 0 <= a[1] < 65536 or a[0] in ("0.0.0.0", "::")):
                    return False
        if kind == 4 and any(not 0 < x < 1 << 32 for x in [v.chosen_version] + v.available_versions):
            return False
    return True


def rfc_tparams_strict(data):
    """RFC 9000 section 18 walked strictly: every (id, length, value) must lie inside the input and a known
    parameter's value must fill its declared length exactly.  True = well-formed; "dup" = well-formed except that a
    parameter id occurs twice (RFC 9000 section 7.4: the sender MUST NOT, the receiver SHOULD reject -- so a decoder may
    either accept such input or raise its documented parse error, and the property allows both); False = malformed."""
    kinds = {pid: kind for pid, name, kind in _params_table()}
    pos = 0
    seen = set()
    dup = False
    while pos < len(data):
        r = rfc_varint_decode(data, pos)
        if r is None:
            return False
        pid, pos = r
        dup = dup or pid in seen
        seen.add(pid)
        r = rfc_varint_decode(data, pos)
        if r is None:
            return False
        ln, pos = r
        if pos + ln > len(data):
            return False
        body = data[pos:pos + ln]
        pos += ln
        kind = kinds.get(pid)
        if kind == 0:
            r = rfc_varint_decode(body)
            if r is None or r[1] != len(body):
                return False
        elif kind == 2 and body:
            return False
        elif kind == 3:
            if len(body) < 41 or len(body) != 41 + body[24]:
                return False
        elif kind == 4:
            if len(body) < 4 or len(body) % 4 or any(body[i:i + 4] == bytes(4) for i in range(0, len(body), 4)):
                return False
    return "dup" if dup else True


import collections
TP_BOUNDARY = collections.Counter()


def tp_oracle(case):
    from aioquic.buffer import Buffer
    from aioquic.quic import packet
    op = case["op"]
    if op[0] in ("push", "pushrec"):
        params = _mk_params(op[2])
        if not tp_in_domain(params):
            # outside qtp_wf: record what the implementation does (encodes, then decodes differently / raises)
            try:
                b = Buffer(capacity=op[1])
                packet.push_quic_transport_parameters(b, params)
                try:
                    back = packet.pull_quic_transport_parameters(Buffer(data=b.data))
                    if back != params:
                        TP_BOUNDARY["encodes_decodes_differently"] += 1
                except ValueError:
                    TP_BOUNDARY["encodes_decode_raises_ValueError"] += 1
            except Exception:
                TP_BOUNDARY["encode_raises"] += 1
            return None
        ref = rfc_tparams(params)
        b = Buffer(capacity=op[1])
        try:
            packet.push_quic_transport_parameters(b, params)
        except Exception as e:
            if errk(e) == E_WRITE and len(ref) > op[1]:
                return None
            return ("push_quic_transport_parameters raised %s" % type(e).__name__, {"codec": "tparams", "rule": "raise"})
        if b.data != ref:
            return ("push_quic_transport_parameters differs from the RFC 9000 section 18 encoder", {"codec": "tparams", "rule": "bytes"})
        r = Buffer(data=b.data)
        if packet.pull_quic_transport_parameters(r) != params or not r.eof():
            return ("pull(push(params)) != params", {"codec": "tparams", "rule": "roundtrip"})
        return None
    if op[0] == "pullat":
        return at_offset_oracle("tparams", packet.pull_quic_transport_parameters, B(op[1]), B(op[2])) or \
            tp_oracle({"s": "tparams", "op": ["pull", op[1]]})
    data = B(op[1])
    b = Buffer(data=data)
    strict = rfc_tparams_strict(data)
    try:
        params = packet.pull_quic_transport_parameters(b)
    except ValueError:
        if strict is True:
            return ("pull_quic_transport_parameters rejects well-formed parameters", {"codec": "tparams", "rule": "spurious_error"})
        return None
    except Exception as e:
        return ("pull_quic_transport_parameters raised %s" % type(e).__name__, {"codec": "tparams", "rule": "exception", "exception": type(e).__name__})
    if not strict:
        return ("pull_quic_transport_parameters accepted a parameter whose value does not end at its declared length",
                {"codec": "tparams", "rule": "nesting"})
    b2 = Buffer(capacity=len(data) + 4096)
    try:
        packet.push_quic_transport_parameters(b2, params)
    except Exception as e:
        if errk(e) == E_WRITE and len(data) > 65536:
            TP_BOUNDARY["decodes_but_reencode_overflows_inner_buffer"] += 1     # tparams_reencode needs |input| <= 65536
            return None
        return ("decoded transport parameters do not re-encode: %s" % type(e).__name__, {"codec": "tparams", "rule": "reencode"})
    again = packet.pull_quic_transport_parameters(Buffer(data=b2.data))
    if again != params:
        return ("decoded transport parameters do not re-encode to the same value", {"codec": "tparams", "rule": "reencode"})
    return None


def rand_tp_value(rng, kind):
    if kind == 0:
        return rng.choice([0, 1, 63, 64, 16383, 16384, (1 << 30) - 1, 1 << 30, U62 - 1, rng.getrandbits(rng.choice([6, 14, 30, 62]))])
    if kind == 1:
        return H(rbytes(rng, rng.choice([0, 1, 8, 16, 20, 63, 64, 300])))
    if kind == 2:
        return True
    if kind == 3:
        import ipaddress
        v4 = [str(ipaddress.IPv4Address(rng.getrandbits(32) or 1)), rng.getrandbits(16)] if rng.random() < 0.7 else None
        v6 = [str(ipaddress.IPv6Address(rng.getrandbits(128) or 1)), rng.getrandbits(16)] if rng.random() < 0.7 else None
        return {"v4": v4, "v6": v6, "cid": H(rbytes(rng, rng.choice([0, 1, 8, 20, 21, 255]))), "tok": H(rbytes(rng, 16))}
    return {"chosen": rng.choice([V1, V2, rng.getrandbits(32) or 1]), "avail": [rng.choice([V1, V2, rng.getrandbits(32) or 3]) for _ in range(rng.randint(0, 4))]}


def tp_gen(rng, n, thorough):
    table = _params_table()
    cases = []
    # every single parameter with boundary values; all subsets of a 6-parameter core (thorough: 10)
    for pid, name, kind in table:
        for _ in range(6):
            cases.append({"s": "tparams", "op": ["push", 4096, {name: rand_tp_value(rng, kind)}]})
    core = table[: (10 if thorough else 6)] + table[12:14]
    for bits in range(1 << len(core)):
        spec = {name: rand_tp_value(rng, kind) for i, (pid, name, kind) in enumerate(core) if bits >> i & 1}
        cases.append({"s": "tparams", "op": ["push", 4096, spec]})
    cases.append({"s": "tparams", "op": ["push", 100000, {"original_destination_connection_id": "00" * 65537}]})   # inner buffer overflow
    cases.append({"s": "tparams", "op": ["push", 64, {"max_idle_timeout": U62}]})
    cases.append({"s": "tparams", "op": ["push", 64, {"version_information": {"chosen": 0, "avail": [1 << 32]}}]})
    for _ in range(n):
        spec = {name: rand_tp_value(rng, kind) for pid, name, kind in table if rng.random() < 0.3}
        r = rng.random()
        if r < 0.3:
            cases.append({"s": "tparams", "op": ["push", rng.choice([4096, 4096, rng.randint(0, 60)]), spec]})
            continue
        try:
            data = rfc_tparams(_mk_params(spec))
        except Exception:
            data = b""
        if r < 0.45:
            # unknown ids, duplicate ids, lying lengths
            extra = rfc_varint(rng.choice([0x21, 0x3F, 0x40, 0x2AB2, 1 << 31])) + rfc_varint(3) + rbytes(rng, rng.choice([3, 3, 2, 4]))
            data = rng.choice([extra + data, data + extra, data + data])
        elif r < 0.9:
            for _ in range(rng.randint(1, 3)):
                data = mutate(rng, data)
        else:
            data = rbytes(rng, rng.randint(0, 30))
        cases.append({"s": "tparams", "op": ["pull", H(data)]})
    # the dataclass view (model/TParams.v qtp): the same pushes / pulls attribute by attribute
    for c in list(cases):
        if rng.random() < 0.4:
            op = c["op"]
            cases.append({"s": "tparams", "op": ["pushrec"] + op[1:]} if op[0] == "push" else {"s": "tparams", "op": ["pullrec", op[1]]})
    # tparams_reencode / tparams_reencode_limit: a 65536-byte value re-encodes, a 65537-byte value decodes but does not
    for n in (65536 - 5, 65536, 65537):
        cases.append({"s": "tparams", "op": ["pull", H(rfc_varint(0) + rfc_varint(n) + bytes([7]) * n)]})
        cases.append({"s": "tparams", "op": ["pullrec", H(rfc_varint(0x0C37) + rfc_varint(n) + bytes([9]) * n)]})
    # boundary of the round-trip domain (tparams_roundtrip_*_refuted, tparams_encode_ok_decode_error)
    pa = {"v4": ["0.0.0.0", 443], "v6": None, "cid": "01020304", "tok": "05" * 16}
    for spec in ({"preferred_address": pa}, {"max_idle_timeout": 30000, "disable_active_migration": None},
                 {"preferred_address": {"v4": None, "v6": ["::", 1], "cid": "", "tok": "00" * 16}},
                 {"preferred_address": {"v4": None, "v6": None, "cid": "01" * 256, "tok": "02" * 16}},
                 {"original_destination_connection_id": "00" * 65536}, {"quantum_readiness": "ab" * 65536},
                 {"version_information": {"chosen": 1, "avail": [2] * 16383}}, {"version_information": {"chosen": 1, "avail": [2] * 16384}}):
        cases.append({"s": "tparams", "op": ["pushrec", 200000, spec]})
        cases.append({"s": "tparams", "op": ["push", 200000, spec]})
    return cases


# ------------------------------------------------------------------ suite: TLS handshake messages (stretch)
TLS_ALLOWED = {E_READ, E_ALERT_DECODE, E_ALERT_ILLEGAL}
CANDIDATES = {}          # signature -> example case (behaviours reported as candidate findings, see docs/C17.md)


def _tls_funcs():
    from aioquic import tls
    return {1: (tls.pull_client_hello, tls.push_client_hello), 2: (tls.pull_server_hello, tls.push_server_hello),
            4: (tls.pull_new_session_ticket, tls.push_new_session_ticket), 8: (tls.pull_encrypted_extensions, tls.push_encrypted_extensions),
            11: (tls.pull_certificate, tls.push_certificate), 13: (tls.pull_certificate_request, tls.push_certificate_request),
            15: (tls.pull_certificate_verify, tls.push_certificate_verify), 20: (tls.pull_finished, tls.push_finished)}


def _ints(l):
    return [len(l)] + [int(x) for x in l]


def _opt(present, toks):
    return [1] + toks if present else [0]


def _others(l):
    out = [len(l)]
    for t, d in l:
        out += [int(t)] + lp(d)
    return out


def tls_dump(kind, m):
    if kind == 1:
        out = lp(m.random) + lp(m.legacy_session_id) + _ints(m.cipher_suites) + _ints(m.legacy_compression_methods)
        ks = None
        if m.key_share is not None:
            ks = [len(m.key_share)]
            for g, d in m.key_share:
                ks += [int(g)] + lp(d)
        out += _opt(ks is not None, ks or [])
        for f in (m.supported_versions, m.signature_algorithms, m.supported_groups, m.psk_key_exchange_modes):
            out += _opt(f is not None, _ints(f or []))
        out += _opt(m.server_name is not None, lp((m.server_name or "").encode("ascii")))
        al = None
        if m.alpn_protocols is not None:
            al = [len(m.alpn_protocols)]
            for a in m.alpn_protocols:
                al += lp(a.encode("ascii"))
        out += _opt(al is not None, al or [])
        out += _opt(m.early_data, [])
        psk = None
        if m.pre_shared_key is not None:
            psk = [len(m.pre_shared_key.identities)]
            for i, age in m.pre_shared_key.identities:
                psk += lp(i) + [age]
            psk += [len(m.pre_shared_key.binders)]
            for bd in m.pre_shared_key.binders:
                psk += lp(bd)
        out += _opt(psk is not None, psk or [])
        return out + _others(m.other_extensions)
    if kind == 2:
        out = lp(m.random) + lp(m.legacy_session_id) + [int(m.cipher_suite), int(m.compression_method)]
        out += _opt(m.supported_version is not None, [m.supported_version or 0])
        out += _opt(m.key_share is not None, ([int(m.key_share[0])] + lp(m.key_share[1])) if m.key_share is not None else [])
        out += _opt(m.pre_shared_key is not None, [m.pre_shared_key or 0])
        return out + _others(m.other_extensions)
    if kind == 4:
        out = [m.ticket_lifetime, m.ticket_age_add] + lp(m.ticket_nonce) + lp(m.ticket)
        out += _opt(m.max_early_data_size is not None, [m.max_early_data_size or 0])
        return out + _others(m.other_extensions)
    if kind == 8:
        out = _opt(m.alpn_protocol is not None, lp((m.alpn_protocol or "").encode("ascii"))) + _opt(m.early_data, [])
        return out + _others(m.other_extensions)
    if kind == 11:
        out = lp(m.request_context) + [len(m.certificates)]
        for d, e in m.certificates:
            out += lp(d) + lp(e)
        return out
    if kind == 13:
        out = lp(m.request_context) + _opt(m.signature_algorithms is not None, _ints(m.signature_algorithms or []))
        return out + _others(m.other_extensions)
    if kind == 15:
        return [int(m.algorithm)] + lp(m.signature)
    return lp(m.verify_data)


class _Tok:
    def __init__(self, toks):
        self.t, self.i = list(toks), 0

    def z(self):
        v = self.t[self.i] if self.i < len(self.t) else 0
        self.i += 1
        return v

    def lst(self):
        n = max(self.z(), 0)
        v = self.t[self.i:self.i + n]
        self.i += n
        return v

    def by(self):
        return bytes(x & 0xFF for x in self.lst())

    def opt(self, f):
        return f() if self.z() else None

    def cnt(self, f):
        return [f() for _ in range(max(self.z(), 0))]


def tls_undump(kind, toks):
    """inverse of tls_dump: the dataclass from its token dump (model/TlsCodec.v tk_<message>)"""
    from aioquic import tls
    t = _Tok(toks)
    ext = lambda: (t.z(), t.by())
    if kind == 1:
        m = tls.ClientHello(random=t.by(), legacy_session_id=t.by(), cipher_suites=t.lst(), legacy_compression_methods=t.lst())
        m.key_share = t.opt(lambda: t.cnt(ext)) or []
        m.supported_versions = t.opt(t.lst) or []
        m.signature_algorithms = t.opt(t.lst) or []
        m.supported_groups = t.opt(t.lst) or []
        m.psk_key_exchange_modes = t.opt(t.lst)
        sn = t.opt(t.by)
        m.server_name = None if sn is None else sn.decode("latin-1")
        al = t.opt(lambda: t.cnt(t.by))
        m.alpn_protocols = None if al is None else [a.decode("latin-1") for a in al]
        m.early_data = bool(t.z())
        m.pre_shared_key = t.opt(lambda: tls.OfferedPsks(identities=t.cnt(lambda: (t.by(), t.z())), binders=t.cnt(t.by)))
        m.other_extensions = t.cnt(ext)
        return m
    if kind == 2:
        m = tls.ServerHello(random=t.by(), legacy_session_id=t.by(), cipher_suite=t.z(), compression_method=t.z())
        m.supported_version = t.opt(t.z)
        m.key_share = t.opt(ext)
        m.pre_shared_key = t.opt(t.z)
        m.other_extensions = t.cnt(ext)
        return m
    if kind == 4:
        m = tls.NewSessionTicket(ticket_lifetime=t.z(), ticket_age_add=t.z(), ticket_nonce=t.by(), ticket=t.by())
        m.max_early_data_size = t.opt(t.z)
        m.other_extensions = t.cnt(ext)
        return m
    if kind == 8:
        a = t.opt(t.by)
        m = tls.EncryptedExtensions(alpn_protocol=None if a is None else a.decode("latin-1"), early_data=bool(t.z()))
        m.other_extensions = t.cnt(ext)
        return m
    if kind == 11:
        return tls.Certificate(request_context=t.by(), certificates=t.cnt(lambda: (t.by(), t.by())))
    if kind == 13:
        return tls.CertificateRequest(request_context=t.by(), signature_algorithms=t.opt(t.lst) or [], other_extensions=t.cnt(ext))
    if kind == 15:
        return tls.CertificateVerify(algorithm=t.z(), signature=t.by())
    return tls.Finished(verify_data=t.by())


# independent description of each message as a length-prefixed tree (RFC 8446 section 4)
def I(w, v):
    return ["i", w, int(v)]


def Y(b):
    return ["b", H(b)]


def K(cap, items):
    return ["B", cap, items]


def EXT(t, items):
    return [I(2, t), K(2, items)]


def tls_tree(kind, m):
    if kind == 1:
        ex = []
        ex += EXT(51, [K(2, sum(([I(2, g), K(2, [Y(d)])] for g, d in m.key_share), []))])
        ex += EXT(43, [K(1, [I(2, v) for v in m.supported_versions])])
        ex += EXT(13, [K(2, [I(2, v) for v in m.signature_algorithms])])
        ex += EXT(10, [K(2, [I(2, v) for v in m.supported_groups])])
        if m.psk_key_exchange_modes is not None:
            ex += EXT(45, [K(1, [I(1, v) for v in m.psk_key_exchange_modes])])
        if m.server_name is not None:
            ex += EXT(0, [K(2, [I(1, 0), K(2, [Y(m.server_name.encode("ascii"))])])])
        if m.alpn_protocols is not None:
            ex += EXT(16, [K(2, [K(1, [Y(a.encode("ascii"))]) for a in m.alpn_protocols])])
        for t, d in m.other_extensions:
            ex += EXT(t, [Y(d)])
        if m.early_data:
            ex += EXT(42, [])
        if m.pre_shared_key is not None:
            ex += EXT(41, [K(2, sum(([K(2, [Y(i)]), I(4, age)] for i, age in m.pre_shared_key.identities), [])),
                           K(2, [K(1, [Y(bd)]) for bd in m.pre_shared_key.binders])])
        return [I(1, 1), K(3, [I(2, 0x0303), Y(m.random), K(1, [Y(m.legacy_session_id)]),
                               K(2, [I(2, c) for c in m.cipher_suites]), K(1, [I(1, c) for c in m.legacy_compression_methods]), K(2, ex)])]
    if kind == 2:
        ex = []
        if m.supported_version is not None:
            ex += EXT(43, [I(2, m.supported_version)])
        if m.key_share is not None:
            ex += EXT(51, [I(2, m.key_share[0]), K(2, [Y(m.key_share[1])])])
        if m.pre_shared_key is not None:
            ex += EXT(41, [I(2, m.pre_shared_key)])
        for t, d in m.other_extensions:
            ex += EXT(t, [Y(d)])
        return [I(1, 2), K(3, [I(2, 0x0303), Y(m.random), K(1, [Y(m.legacy_session_id)]), I(2, m.cipher_suite), I(1, m.compression_method), K(2, ex)])]
    if kind == 4:
        ex = []
        if m.max_early_data_size is not None:
            ex += EXT(42, [I(4, m.max_early_data_size)])
        for t, d in m.other_extensions:
            ex += EXT(t, [Y(d)])
        return [I(1, 4), K(3, [I(4, m.ticket_lifetime), I(4, m.ticket_age_add), K(1, [Y(m.ticket_nonce)]), K(2, [Y(m.ticket)]), K(2, ex)])]
    if kind == 8:
        ex = []
        if m.alpn_protocol is not None:
            ex += EXT(16, [K(2, [K(1, [Y(m.alpn_protocol.encode("ascii"))])])])
        if m.early_data:
            ex += EXT(42, [])
        for t, d in m.other_extensions:
            ex += EXT(t, [Y(d)])
        return [I(1, 8), K(3, [K(2, ex)])]
    if kind == 11:
        return [I(1, 11), K(3, [K(1, [Y(m.request_context)]), K(3, sum(([K(3, [Y(d)]), K(2, [Y(e)])] for d, e in m.certificates), []))])]
    if kind == 13:
        ex = EXT(13, [K(2, [I(2, v) for v in m.signature_algorithms])])
        for t, d in m.other_extensions:
            ex += EXT(t, [Y(d)])
        return [I(1, 13), K(3, [K(1, [Y(m.request_context)]), K(2, ex)])]
    if kind == 15:
        return [I(1, 15), K(3, [I(2, m.algorithm), K(2, [Y(m.signature)])])]
    return [I(1, 20), K(3, [Y(m.verify_data)])]


def tree_tokens(t):
    if t[0] == "i":
        return [0, t[1], t[2]]
    if t[0] == "b":
        return [1] + lp(B(t[1]))
    out = [2, t[1], len(t[2])]
    for c in t[2]:
        out += tree_tokens(c)
    return out


def tree_bytes(t):
    """the same tree encoded in Python (used only to produce valid inputs for the pull cases)"""
    if t[0] == "i":
        return (t[2] % (1 << (8 * t[1]))).to_bytes(t[1], "big")
    if t[0] == "b":
        return B(t[1])
    body = b"".join(tree_bytes(c) for c in t[2])
    return len(body).to_bytes(t[1], "big") + body


def rand_msg(rng, kind):
    from aioquic import tls
    rb = lambda *choices: rbytes(rng, rng.choice(choices))
    u16 = lambda: rng.choice([0x0304, 0x1301, 0x001D, 0x0403, rng.getrandbits(16)])
    name = lambda: "".join(rng.choice("abcxyz.-019") for _ in range(rng.choice([0, 1, 5, 30])))
    known = {1: {51, 43, 13, 10, 45, 0, 16, 42, 41}, 2: {43, 51, 41}, 4: {42}, 8: {16, 42}, 13: {13}}
    others = lambda: [(t, rb(0, 1, 9, 300)) for t in (rng.choice([5, 27, 44, 57, 0xFFA5, 65486, rng.getrandbits(16)])
                                                      for _ in range(rng.choice([0, 0, 1, 2, 3]))) if t not in known.get(kind, ())]
    if kind == 1:
        m = tls.ClientHello(random=rbytes(rng, 32), legacy_session_id=rb(0, 32), cipher_suites=[u16() for _ in range(rng.randint(0, 4))],
                            legacy_compression_methods=[rng.getrandbits(8) for _ in range(rng.randint(0, 2))])
        m.key_share = [(u16(), rb(0, 32, 65)) for _ in range(rng.randint(0, 3))]
        m.supported_versions = [u16() for _ in range(rng.randint(0, 3))]
        m.signature_algorithms = [u16() for _ in range(rng.randint(0, 5))]
        m.supported_groups = [u16() for _ in range(rng.randint(0, 4))]
        if rng.random() < 0.5:
            m.psk_key_exchange_modes = [rng.getrandbits(8) for _ in range(rng.randint(0, 2))]
        if rng.random() < 0.5:
            m.server_name = name()
        if rng.random() < 0.5:
            m.alpn_protocols = [name() for _ in range(rng.randint(0, 3))]
        m.early_data = rng.random() < 0.3
        if rng.random() < 0.4:
            m.pre_shared_key = tls.OfferedPsks(identities=[(rb(0, 5, 40), rng.getrandbits(32)) for _ in range(rng.randint(0, 2))],
                                               binders=[rb(0, 32, 48) for _ in range(rng.randint(0, 2))])
        m.other_extensions = others()
        return m
    if kind == 2:
        m = tls.ServerHello(random=rbytes(rng, 32), legacy_session_id=rb(0, 32), cipher_suite=u16(), compression_method=rng.getrandbits(8))
        if rng.random() < 0.6:
            m.supported_version = u16()
        if rng.random() < 0.6:
            m.key_share = (u16(), rb(0, 32, 65))
        if rng.random() < 0.3:
            m.pre_shared_key = rng.getrandbits(16)
        m.other_extensions = others()
        return m
    if kind == 4:
        m = tls.NewSessionTicket(ticket_lifetime=rng.getrandbits(32), ticket_age_add=rng.getrandbits(32), ticket_nonce=rb(0, 8, 255), ticket=rb(0, 1, 64, 700))
        if rng.random() < 0.5:
            m.max_early_data_size = rng.choice([0, 0xFFFFFFFF, rng.getrandbits(32)])
        m.other_extensions = others()
        return m
    if kind == 8:
        m = tls.EncryptedExtensions(alpn_protocol=name() if rng.random() < 0.6 else None, early_data=rng.random() < 0.3)
        m.other_extensions = others()
        return m
    if kind == 11:
        return tls.Certificate(request_context=rb(0, 0, 4, 255), certificates=[(rb(0, 1, 300, 70000 if rng.random() < 0.05 else 20), rb(0, 0, 9)) for _ in range(rng.randint(0, 3))])
    if kind == 13:
        return tls.CertificateRequest(request_context=rb(0, 4), signature_algorithms=[u16() for _ in range(rng.randint(0, 5))], other_extensions=others())
    if kind == 15:
        return tls.CertificateVerify(algorithm=u16(), signature=rb(0, 64, 256, 512))
    return tls.Finished(verify_data=rb(0, 32, 48))


def tls_encode(case):
    op = case["op"]
    if op[0] in ("pull", "pullat"):
        return [0, op[1]] + lp(B(op[2]))
    if op[0] == "pushrec":
        return [2, op[1]] + list(op[2])
    return [1] + tree_tokens(["B", 0, op[1]])      # the message = a 0-byte-prefixed block of its top-level items


def tls_impl(case):
    from aioquic.buffer import Buffer
    op = case["op"]
    try:
        if op[0] == "pull":
            b = Buffer(data=B(op[2]))
            m = _tls_funcs()[op[1]][0](b)
            return [0] + tls_dump(op[1], m) + [b.tell()]
        if op[0] == "pullat":       # the message inside a larger buffer: every nested pull_block then sits at a shifted position
            skip = len(B(op[3]))
            b = Buffer(data=B(op[3]) + B(op[2]))
            b.seek(skip)
            m = _tls_funcs()[op[1]][0](b)
            return [0] + tls_dump(op[1], m) + [b.tell() - skip]
        if op[0] == "pushrec":
            # op = ["pushrec", kind, dump]: rebuild the dataclass, run the real push_<message>, dump it again
            m = tls_undump(op[1], op[2])
            b = Buffer(capacity=400000)
            _tls_funcs()[op[1]][1](b, m)
            return [0] + lp(b.data) + tls_dump(op[1], m)
        # "push": op = ["push", tree, hex of the implementation's bytes]; a 0-capacity block prefix is empty
        return [0] + lp(B(op[3]))
    except Exception as e:
        return [errk(e)]


TLS_KNOWN = {1: {51, 43, 13, 10, 45, 0, 16, 42, 41}, 2: {43, 51, 41}, 4: {42}, 8: {16, 42}, 13: {13}}
TLS_DOMAIN = collections.Counter()


def tls_in_domain(kind, m):
    """the X_wf predicates of proofs/TlsRoundtrip.v, written independently over the dataclass"""
    u8 = lambda v: 0 <= v < 1 << 8
    u16 = lambda v: 0 <= v < 1 << 16
    u32 = lambda v: 0 <= v < 1 << 32
    asc = lambda x: all(ord(c) < 128 for c in x)
    others = lambda: all(u16(t) and t not in TLS_KNOWN[kind] for t, _ in m.other_extensions)
    if kind == 1:
        return (len(m.random) == 32 and all(map(u16, m.cipher_suites)) and all(map(u8, m.legacy_compression_methods))
                and all(u16(g) for g, _ in m.key_share) and all(map(u16, m.supported_versions)) and all(map(u16, m.signature_algorithms))
                and all(map(u16, m.supported_groups)) and (m.psk_key_exchange_modes is None or all(map(u8, m.psk_key_exchange_modes)))
                and (m.server_name is None or asc(m.server_name)) and (m.alpn_protocols is None or all(map(asc, m.alpn_protocols)))
                and (m.pre_shared_key is None or all(u32(a) for _, a in m.pre_shared_key.identities)) and others())
    if kind == 2:
        return (len(m.random) == 32 and u16(m.cipher_suite) and u8(m.compression_method)
                and (m.supported_version is None or u16(m.supported_version)) and (m.key_share is None or u16(m.key_share[0]))
                and (m.pre_shared_key is None or u16(m.pre_shared_key)) and others())
    if kind == 4:
        return u32(m.ticket_lifetime) and u32(m.ticket_age_add) and (m.max_early_data_size is None or u32(m.max_early_data_size)) and others()
    if kind == 8:
        return (m.alpn_protocol is None or asc(m.alpn_protocol)) and others()
    if kind == 13:
        return all(map(u16, m.signature_algorithms)) and others()
    if kind == 15:
        return u16(m.algorithm)
    return True


def tls_pushrec_oracle(kind, dump):
    """<message>_roundtrip on the implementation: in the domain, push succeeds or raises OverflowError, and pull(push(m)) == m"""
    from aioquic.buffer import Buffer
    pull, push = _tls_funcs()[kind]
    m = tls_undump(kind, dump)
    if not tls_in_domain(kind, m):
        TLS_DOMAIN["outside"] += 1
        return None
    b = Buffer(capacity=400000)
    try:
        push(b, m)
    except OverflowError:
        TLS_DOMAIN["overflow"] += 1
        return None
    except Exception as e:
        return ("push of an in-domain TLS message (type %d) raised %s" % (kind, type(e).__name__), {"codec": "tls", "rule": "push_raise", "message": kind})
    TLS_DOMAIN["inside"] += 1
    r = Buffer(data=b.data + b"\xaa\xbb")
    try:
        back = pull(r)
    except Exception as e:
        return ("pull(push(message type %d)) raised %s" % (kind, type(e).__name__), {"codec": "tls", "rule": "roundtrip", "message": kind})
    if back != m or r.tell() != len(b.data):
        return ("pull(push(message type %d)) != message" % kind, {"codec": "tls", "rule": "roundtrip", "message": kind})
    return None


def tls_oracle(case):
    from aioquic.buffer import Buffer
    op = case["op"]
    if op[0] == "pushrec":
        return tls_pushrec_oracle(op[1], op[2])
    if op[0] == "pullat":
        return at_offset_oracle("tls", _tls_funcs()[op[1]][0], B(op[2]), B(op[3])) or tls_oracle({"s": "tls", "op": ["pull", op[1], op[2]]})
    if op[0] != "pull":
        return None
    kind, data = op[1], B(op[2])
    pull, push = _tls_funcs()[kind]
    b = Buffer(data=data)
    try:
        m = pull(b)
    except Exception as e:
        k = errk(e)
        if k in TLS_ALLOWED:
            return None
        if k == 101 and (not data or data[0] != kind):
            return None            # pull_handshake_type assert: callers dispatch on the type byte
        sig = {"codec": "tls", "rule": "undocumented_exception", "exception": type(e).__name__, "message": kind}
        CANDIDATES.setdefault(("tls-" + type(e).__name__, kind), {"signature": sig, "case": case})
        return None               # reported as candidate finding (docs/C17.md F5), not failed: see run()
    if not 0 <= b.tell() <= len(data):
        return ("TLS decoder consumed more than the input", {"codec": "tls", "rule": "bounds"})
    b2 = Buffer(capacity=len(data) + 4096)
    try:
        push(b2, m)
    except Exception as e:
        # <msg>_reencode (proofs/TlsReencodeExt*.v, TlsReencodeCH.v): whatever pull accepts re-encodes without error, except
        # when an Optional[list] attribute that push iterates unconditionally was left None by the decoder (second disjunct of
        # certificate_request_reencode / client_hello_reencode; the real push raises TypeError)
        none_list = ((kind == 1 and None in (m.key_share, m.supported_versions, m.signature_algorithms, m.supported_groups))
                     or (kind == 13 and m.signature_algorithms is None))
        if isinstance(e, TypeError) and none_list:
            TLS_DOMAIN["reencode_none_list_typeerror"] += 1
            # candidate finding F14 (docs/C17.md): listed in the evidence, not failed
            CANDIDATES.setdefault(("tls-reencode-TypeError", kind), {
                "signature": {"codec": "tls", "rule": "reencode_raise", "exception": "TypeError", "message": kind}, "case": case})
            return None
        return ("decoded TLS message (type %d) does not re-encode: %s" % (kind, type(e).__name__),
                {"codec": "tls", "rule": "reencode_raise", "message": kind, "exception": type(e).__name__})
    if len(b2.data) > b.tell():
        return ("re-encoded TLS message (type %d) is longer than the bytes consumed" % kind, {"codec": "tls", "rule": "reencode_longer", "message": kind})
    TLS_DOMAIN["reencode_same_bytes" if b2.data == data[:b.tell()] else "reencode_different_bytes"] += 1
    try:
        r2 = Buffer(data=b2.data + b"\xaa\xbb")
        m2 = pull(r2)
    except Exception as e:
        return ("re-encoded TLS message (type %d) does not decode: %s" % (kind, type(e).__name__), {"codec": "tls", "rule": "reencode", "message": kind})
    if m2 != m or r2.tell() != len(b2.data):
        return ("decoded TLS message (type %d) does not re-encode to the same value" % kind, {"codec": "tls", "rule": "reencode", "message": kind})
    return None


def tls_push_case(kind, m):
    """drive the implementation's push, check pull(push(m)) == m (oracle) and hand the tree to the model"""
    from aioquic.buffer import Buffer
    pull, push = _tls_funcs()[kind]
    b = Buffer(capacity=200000)
    push(b, m)
    r = Buffer(data=b.data)
    bad = None
    try:
        back = pull(r)
    except Exception as e:
        back = None
        bad = ("pull(push(message type %d)) raised %s" % (kind, type(e).__name__), {"codec": "tls", "rule": "roundtrip", "message": kind})
    if bad is None and (back != m or not r.eof()):
        bad = ("pull(push(message type %d)) != message" % kind, {"codec": "tls", "rule": "roundtrip", "message": kind})
    return {"s": "tls", "op": ["push", tls_tree(kind, m), kind, H(b.data)]}, bad


def tls_gen(ctx, rng, n):
    cases, bads = [], []
    kinds = [1, 2, 4, 8, 11, 13, 15, 20]
    for i in range(n):
        kind = kinds[i % len(kinds)]
        m = rand_msg(rng, kind)
        cases.append({"s": "tls", "op": ["pushrec", kind, tls_dump(kind, m)]})
        try:
            c, bad = tls_push_case(kind, m)
        except (OverflowError, ValueError):
            continue              # field longer than its length prefix allows / over the buffer: encoder refuses
        if bad:
            bads.append((c, bad))
        r = rng.random()
        if r < 0.35:
            cases.append(c)
        data = B(c["op"][3])
        if r < 0.5:
            cases.append({"s": "tls", "op": ["pull", kind, H(data)]})
        elif r < 0.9:
            for _ in range(rng.randint(1, 3)):
                data = mutate(rng, data)
            if data:
                data = bytes([kind]) + data[1:]
            cases.append({"s": "tls", "op": ["pull", kind, H(data)]})
        elif r < 0.95:
            cases.append({"s": "tls", "op": ["pull", kind, H(data[:rng.randint(0, len(data))])]})
        # accepted-but-not-canonical inputs (the <msg>_reencode theorems): permuted / duplicated extensions, a lying extension_length
        xpath = {1: 5, 2: 5, 4: 4, 8: 0, 13: 1}.get(kind)
        if xpath is not None and i % 6 == 0:
            t = tls_tree(kind, m)
            flat = t[1][2][xpath][2]
            pairs = [flat[j:j + 2] for j in range(0, len(flat), 2)]
            if pairs:
                how = rng.choice(["shuffle", "dup", "lie", "drop"])
                if how == "shuffle":
                    rng.shuffle(pairs)
                elif how == "dup":
                    pairs.insert(rng.randint(0, len(pairs)), rng.choice(pairs))
                elif how == "drop":
                    pairs.pop(rng.randrange(len(pairs)))
                t[1][2][xpath][2] = [x for pr in pairs for x in pr]
                raw = b"".join(tree_bytes(x) for x in t)
                if how == "lie":
                    # overwrite the declared length of the first extension with another value, keeping the body
                    off = len(raw) - len(b"".join(tree_bytes(x) for x in t[1][2][xpath][2]))
                    raw = raw[:off + 2] + rng.choice([0, 1, 0xFFFF]).to_bytes(2, "big") + raw[off + 4:]
                cases.append({"s": "tls", "op": ["pull", kind, H(raw)]})
        else:
            cases.append({"s": "tls", "op": ["pull", kind, H(bytes([kind]) + rbytes(rng, rng.randint(0, 40)))]})
    # boundaries of the round-trip domain: blocks that do not fit their length prefix (OverflowError on both sides),
    # other_extensions reusing a known type (encodes, decodes differently), out-of-range integers (wrap, F12)
    from aioquic import tls
    for kind, m in (
            (4, tls.NewSessionTicket(ticket_nonce=bytes(256))), (4, tls.NewSessionTicket(ticket_nonce=bytes(255), ticket=bytes(65535))),
            (4, tls.NewSessionTicket(ticket=bytes(65536))), (15, tls.CertificateVerify(algorithm=0x0804, signature=bytes(65536))),
            (2, tls.ServerHello(random=bytes(32), legacy_session_id=bytes(256), cipher_suite=0x1301, compression_method=0)),
            (2, tls.ServerHello(random=bytes(32), legacy_session_id=b"", cipher_suite=0x1301, compression_method=0, other_extensions=[(57, bytes(65536))])),
            (2, tls.ServerHello(random=bytes(32), legacy_session_id=b"", cipher_suite=0x1301, compression_method=0, other_extensions=[(57, bytes(65000)), (58, bytes(600))])),
            (2, tls.ServerHello(random=bytes(32), legacy_session_id=b"", cipher_suite=0x1301, compression_method=0, other_extensions=[(43, b"\x03\x04")])),
            (2, tls.ServerHello(random=bytes(31), legacy_session_id=b"", cipher_suite=0x1301, compression_method=0)),
            (2, tls.ServerHello(random=bytes(32), legacy_session_id=b"", cipher_suite=0x11301, compression_method=256)),
            (8, tls.EncryptedExtensions(alpn_protocol="h3", other_extensions=[(16, b"\x00\x03\x02h2")])),
            (11, tls.Certificate(request_context=bytes(256), certificates=[])),
            (11, tls.Certificate(request_context=b"", certificates=[(bytes(70000), bytes(65535))])),
            (13, tls.CertificateRequest(request_context=b"", signature_algorithms=[0x0804] * 32767)),
            (13, tls.CertificateRequest(request_context=b"", signature_algorithms=[0x0804] * 32768)),
            (20, tls.Finished(verify_data=bytes(48)))):
        cases.append({"s": "tls", "op": ["pushrec", kind, tls_dump(kind, m)]})
    # calibration witnesses (docs/C17.md): extension_length ignored; empty ALPN list; non-ASCII server name
    sh = bytes([2]) + (2 + 32 + 1 + 2 + 1 + 2 + 6).to_bytes(3, "big") + b"\x03\x03" + bytes(32) + b"\x00" + b"\x13\x01\x00" + b"\x00\x06" + b"\x00\x2b\x00\x00\x03\x04"
    cases.append({"s": "tls", "op": ["pull", 2, H(sh)]})
    cases.append({"s": "tls", "op": ["pull", 8, H(bytes([8]) + (2 + 6).to_bytes(3, "big") + b"\x00\x06" + b"\x00\x10\x00\x02\x00\x00")]})
    from aioquic import tls as _tls
    m = rand_msg(rng, 1)
    m.pre_shared_key = _tls.OfferedPsks(identities=[(b"id", 7)], binders=[bytes(32)])
    m.early_data = False
    t = tls_tree(1, m)
    exts = t[1][2][5][2]
    exts += EXT(57, [Y(b"late")])        # an extension after pre_shared_key
    cases.append({"s": "tls", "op": ["pull", 1, H(b"".join(tree_bytes(x) for x in t))]})
    m = rand_msg(rng, 1)
    m.server_name = "zzzz"
    ch = b"".join(tree_bytes(t) for t in tls_tree(1, m)).replace(b"zzzz", b"zz\xffz")
    cases.append({"s": "tls", "op": ["pull", 1, H(ch)]})
    return cases, bads

# ------------------------------------------------------------------ driver
def _ops(c):
    return [c["op"]]


def _rebuild(c, ops):
    d = dict(c)
    d["op"] = ops[0]
    return d


def _simplify(op):
    """smaller variants of one op: shorter byte strings, smaller numbers"""
    if op[0] == "pushrec" and isinstance(op[2], list):
        return []      # a TLS message given as its token dump: cutting the dump gives garbage counts, not a smaller message
    if op[0] == "coalesce":
        return [op[:2] + [op[2][:j] + op[2][j + 1:]] + op[3:] for j in range(len(op[2])) if len(op[2]) > 1]
    out = []
    for i, x in enumerate(op):
        if i == 0:
            continue
        if i == 1 and (op[0] == "pull" and len(op) == 3 or op[0] == "pullat" and len(op) == 4) and x in (1, 2, 4, 8, 11, 13, 15, 20):
            continue   # a TLS handshake type (or a host_cid_length with such a value): halving it changes which decoder runs
        if isinstance(x, str) and x:
            for y in (x[:-2], x[2:], "00" * (len(x) // 2)):
                if y != x:
                    out.append(op[:i] + [y] + op[i + 1:])
        elif isinstance(x, int) and not isinstance(x, bool) and abs(x) > 1:
            out.append(op[:i] + [x // 2] + op[i + 1:])
        elif isinstance(x, list) and len(x) > 1:
            out.append(op[:i] + [x[1:]] + op[i + 1:])
            out.append(op[:i] + [x[:-1]] + op[i + 1:])
    return out


def _outcome(out):
    return "ok" if out and out[0] == 0 else "err%s" % (out[0] if out else "?")


def make_suites(ctx):
    def mk(name, model, enc, impl, oracle):
        def counted(case):
            out = impl(case)
            suite.stats["outcome_histogram"]["%s:%s" % (case["op"][0], _outcome(out))] += 1
            return out
        suite = corr.Suite(ctx, name, model, enc, counted, oracle, _ops, _rebuild,
                           nontrivial=lambda c, out: len(out) > 2, opname=lambda o: o[0], simplify=_simplify)
        return suite
    suites = {
        "ints": mk("ints", "exec_varint", vi_encode, vi_impl, vi_oracle),
        "ack": mk("ack", "exec_ack", ack_encode, ack_impl, ack_oracle),
        "header": mk("header", "exec_quic_header", hd_encode, hd_impl, hd_oracle),
        "headerat": mk("headerat", "exec_quic_header_at", hat_encode, hat_impl, hat_oracle),
    }
    suites["tparams"] = mk("tparams", "exec_tparams", tp_encode, tp_impl, tp_oracle)
    suites["tls"] = mk("tls", "exec_tls", tls_encode, tls_impl, tls_oracle)
    return suites


def run(ctx):
    suites = make_suites(ctx)
    for s in suites.values():
        s.run(corr.load_corpus("C17", s.name), "corpus")
    rng = ctx.rng
    suites["ints"].run(vi_gen(rng, ctx.n(180000, 2000000)))
    ack_cases = ack_gen(rng, ctx.n(30000, 300000), ctx.thorough)
    suites["ack"].run(ack_cases)
    suites["header"].run(hd_gen(rng, ctx.n(30000, 300000), ctx.thorough))
    extra = {}
    tp_cases = tp_gen(rng, ctx.n(15000, 150000), ctx.thorough)
    suites["tparams"].run(tp_cases)
    tls_cases, tls_bads = tls_gen(ctx, rng, ctx.n(12000, 120000))
    suites["tls"].run(tls_cases)
    # s17: decoders on a Buffer that stands at a non-zero position of a larger buffer (drawn after everything else, so the
    # cases above are the same as before for a given seed)
    suites["headerat"].run(hat_gen(rng, ctx.n(12000, 120000), ctx.thorough))
    at = {"ack": at_offset_cases(rng, ack_cases, 0.12, "ack"), "tparams": at_offset_cases(rng, tp_cases, 0.25, "tparams"),
          "tls": at_offset_cases(rng, tls_cases, 0.4, "tls")}
    for k, v in at.items():
        suites[k].run(v)
    extra["decoders_at_nonzero_buffer_offset"] = dict({k: len(v) for k, v in at.items()},
                                                      headerat=dict(suites["headerat"].stats["outcome_histogram"]))
    for c, bad in tls_bads[:3]:
        ctx.violation("impl-violation", "tls: " + bad[0], corr._short(c, 4000), signature=bad[1])
    extra["tls_push_roundtrips_checked"] = len(tls_cases)
    extra["candidate_findings_observed"] = [
        {"id": k[0], "message_type": k[1], "signature": v["signature"], "example": corr._short(v["case"], 1500)} for k, v in sorted(CANDIDATES.items())]
    extra.update({
        "exhaustive_small_scope": "all non-empty range sets over a universe of %d packet numbers x 10 offsets; every varint first byte; "
                                  "all CID lengths 0..21,255 x long types x both versions" % (8 if ctx.thorough else 6),
        "f12_out_of_domain_pushes_observed": dict(F12_SEEN),
        "tparams_outside_roundtrip_domain_observed": dict(TP_BOUNDARY),
        "tls_push_from_record": dict(TLS_DOMAIN),
    })
    return corr.merge_coverage(
        list(suites.values()),
        "boundary tables (2^k +- 3 for every encoding boundary, negative and > 64-bit ints), exhaustive small scopes, grammar-generated "
        "values (range sets, headers through the real QuicPacketBuilder, Retry, Version Negotiation) and arbitrary / mutated / truncated "
        "byte strings; distinct = distinct token encoding, non-trivial = produces or consumes at least one byte",
        extra)


def replay(ctx, rep):
    suites = make_suites(ctx)
    case = rep["case"]
    s = suites[case["s"]]
    d, e, g = s.disagree(case)
    return {"suite": s.name, "disagree": d, "impl": e, "model": g, "oracle": s.oracle(case)}
