"""C02: tie between coq/model/KeyPhase.v (exec_keyphase) and crypto.py's CryptoPair / CryptoContext.

A case is a sequence of operations on TWO real CryptoPairs A and B wired back to back (A.send / B.recv share
one secret, B.send / A.recv another), exactly the events of the model:

  [1, x]                 x.update_key()                         (request_key_update)
  [2, x]                 x seals a packet (header bit = x.key_phase, then x.encrypt_packet)
  [3, x, k]              the k-th packet x has sealed is given to the other pair's decrypt_packet
  [4, y, how, ...]       an inauthentic packet is given to y.decrypt_packet:
                           ["flip", k, pos, mask]  k-th packet of y's peer with byte pos xor mask
                           ["forge", first, n, seed] random bytes behind a chosen first byte
                           ["reflect", k]          y's own k-th packet sent back to it
                         or one sealed BY THE REFERENCE under an arbitrary generation with an arbitrary bit:
                           ["sealed", g, ph]       (a peer that sets the wrong key phase bit / skips ahead)

Observables after every operation (compared token by token with the model): verdict, and for both pairs
(generation of recv.secret, recv.key_phase, generation of send.secret, send.key_phase, _update_key_requested)
where "generation" is found by comparing the secret with the reference's key-update chain.

Implementation-side checks that do not use the model:
  * a packet that makes decrypt_packet raise leaves the pair's full attribute digest (c02_twin.digest, every
    attribute, recursively, C objects by identity and by behaviour) unchanged;
  * a genuine packet sealed under the receiver's current or next generation is accepted, every inauthentic one
    rejected (RFC 9001 6.3: the receiver always can derive the next keys);
  * the digest is a function of the five numbers above: two pairs in the same abstract state have the same
    digest -- i.e. the model's state is ALL the state the implementation has."""
import random

from . import c02_ref as R
from . import c02_twin as T

DCID = bytes(range(0x10, 0x18))
PN_OFF = 1 + len(DCID)
MAXGEN = 24


class Sys:
    def __init__(self, C, case):
        from aioquic.quic.crypto import CryptoPair
        self.C = C
        self.case = case
        suite, ver = case["suite"], C._ver(case["version"])
        cs = C._aq_suite(suite)
        n = 48 if suite == "AES_256_GCM_SHA384" else 32
        self.sidx = [case["secret"], (case["secret"] + 1) % len(C.SECRETS)]                  # A->B, B->A
        self.pairs = [CryptoPair(), CryptoPair()]
        self.pairs[0].send.setup(cipher_suite=cs, secret=C.SECRETS[self.sidx[0]][:n], version=ver)
        self.pairs[1].recv.setup(cipher_suite=cs, secret=C.SECRETS[self.sidx[0]][:n], version=ver)
        self.pairs[1].send.setup(cipher_suite=cs, secret=C.SECRETS[self.sidx[1]][:n], version=ver)
        self.pairs[0].recv.setup(cipher_suite=cs, secret=C.SECRETS[self.sidx[1]][:n], version=ver)
        self.hist = [[], []]      # per sender: (packet, pn)
        self.pn = [0, 0]

    def keys(self, direction, g):
        """reference keys of generation g for packets sent by `direction` (0 = A); next secrets with the label the
        implementation uses (the RFC label is checked by the protect suite and the vectors: finding F1)"""
        return self.C.ref_keys(self.case["suite"], self.case["version"], self.sidx[direction], g, as_implemented=True)

    def gen_of(self, direction, secret):
        if secret is None:
            return -2
        for g in range(MAXGEN):
            if self.keys(direction, g).secret == secret:
                return g
        return -1

    def state(self):
        out = []
        for i, p in enumerate(self.pairs):
            out += [self.gen_of(1 - i, p.recv.secret), p.recv.key_phase, self.gen_of(i, p.send.secret), p.send.key_phase,
                    int(p._update_key_requested)]
        return out

    def alpha(self, i):
        s = self.state()
        return tuple(s[5 * i:5 * i + 5])

    def seen(self, direction, pkt):
        """(key phase bit, long header) the receiver of `direction`'s packets sees after header protection removal,
        computed by the reference (the hp key does not change with key updates)"""
        sample = pkt[PN_OFF + 4:PN_OFF + 20]
        first = pkt[0] ^ (self.keys(direction, 0).mask(sample)[0] & (0x0F if pkt[0] & 0x80 else 0x1F))
        return (first >> 2) & 1, int(bool(first & 0x80))

    def sealed_gen(self, direction, pkt, pn):
        """generation under which a packet was really sealed: trial opening by the reference"""
        ph = self.seen(direction, pkt)[0]
        for g in range(MAXGEN):
            try:
                R.unprotect(self.keys(direction, g), pkt, PN_OFF, pn, key_phase=ph)
                return g
            except R.AuthError:
                continue
        return -1

    def seal(self, x):
        p = self.pairs[x]
        pn = self.pn[x]
        self.pn[x] += 1
        hdr = bytes([0x40 | (p.key_phase << 2) | 1]) + DCID + (pn & 0xFFFF).to_bytes(2, "big")
        pkt = p.encrypt_packet(hdr, bytes([1 + (pn & 0x3F)]) * (20 + pn % 7), pn)
        self.hist[x].append((pkt, pn))
        return pkt, pn

    def inauthentic(self, y, how):
        peer = 1 - y
        kind = how[0]
        if kind == "flip":
            if not self.hist[peer]:
                return None
            pkt, pn = self.hist[peer][how[1] % len(self.hist[peer])]
            b = bytearray(pkt)
            b[how[2] % len(b)] ^= how[3] if 1 <= how[3] <= 255 else 1
            return bytes(b), pn
        if kind == "forge":
            rng = random.Random(how[3])
            return bytes([how[1] & 0x7F | 0x40]) + DCID + bytes(rng.randrange(256) for _ in range(max(24, how[2]))), self.pn[peer]
        if kind == "reflect":
            if not self.hist[y]:
                return None
            return self.hist[y][how[1] % len(self.hist[y])]
        raise ValueError(kind)


_MEMO = {}
_CANON = {}


def canonical(C, case, i, alpha):
    """Value digest of pair i of a fresh system brought to the abstract state `alpha` by local key updates only (it has
    never been given a packet).  None when alpha is not of the form the model can be in."""
    rg, rp, sg, sp, req = alpha
    if rg < 0 or rg != sg or rp != sp:
        return None
    key = (case["suite"], case["version"], case["secret"], i, alpha)
    if key not in _CANON:
        S = Sys(C, case)
        p = S.pairs[i]
        for _ in range(rg):
            p.update_key()
            p.encrypt_packet(bytes([0x40 | (p.key_phase << 2) | 1]) + DCID + b"\x00\x00", bytes(24), 0)
        if req:
            p.update_key()
        if S.alpha(i) != alpha:
            return None
        _CANON[key] = T.digest(p, deep=True, ident=False)
    return _CANON[key]


def trace(C, case):
    """Run the case on the implementation.  -> (implementation tokens, model input tokens, problems).
    Model input needs, for an injected packet, the key phase bit and header form the receiver will see; they are read off the
    actual bytes by the reference's header-protection removal."""
    import json
    key = json.dumps([case["suite"], case["version"], case["secret"], case["ops"]])
    if key in _MEMO:
        return _MEMO[key]
    from aioquic.quic.crypto import CryptoError
    S = Sys(C, case)
    out, toks, problems = [], [], []
    for op in case["ops"]:
        if op[0] == 1:
            S.pairs[op[1]].update_key()
            toks += [1, op[1]]
            out += S.state()
        elif op[0] == 2:
            x = op[1]
            pkt, pn = S.seal(x)
            toks += [2, x]
            out += [S.sealed_gen(x, pkt, pn), S.seen(x, pkt)[0]] + S.state()
        elif op[0] in (3, 4):
            genuine, g_pkt = False, None
            if op[0] == 3:
                x, k = op[1], op[2]
                y = 1 - x
                toks += [3, x, k]
                if not (0 <= k < len(S.hist[x])):
                    out += [9] + S.state()
                    continue
                pkt, pn = S.hist[x][k]
                g_pkt, genuine = S.sealed_gen(x, pkt, pn), True
            else:
                y, how = op[1], op[2]
                x = 1 - y
                if how[0] == "sealed":
                    g_pkt, ph = how[1], how[2]
                    pn = S.pn[x] + 1000
                    hdr = bytes([0x40 | (ph << 2) | 1]) + DCID + (pn & 0xFFFF).to_bytes(2, "big")
                    pkt = R.protect(S.keys(x, g_pkt), hdr, b"\x01" * 24, pn)
                    genuine = ph == g_pkt % 2
                    toks += [4, y, 1, g_pkt, ph, 0]
                else:
                    r = S.inauthentic(y, how)
                    if r is None:
                        toks += [3, y, 1 << 20]      # nothing to alter yet: "no such packet" on both sides
                        out += [9] + S.state()
                        continue
                    pkt, pn = r
                    ph, lg = S.seen(x, pkt)
                    toks += [4, y, 0, 0, ph, lg]
            pair = S.pairs[y]
            a0 = S.alpha(y)
            before = T.digest(pair, deep=True)
            try:
                pair.decrypt_packet(pkt, PN_OFF, pn)
                v = 2 if S.alpha(y)[0] != a0[0] else 1
            except CryptoError:
                v = 0
            after = T.digest(pair, deep=True)
            if v == 0 and before != after:
                problems.append(("crypto-state", "a packet rejected by decrypt_packet changed the CryptoPair: %s" % "; ".join(T.digest_diff(before, after))))
            if op[0] == 4 and op[2][0] != "sealed" and v != 0:
                problems.append(("altered-accepted", "an inauthentic packet %s was accepted by decrypt_packet" % (op[2],)))
            if genuine and a0[0] >= 0 and g_pkt in (a0[0], a0[0] + 1) and v == 0:
                problems.append(("genuine-rejected", "a genuine packet sealed under key generation %d was rejected by a receiver in generation %d "
                                 "(the current or the next keys must open it)" % (g_pkt, a0[0])))
            out += [v] + S.state()
        else:
            raise ValueError(op)
        for i in (0, 1):
            al = S.alpha(i)
            d0 = canonical(C, case, i, al)
            if d0 is not None and d0 != T.digest(S.pairs[i], deep=True, ident=False):
                problems.append(("hidden-state", "a CryptoPair in the abstract state %s (recv generation, recv phase, send generation, send phase, "
                                 "update requested) differs from a pair brought there by local updates alone: %s -- the implementation carries "
                                 "state the model does not have" % (al, "; ".join(T.digest_diff(d0, T.digest(S.pairs[i], deep=True, ident=False))))))
    if len(_MEMO) > 30000:
        _MEMO.clear()
    _MEMO[key] = (out, toks, problems)
    return _MEMO[key]


# ------------------------------------------------------------------------------------ generators
MACROS = ["kuA", "kuB", "dataA", "dataB", "injA", "injB", "oldA", "oldB", "reqA", "reqB", "sendA", "sendB"]


def expand(macros, rng):
    """macro names -> primitive ops; tracks history lengths for 'deliver the latest'."""
    ops = []
    n = [0, 0]
    for m in macros:
        x = 0 if m.endswith("A") else 1
        k = m[:-1]
        if k == "ku":         # x updates, sends, the packet arrives
            ops += [[1, x], [2, x], [3, x, n[x]]]
            n[x] += 1
        elif k == "data":
            ops += [[2, x], [3, x, n[x]]]
            n[x] += 1
        elif k == "req":
            ops += [[1, x]]
        elif k == "send":
            ops += [[2, x]]
            n[x] += 1
        elif k == "old":      # an earlier packet of x arrives (again / late)
            ops += [[3, x, rng.randrange(max(1, n[x]))]]
        elif k == "inj":      # something inauthentic reaches x
            c = rng.randrange(6)
            if c == 0 and n[1 - x]:
                ops += [[4, x, ["flip", rng.randrange(n[1 - x]), 0, 4]]]                     # the key phase bit of a genuine packet
            elif c == 1 and n[1 - x]:
                ops += [[4, x, ["flip", rng.randrange(n[1 - x]), rng.randrange(60), rng.randrange(1, 256)]]]
            elif c == 2 and n[x]:
                ops += [[4, x, ["reflect", rng.randrange(n[x])]]]
            elif c == 3:
                ops += [[4, x, ["sealed", rng.randrange(4), rng.randrange(2)]]]
            else:
                ops += [[4, x, ["forge", rng.randrange(256), rng.randrange(24, 70), rng.randrange(1 << 30)]]]
    return ops


def gen_cases(C, rng, n_random, exhaustive_len):
    cases = []

    def mk(macros):
        r = random.Random(rng.randrange(1 << 30))
        return {"suite": rng.choice(C.SUITE_NAMES), "version": rng.choice([1, 2]), "secret": rng.randrange(len(C.SECRETS)),
                "macros": list(macros), "ops": expand(macros, r), "seed": rng.randrange(1 << 30)}
    small = ["kuA", "kuB", "dataA", "dataB", "injA", "injB", "oldA", "oldB"]
    import itertools
    for L in range(1, exhaustive_len + 1):
        for combo in itertools.product(small, repeat=L):
            cases.append(mk(combo))
    for _ in range(n_random):
        L = rng.randint(3, 12)
        cases.append(mk([rng.choice(MACROS) for _ in range(L)]))
    return cases
