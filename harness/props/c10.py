"""C10  Stream send and receive halves conform to a reference model.

Tie: op-sequence correspondence of coq/model/{RangeSet,StreamRecv,StreamSend}.v against the real
RangeSet / QuicStreamReceiver / QuicStreamSender, plus an independent Python oracle (offset->byte
map; written-bytes ledger) run on the implementation for every case."""
import itertools

from vlib import core, corr

DEPENDS = ["RangeSet", "StreamRecv", "StreamSend", "Base", "Tok", "C10"]
TRUSTED_BASE = [
    "extraction (ExtrOcamlBasic only; Z kept as the extracted inductive) + coq/extract/driver.ml for running the models",
    "correspondence harness harness/props/c10.py + harness/vlib/corr.py (decides what 'agree' means)",
    "modelled, not verified: rangeset.py and stream.py (QuicStreamReceiver, QuicStreamSender) as Gallina functions; "
    "stream ids, stop_sending bookkeeping and event object construction are outside the model",
]
ASSUMPTIONS = [
    "sender theorems assume each emitted frame receives at most one delivery outcome (discharged by C08 callbacks_at_most_once)",
    "frame offsets and lengths are non-negative (wire varints)",
]


# ---------------------------------------------------------------------------- RangeSet
def rs_encode(case):
    t = []
    for op in case["ops"]:
        k = op[0]
        if k == "add":
            t += [0, op[1], op[2]]
        elif k == "sub":
            t += [1, op[1], op[2]]
        elif k == "shift":
            t += [2]
        elif k == "contains":
            t += [3, op[1]]
        elif k == "bounds":
            t += [4]
    return t


def rs_impl(case):
    from aioquic.quic.rangeset import RangeSet
    s = RangeSet()
    out = []

    def dump():
        r = [len(s)]
        for x in s:
            r += [x.start, x.stop]
        return r

    for op in case["ops"]:
        k = op[0]
        try:
            if k == "add":
                s.add(op[1], op[2])
                out += [0]
            elif k == "sub":
                s.subtract(op[1], op[2])
                out += [0]
            elif k == "shift":
                r = s.shift()
                out += [0, r.start, r.stop]
            elif k == "contains":
                out += [0, int(op[1] in s)]
            elif k == "bounds":
                r = s.bounds()
                out += [0, r.start, r.stop]
        except AssertionError:
            out += [1]
        except IndexError:
            out += [2]
        out += dump()
    return out


def rs_oracle(case):
    """Independent reference: a set of integers (universe is small in generated cases)."""
    from aioquic.quic.rangeset import RangeSet
    s = RangeSet()
    ref = set()
    for i, op in enumerate(case["ops"]):
        k = op[0]
        if k in ("add", "sub") and op[2] <= op[1]:
            continue  # API misuse (assert); not part of the property
        if k in ("add", "sub") and op[2] - op[1] > 5000:
            return None  # oracle only handles small universes
        if k == "add":
            s.add(op[1], op[2])
            ref |= set(range(op[1], op[2]))
        elif k == "sub":
            s.subtract(op[1], op[2])
            ref -= set(range(op[1], op[2]))
        elif k == "shift":
            if len(s) == 0:
                continue
            r = s.shift()
            if r.start != min(ref):
                return ("RangeSet.shift returned a range not starting at the minimum", {"comp": "rangeset", "rule": "shift"})
            ref -= set(r)
        elif k == "contains":
            if (op[1] in s) != (op[1] in ref):
                return ("RangeSet.__contains__ wrong at op %d" % i, {"comp": "rangeset", "rule": "contains"})
        got = set()
        prev = None
        for r in s:
            if r.stop <= r.start or (prev is not None and r.start <= prev):
                return ("RangeSet not sorted/disjoint/non-adjacent after op %d: %r" % (i, list(s)), {"comp": "rangeset", "rule": "wf"})
            prev = r.stop
            got |= set(r)
        if got != ref:
            return ("RangeSet membership differs from reference set after op %d (%s)" % (i, k), {"comp": "rangeset", "rule": "mem"})
    return None


def rs_gen(rng, n):
    cases = []
    for _ in range(n):
        u = rng.choice([8, 12, 30, 100])
        ops = []
        for _ in range(rng.randint(1, 25)):
            r = rng.random()
            a = rng.randint(0, u)
            b = a + rng.choice([1, 1, 2, 3, rng.randint(1, u)])
            if r < 0.5:
                ops.append(["add", a, b])
            elif r < 0.8:
                ops.append(["sub", a, b])
            elif r < 0.85:
                ops.append(["shift"])
            elif r < 0.95:
                ops.append(["contains", a])
            elif r < 0.98:
                ops.append(["bounds"])
            else:
                ops.append([rng.choice(["add", "sub"]), a, a - rng.randint(0, 2)])  # assertion path
        cases.append({"ops": ops})
    return cases


def rs_exhaustive(universe=4, depth=3):
    alpha = []
    for a in range(universe):
        for b in range(a + 1, universe + 1):
            alpha.append(["add", a, b])
            alpha.append(["sub", a, b])
    alpha.append(["shift"])
    for ops in itertools.product(alpha, repeat=depth):
        yield {"ops": [list(o) for o in ops] + [["bounds"]]}


# ---------------------------------------------------------------------------- receiver
def rx_encode(case):
    t = []
    for op in case["ops"]:
        if op[0] == "frame":
            t += [0, op[1], int(op[3]), len(op[2])] + list(op[2])
        else:
            t += [1, op[1]]
    return t


def rx_impl(case):
    from aioquic.quic.stream import QuicStreamReceiver, FinalSizeError
    from aioquic.quic.packet import QuicStreamFrame
    from aioquic.quic import events
    r = QuicStreamReceiver(stream_id=0, readable=True)
    out = []
    for op in case["ops"]:
        try:
            if op[0] == "frame":
                ev = r.handle_frame(QuicStreamFrame(offset=op[1], data=bytes(op[2]), fin=bool(op[3])))
                if ev is None:
                    out += [0]
                else:
                    assert isinstance(ev, events.StreamDataReceived)
                    out += [1, int(ev.end_stream), len(ev.data)] + list(ev.data)
            else:
                ev = r.handle_reset(final_size=op[1])
                assert isinstance(ev, events.StreamReset)
                out += [3]
        except FinalSizeError:
            out += [2]
        out += [r.highest_offset, int(r.is_finished), r.starting_offset()]
    return out


def rx_oracle(case):
    """The property coded directly: offset->byte map, last write wins for undelivered offsets."""
    from aioquic.quic.stream import QuicStreamReceiver, FinalSizeError
    from aioquic.quic.packet import QuicStreamFrame
    r = QuicStreamReceiver(stream_id=0, readable=True)
    m, delivered, final, reset = {}, 0, None, False
    for i, op in enumerate(case["ops"]):
        if op[0] == "frame":
            off, data, fin = op[1], bytes(op[2]), bool(op[3])
            end = off + len(data)
            expect_err = final is not None and (end > final or (fin and end != final))
            try:
                ev = r.handle_frame(QuicStreamFrame(offset=off, data=data, fin=fin))
                err = False
            except FinalSizeError:
                err = True
            if err != expect_err:
                return ("FinalSizeError %s at op %d" % ("raised spuriously" if err else "missing", i),
                        {"comp": "receiver", "rule": "final_size_frame"})
            if err:
                continue
            if fin:
                final = end
            for k, b in enumerate(data):
                if off + k >= delivered:
                    m[off + k] = b
            exp = bytearray()
            while delivered in m:
                exp.append(m.pop(delivered))
                delivered += 1
            got = b"" if ev is None else ev.data
            if bytes(exp) != got:
                return ("delivered bytes differ from the offset map at op %d" % i, {"comp": "receiver", "rule": "bytes"})
            if not reset:
                complete = final is not None and delivered == final
                got_end = bool(ev is not None and ev.end_stream)
                if got_end != complete:
                    return ("end marker %s at op %d" % ("spurious" if got_end else "missing", i), {"comp": "receiver", "rule": "end"})
                if ev is None and (exp or complete):
                    return ("no event although data/end is due at op %d" % i, {"comp": "receiver", "rule": "event"})
        else:
            fs = op[1]
            expect_err = final is not None and fs != final
            try:
                r.handle_reset(final_size=fs)
                err = False
            except FinalSizeError:
                err = True
            if err != expect_err:
                return ("reset FinalSizeError %s at op %d" % ("spurious" if err else "missing", i), {"comp": "receiver", "rule": "final_size_reset"})
            if not err:
                final = fs
                reset = True
    return None


def rx_gen(rng, n, big=False):
    cases = []
    for _ in range(n):
        L = rng.choice([2, 3, 5, 8, 16, 40, 64]) if not big else rng.choice([200, 1500, 5000])
        hidden = [rng.randrange(256) for _ in range(L)]
        ops = []
        nfr = rng.randint(1, 30 if not big else 60)
        consistent = rng.random() < 0.8
        # cut points
        cursor = 0
        for _ in range(nfr):
            r = rng.random()
            if r < 0.45:   # mostly in-order-ish chunk
                off = max(0, cursor - rng.choice([0, 0, 1, 2, 5]))
                ln = rng.choice([0, 1, 1, 2, 3, max(1, L // 4)])
                cursor = min(L, off + ln)
            elif r < 0.9:  # anywhere
                off = rng.randint(0, L)
                ln = rng.randint(0, max(0, min(L - off, 12 if not big else 400)))
            else:          # beyond the hidden stream
                off = rng.randint(0, L + 3)
                ln = rng.randint(0, 4)
            end = off + ln
            data = [(hidden[k] if k < L and consistent else rng.randrange(256)) for k in range(off, end)]
            fin = False
            p = rng.random()
            if end == L and p < 0.6:
                fin = True
            elif p < 0.05:
                fin = True
            ops.append(["frame", off, data, int(fin)])
            if rng.random() < 0.08:
                ops.append(list(rng.choice(ops)))  # duplicate of an earlier frame
            if rng.random() < 0.03:
                ops.append(["reset", rng.choice([L, L, end, rng.randint(0, L + 2)])])
        if rng.random() < 0.5:
            ops.append(["frame", 0, list(hidden), 1])  # the whole stream, to complete delivery
        cases.append({"ops": ops})
    return cases


def rx_exhaustive(bound=3, depth=3):
    alpha = []
    for off in range(bound + 1):
        for ln in range(bound + 1 - off):
            for fin in (0, 1):
                alpha.append(("frame", off, ln, fin))
    for fs in range(bound + 2):
        alpha.append(("reset", fs))
    for d in range(1, depth + 1):
        for seq in itertools.product(alpha, repeat=d):
            ops = []
            for j, o in enumerate(seq):
                if o[0] == "frame":
                    ops.append(["frame", o[1], [(17 * j + k + 1) % 256 for k in range(o[1], o[1] + o[2])], o[3]])
                else:
                    ops.append(["reset", o[1]])
            yield {"ops": ops}


# ---------------------------------------------------------------------------- sender
def tx_encode(case):
    t = []
    for op in case["ops"]:
        k = op[0]
        if k == "write":
            t += [0, int(op[2]), len(op[1])] + list(op[1])
        elif k == "get":
            t += [1, op[1]] + ([0] if op[2] is None else [1, op[2]])
        elif k == "getreset":
            t += [2]
        elif k == "deliv":
            t += [3, int(op[1]), op[2], op[3], int(op[4])]
        elif k == "rdeliv":
            t += [4, int(op[1])]
        elif k == "reset":
            t += [5, op[1]]
    return t


def _tx_apply(s, op):
    """Run one op on a real sender; returns model-style tokens for the result."""
    from aioquic.quic.packet_builder import QuicDeliveryState
    k = op[0]
    try:
        if k == "write":
            s.write(bytes(op[1]), end_stream=bool(op[2]))
            return [0], None
        if k == "get":
            f = s.get_frame(op[1], op[2])
            if f is None:
                return [0], None
            return [1, f.offset, int(f.fin), len(f.data)] + list(f.data), f
        if k == "getreset":
            f = s.get_reset_frame()
            return [2] + ([0] if f.error_code is None else [1, f.error_code]) + [f.final_size], f
        if k == "deliv":
            s.on_data_delivery(QuicDeliveryState.ACKED if op[1] else QuicDeliveryState.LOST, op[2], op[3], bool(op[4]))
            return [0], None
        if k == "rdeliv":
            s.on_reset_delivery(QuicDeliveryState.ACKED if op[1] else QuicDeliveryState.LOST)
            return [0], None
        if k == "reset":
            s.reset(op[1])
            return [0], None
    except AssertionError:
        return [3], None
    raise ValueError(k)


def tx_impl(case):
    from aioquic.quic.stream import QuicStreamSender
    s = QuicStreamSender(stream_id=0, writable=True)
    out = []
    for op in case["ops"]:
        r, _ = _tx_apply(s, op)
        out += r + [int(s.buffer_is_empty), s.highest_offset, int(s.is_finished), int(s.reset_pending), s.next_offset]
    return out


def tx_oracle(case):
    """Property oracle on *legitimate* histories (delivery outcomes only for emitted frames, at most
    once each; no API misuse).  Cases flagged wild are only compared with the model."""
    if case.get("wild"):
        return None
    from aioquic.quic.stream import QuicStreamSender
    s = QuicStreamSender(stream_id=0, writable=True)
    written = bytearray()
    eof = False
    state = []          # per offset: 'p' pending, 'o' outstanding, 'a' acked
    fin_state = None    # None (no fin written) | 'p' | 'o' | 'a'
    reset = False
    reset_acked = False
    ever = False
    outstanding = []    # emitted frames without outcome
    for i, op in enumerate(case["ops"]):
        k = op[0]
        if k == "deliv":
            fr = (op[2], op[3], bool(op[4]))
            if fr not in outstanding:
                return None   # not a legitimate history (outcome for a frame that is not outstanding): not judged
            if not reset:
                outstanding.remove(fr)
        if k in ("getreset", "rdeliv") and not reset:
            return None
        if k == "write":
            if eof or reset:
                return None
            written += bytes(op[1])
            state += ["p"] * len(op[1])
            if op[2]:
                eof = True
                fin_state = "p"
        elif k == "get" and reset:
            return None
        elif k == "reset":
            reset = True
        r, f = _tx_apply(s, op)
        if r == [3]:
            return ("AssertionError on a legitimate history at op %d (%s)" % (i, k), {"comp": "sender", "rule": "assert"})
        if k == "get":
            if f is None:
                # nothing may be withheld when caps allow progress
                lo = next((j for j, c in enumerate(state) if c == "p"), None)
                if lo is not None and op[1] > 0 and (op[2] is None or op[2] > lo):
                    return ("get_frame returned None although offset %d is pending and caps allow it (op %d)" % (lo, i),
                            {"comp": "sender", "rule": "reoffer"})
                if lo is None and fin_state == "p":
                    return ("pending FIN was not offered (op %d)" % i, {"comp": "sender", "rule": "reoffer_fin"})
            else:
                end = f.offset + len(f.data)
                if bytes(f.data) != bytes(written[f.offset:end]) or end > len(written):
                    return ("emitted frame does not carry the written bytes (op %d)" % i, {"comp": "sender", "rule": "bytes"})
                if len(f.data) > op[1]:
                    return ("frame larger than max_size (op %d)" % i, {"comp": "sender", "rule": "max_size"})
                if op[2] is not None and len(f.data) > 0 and end > op[2]:
                    return ("frame beyond max_offset (op %d)" % i, {"comp": "sender", "rule": "max_offset"})
                if f.fin and not (eof and end == len(written)):
                    return ("FIN on a frame that does not end the written data (op %d)" % i, {"comp": "sender", "rule": "fin"})
                if any(c == "a" for c in state[f.offset:end]):
                    return ("acknowledged bytes re-sent (op %d)" % i, {"comp": "sender", "rule": "resend_acked"})
                for j in range(f.offset, end):
                    state[j] = "o"
                if f.fin:
                    fin_state = "o"
                outstanding.append((f.offset, end, bool(f.fin)))
        elif k == "deliv" and not reset:
            for j in range(op[2], op[3]):
                if state[j] != "a":
                    state[j] = "a" if op[1] else "p"
            if op[4]:
                fin_state = "a" if op[1] else "p"
        elif k == "rdeliv":
            if op[1]:
                reset_acked = True
        exp_fin = (not reset and eof and all(c == "a" for c in state) and fin_state == "a") or reset_acked
        ever = ever or exp_fin   # completion is sticky
        if s.is_finished and not ever:
            return ("is_finished reported before everything was acknowledged (op %d)" % i, {"comp": "sender", "rule": "finished_early"})
        if exp_fin and not s.is_finished:
            return ("is_finished not reported although all data and FIN (or the reset) are acknowledged (op %d)" % i,
                    {"comp": "sender", "rule": "finished_missing"})
    return None


def tx_gen(rng, n, big=False):
    cases = []
    for _ in range(n):
        wild = rng.random() < 0.15
        ops = []
        outstanding = []   # emitted frames without outcome: (start, stop, fin)
        from aioquic.quic.stream import QuicStreamSender
        s = QuicStreamSender(stream_id=0, writable=True)
        eof = False
        reset = False
        total = 0
        after_reset = 0
        for _ in range(rng.randint(1, 40 if not big else 120)):
            r = rng.random()
            op = None
            if reset:
                after_reset += 1
                if after_reset > 5:
                    break
                r = 0.9 + 0.1 * r if not outstanding or rng.random() < 0.5 else 0.7
                if r >= 0.9 and r < 0.93:
                    r = 0.94
            if wild and r < 0.25:
                a = rng.randint(0, total + 2)
                op = ["deliv", rng.randint(0, 1), a, a + rng.randint(0, 4), int(rng.random() < 0.1)]
                if rng.random() < 0.2:
                    op = rng.choice([["write", [1, 2], 0], ["get", 3, None], ["rdeliv", 1], ["getreset"]])
            elif r < 0.25 and not eof and not reset:
                ln = rng.choice([0, 1, 2, 3, 5, 8, 20]) if not big else rng.randint(0, 3000)
                fin = rng.random() < 0.15
                op = ["write", [rng.randrange(256) for _ in range(ln)], int(fin)]
                total += ln
                eof = eof or fin
            elif r < 0.6 and not reset:
                ms = rng.choice([0, 1, 2, 3, 4, 7, 1000])
                mo = rng.choice([None, None, 0, 1, total // 2, total - 1, total, total + 1, s.highest_offset, s.highest_offset + 1])
                if mo is not None and mo < 0:
                    mo = 0
                op = ["get", ms, mo]
            elif r < 0.9 and outstanding:
                fr = outstanding.pop(rng.randrange(len(outstanding)))
                op = ["deliv", int(rng.random() < 0.6), fr[0], fr[1], int(fr[2])]
            elif 0.9 <= r < 0.93 and rng.random() < 0.5:
                op = ["reset", rng.randint(0, 9)]
                reset = True
            elif 0.9 <= r < 0.96 and reset:
                op = ["getreset"]
            elif 0.9 <= r and reset:
                op = ["rdeliv", rng.randint(0, 1)]
            if op is None:
                continue
            res, f = _tx_apply(s, op)
            if op[0] == "get" and f is not None:
                outstanding.append((f.offset, f.offset + len(f.data), f.fin))
            ops.append(op)
        if not wild and not reset and rng.random() < 0.6:
            # fair tail: drain with ample caps and acknowledge everything
            for _ in range(200):
                res, f = _tx_apply(s, ["get", 1000000, None])
                ops.append(["get", 1000000, None])
                if f is None:
                    break
                outstanding.append((f.offset, f.offset + len(f.data), f.fin))
            rng.shuffle(outstanding)
            for fr in outstanding:
                ops.append(["deliv", 1, fr[0], fr[1], int(fr[2])])
        c = {"ops": ops}
        if wild:
            c["wild"] = True
        cases.append(c)
    return cases


# ---------------------------------------------------------------------------- driver
def _ops(c):
    return c["ops"]


def _rebuild(c, ops):
    d = dict(c)
    d["ops"] = ops
    return d


def suites(ctx):
    rs = corr.Suite(ctx, "rangeset", "exec_rangeset", rs_encode, rs_impl, rs_oracle, _ops, _rebuild,
                    nontrivial=lambda c, out: len(c["ops"]) >= 2 and any(o[0] in ("add",) for o in c["ops"]),
                    opname=lambda o: o[0])
    rx = corr.Suite(ctx, "receiver", "exec_streamrecv", rx_encode, rx_impl, rx_oracle, _ops, _rebuild,
                    nontrivial=lambda c, out: any(o[0] == "frame" and o[2] for o in c["ops"]) and 1 in out,
                    opname=lambda o: o[0])
    tx = corr.Suite(ctx, "sender", "exec_streamsend", tx_encode, tx_impl, tx_oracle, _ops, _rebuild,
                    nontrivial=lambda c, out: any(o[0] == "get" for o in c["ops"]) and any(o[0] == "write" and o[1] for o in c["ops"]),
                    opname=lambda o: o[0])
    return rs, rx, tx


def run(ctx):
    rs, rx, tx = suites(ctx)
    for s in (rs, rx, tx):
        s.run(corr.load_corpus("C10", s.name), "corpus")
    rng = ctx.rng
    rs.run(rs_gen(rng, ctx.n(2000, 20000)))
    rx.run(rx_gen(rng, ctx.n(3000, 40000)))
    tx.run(tx_gen(rng, ctx.n(3000, 40000)))
    exhaustive = False
    if ctx.thorough:
        rs.run(list(rs_exhaustive(4, 3)))
        rx.run(list(rx_exhaustive(3, 3)))
        rx.run(rx_gen(rng, ctx.n(0, 2000), big=True))
        tx.run(tx_gen(rng, ctx.n(0, 2000), big=True))
        exhaustive = True
    else:
        rx.run(list(rx_exhaustive(2, 2)))
    return corr.merge_coverage(
        [rs, rx, tx],
        "grammar-generated op histories (hidden byte string cut into overlapping/duplicated/out-of-order frames, FIN and "
        "reset placement; sender histories with caps, partial acks, losses, resets; RangeSet add/subtract/shift lists); "
        "distinct = distinct token encoding, non-trivial = delivers data / emits a frame / adds a range",
        {"exhaustive_small_scope": exhaustive})


def replay(ctx, rep):
    rs, rx, tx = suites(ctx)
    case = rep["case"]
    res = {}
    for s in (rs, rx, tx):
        try:
            d, e, g = s.disagree(case)
            res[s.name] = {"disagree": d, "impl": e, "model": g, "oracle": s.oracle(case)}
        except Exception as ex:
            res[s.name] = {"not-applicable": repr(ex)}
    return res
