"""C03  Handshake completes only with the authentic peer and both sides agree  (PARTIAL: symbolic proof).

Proof side: coq/props/C03.v over coq/model/TlsSymbolic.v (the handshake of tls.py over an oracle record for
cryptography / X.509 / codecs; transcript = the exact bytes given to update_hash).

Tie and implementation oracle, re-run on every check against the CURRENT tree:
  * tools/gen/c03_transcript.py re-extracts from tls.py / connection.py which bytes every handler gives to
    update_hash and in which order relative to its checks, the key-schedule labels, the cipher-suite / signature
    tables, negotiate() and the transport-parameter checks -> coq/gen/TlsTranscript.v; proofs/TlsSymbolicPGen.v
    proves they are the ones the model was written from (a dropped update_hash breaks the proof);
  * harness/props/c03_tls.py: real tls.Context PAIRS driven directly: every byte position x masks of every
    handshake message in both directions, configuration matrix, bad certificates;
  * harness/props/c03_quic.py: real QuicConnection pairs through harness/sim with a key-holding man in the middle
    that alters handshake bytes inside correctly re-protected packets; configuration matrix incl. versions, retry,
    resumption / 0-RTT, client certificates; loss and reordering;
  * the model's negotiate() / version choice / verdicts are compared with what the implementation did
    (exec_c03 through the extracted driver);
  * harness/props/c03_names.py: WHICH identity the certificate is validated for - configured server_name (DNS, IPv4 /
    IPv6 literals and odd spellings, trailing dot, upper case, IDNA, None) x subjectAltName shapes (matching / other
    DNS, wildcard, matching / other IP, IP written as dNSName, CN only) x verify_mode x cadata / cafile / capath, leaves
    signed by a private CA made at run time so that ONLY the identity differs; own RFC 6125 / 9525 matcher as oracle;
    verify_certificate directly, tls.Context pairs, QuicConnection pairs; tools/gen/c03_names.py re-extracts the name
    flow (what is stored in self._server_name, what reaches the ClientHello / verify_certificate) and
    verify_certificate's decision structure -> coq/gen/TlsNames.v, proofs/TlsNamesP.v (exec_c03vc for the tie).
"""
import json
import os
import random
import time

from vlib import core, corr
from props import c03_tls, c03_quic, c03_sched, c03_names

GENERATORS = ["c03_transcript", "c03_names"]
DEPENDS = ["TlsDispatch (generated, C11)", "TlsTranscript (generated)", "TlsSymbolic", "TlsSymbolicP*", "TlsTwoParty", "TlsTwoPartyP*", "TlsNames (generated)", "TlsVerifyCert", "TlsNamesP", "C03"]
TRUSTED_BASE = [
    "tools/gen/c03_transcript.py (Python-ast extraction of the update_hash / derive / check event order of every handshake "
    "handler, labels, tables, negotiate; fail closed) and tools/gen/c11_dispatch.py (dispatch table)",
    "tools/gen/c03_names.py (Python-ast extraction of the name flow of tls.Context - stores to self._server_name, the server_name= "
    "arguments of ClientHello / verify_certificate / SessionTicket - and of verify_certificate's decision structure; fail closed)",
    "extraction (ExtrOcamlBasic only) + coq/extract/driver.ml for running exec_c03 / exec_c03vc",
    "harness/props/c03_names.py: its IP-literal parser and RFC 6125 / 9525 style matcher (the oracle for 'valid for the configured "
    "name'), the run-time private CA (cryptography), the reading 'server_name None = no name requested: chain + dates only'",
    "harness/props/c03.py, c03_tls.py, c03_quic.py, harness/sim (virtual network, wire observer, re-protecting man in the middle)",
    "modelled, not verified: tls.Context handlers and the QUIC transport-parameter / version checks as Gallina functions over an "
    "oracle record; agreement with the code is established by the generated skeleton and on explored runs only",
    "idealised cryptography: hash / HMAC / HKDF injective, Finished provenance (a Finished accepted from the peer was computed "
    "by the honest peer) - premises of the theorems, NOT proved of the real primitives; X.509 path and name validation, "
    "signature verification and the message codecs are oracles (codecs: C17)",
]
ASSUMPTIONS = [
    "symbolic cryptography: o_hash, o_hmac, o_expand (HKDF-Expand-Label) injective; computational soundness of that idealisation is outside",
    "one-party theorems (_partial): Finished provenance - the Finished message an endpoint accepts is one the honest peer computed",
    "two-party theorems: Finished provenance is DERIVED; hypotheses: ideal2 (also: o_sign injective, cross-algorithm hash injectivity, "
    "canonical Finished, message types), sig_pair (certificate belongs to the key), dy_sound at every knowledge state of the run "
    "(HMAC / signature unforgeability, HKDF-Expand, HKDF-Extract (both arguments) and DH secrecy against the Dolev-Yao closure), "
    "secure (adversary does not know the server's certificate key and both (EC)DHE private keys, resp. the PSK)",
    "codec round trips parse(build v) = v and framed outputs (proved about the Gallina codecs in C17, here premises)",
    "cert_ok oracle = verify_certificate (chain, validity period, host name); o_sig_verify = public_key.verify; "
    "identity_check_never_skipped instantiates cert_ok with verify_certificate's decision structure (model/TlsVerifyCert.v) over "
    "oracles for the two service_identity matchers, ipaddress.ip_address, the validity dates and OpenSSL's chain verification",
    "one complete handshake message per handle_message call (reassembly exercised by the QUIC-level runs, not modelled)",
]


def _sub_rng(ctx, label):
    return random.Random("%s/%s/%d/%s" % (ctx.pid, ctx.tier, ctx.seed, label))


def _strip(stats):
    return {k: v for k, v in stats.items() if not k.startswith("_")}


# ------------------------------------------------------------------------------------------
# key-holding adversary (the machinery of C11: real tls.Context victim, honest key exchange, adversary re-computes
# signatures / MACs over the victim's transcript) trying to make the victim complete WITHOUT authentication
ADV_ALPHA = [["EE"], ["CR"], ["CERT", "good"], ["CERT", "untrusted"], ["CERT", "expired"], ["CERT", "empty"],
             ["CV", "good"], ["CV", "badsig"], ["FIN", "good"], ["FIN", "badmac"]]


def adv_cases(ctx):
    import itertools
    from props import c11
    cases = []
    maxlen = 4 if ctx.thorough else 3
    for psk, verify in ((0, 1), (1, 1), (2, 1), (0, 0)):
        for n in range(1, maxlen + 1):
            for w in itertools.product(ADV_ALPHA, repeat=n):
                if psk and n == maxlen and any(x[0] == "CR" or x[-1] in ("expired", "badmac") for x in w):
                    continue
                cases.append(c11.client_case(psk, [["EE"]] + [list(x) for x in w], verify=verify))
    # the near-legal long flights with every check made to fail one at a time, and the skip attacks
    for psk in (0, 1, 2):
        for verify in (1, 0):
            for cert in ("good", "untrusted", "expired", "empty"):
                for cv in ("good", "badsig", None):
                    for cr in (False, True):
                        ops = [["EE"]] + ([["CR"]] if cr else []) + [["CERT", cert]] + ([["CV", cv]] if cv else []) + [["FIN", "good"]]
                        cases.append(c11.client_case(psk, ops, verify=verify))
    # server victim: client Finished forged / client certificate without proof
    for psk in (0, 1):
        for req in (0, 1):
            for w in ([["FIN", "badmac"]], [["FIN", "good"]], [["CERT", "client"], ["FIN", "good"]], [["CERT", "client"], ["CV", "badsig"], ["FIN", "good"]],
                      [["CERT", "client"], ["CV", "good"], ["FIN", "good"]], [["CERT", "empty"], ["FIN", "good"]],
                      [["CERT", "empty"], ["FIN", "badmac"]], [["CV", "good"], ["FIN", "good"]]):
                cases.append(c11.server_case(psk, req, [list(x) for x in w]))
    return cases


def adv_oracle(case):
    """C03 on one adversarial run: POST_HANDSHAKE only after the legal, fully verified flight (certificate trusted unless
    CERT_NONE, CertificateVerify good, Finished good) or the PSK flight with the PSK offered and honestly selected."""
    from props import c11
    bad = c11.oracle(case)
    if bad and bad[1].get("rule") in ("no_skip", "onertt_early"):
        what, sig = bad
        return ("unauthenticated completion: " + what, dict(sig, suite="tls-adversary", kind="unauthenticated-completion"))
    return None


# ------------------------------------------------------------------------------------------
# PSK-path confusion: an adversary WITHOUT certificate key (and, unless stated, without the resumption secret) that
# does an honest (EC)DHE exchange and plays with pre_shared_key in ServerHello / ClientHello.  Unlike C11's adversary
# it does not borrow the honest peer's secrets: it re-derives the TLS 1.3 key schedule itself (hashlib / hmac, RFC 8446
# section 7.1) over the transcript AS THE VICTIM SAW IT, under the schedule the victim would use for each hypothesis
# ("none": early secret from zeros, "psk": early secret from the ticket's resumption secret = the legitimate server).
import hashlib as _hashlib
import hmac as _hmac

_HASH = {0x1301: "sha256", 0x1302: "sha384", 0x1303: "sha256"}


def _hx(alg, data=b""):
    return _hashlib.new(alg, data).digest()


def _extract(alg, salt, ikm):
    return _hmac.new(salt, ikm, alg).digest()


def _expand_label(alg, secret, label, context, length=None):
    n = _hashlib.new(alg).digest_size if length is None else length
    full = b"tls13 " + label
    info = n.to_bytes(2, "big") + bytes([len(full)]) + full + bytes([len(context)]) + context
    out, t, i = b"", b"", 1
    while len(out) < n:
        t = _hmac.new(secret, t + info + bytes([i]), alg).digest()
        out += t
        i += 1
    return out[:n]


def _hs_secret(alg, psk, shared):
    n = _hashlib.new(alg).digest_size
    early = _extract(alg, bytes(n), psk if psk is not None else bytes(n))
    return _extract(alg, _expand_label(alg, early, b"derived", _hx(alg)), shared)


def _finished(alg, traffic_secret, transcript):
    return _hmac.new(_expand_label(alg, traffic_secret, b"finished", b""), _hx(alg, transcript), alg).digest()


PSKCONF_FLIGHTS = {
    "EE-FIN": ["EE", "FIN"],
    "EE-CERTempty-FIN": ["EE", "CERT:empty", "FIN"],
    "EE-CERTuntrusted-CV-FIN": ["EE", "CERT:untrusted", "CV:untrusted", "FIN"],
    "EE-CR-FIN": ["EE", "CR", "FIN"],
    "EE-CERTgood-CVotherkey-FIN": ["EE", "CERT:good", "CV:untrusted", "FIN"],
    "EE-CERTgood-CV-FIN": ["EE", "CERT:good", "CV:good", "FIN"],        # the legitimate full flight (control)
}


def pskconf_client_cases(ctx):
    cases = []
    for mode in (0, 1, 2):                      # client: no ticket | ticket | ticket with early data
        for sh_psk in (None, 0, 1):             # pre_shared_key extension of the ServerHello
            for suite in ("ticket", "other"):   # 0x1302 (the ticket's suite, the client's first) | 0x1301
                for knows in ("none", "psk"):
                    for fl in PSKCONF_FLIGHTS:
                        if fl == "EE-CERTgood-CV-FIN" and (knows == "psk" or suite == "other"):
                            continue
                        cases.append({"suite": "tls-pskconf", "role": "client", "client_psk": mode, "sh_psk": sh_psk,
                                      "sh_suite": suite, "knows": knows, "flight": fl})
    return cases


def pskconf_server_cases(ctx):
    cases = []
    for early in (0, 1):
        for ident in ("real", "unknown"):
            for binder in ("real", "other-ticket", "zeros"):
                for modes in ("present", "missing"):
                    for store in ("same", "none"):
                        cases.append({"suite": "tls-pskconf", "role": "server", "early": early, "identity": ident,
                                      "binder": binder, "kex_modes": modes, "store": store})
    return cases


def pskconf_client_run(case):
    """-> obs: completed, resumed, stop (alert / exception), state"""
    from props import c11
    from aioquic import tls
    from aioquic.buffer import Buffer
    from cryptography.hazmat.primitives.asymmetric import x25519
    from cryptography.hazmat.primitives.serialization import Encoding
    e = c11.env()
    mode = case["client_psk"]
    tk = e["ticket", mode == 2] if mode else None
    v = c11._client_ctx(True)
    if tk:
        v.session_ticket = tk["client"]
    keys = []
    v.update_traffic_key_cb = lambda d, ep, cs, sec: keys.append((d.value, ep.value))
    out = c11._bufs()
    v.handle_message(b"", out)
    ch = bytes(out[tls.Epoch.INITIAL].data)
    hello = tls.pull_client_hello(Buffer(data=ch))
    share = dict(hello.key_share)[tls.Group.X25519]
    priv = x25519.X25519PrivateKey.generate()
    shared = priv.exchange(x25519.X25519PublicKey.from_public_bytes(share))
    from cryptography.hazmat.primitives.serialization import PublicFormat
    suite = 0x1302 if case["sh_suite"] == "ticket" else 0x1301
    sh = tls.ServerHello(random=bytes(range(32)), legacy_session_id=hello.legacy_session_id, cipher_suite=suite,
                         compression_method=0,
                         key_share=(tls.Group.X25519, priv.public_key().public_bytes(Encoding.Raw, PublicFormat.Raw)),
                         pre_shared_key=case["sh_psk"], supported_version=tls.TLS_VERSION_1_3)
    b = Buffer(capacity=2048)
    tls.push_server_hello(b, sh)
    shm = bytes(b.data)
    alg = _HASH[suite]
    ticket_secret = e["ticket", mode == 2]["server"].resumption_secret if mode else e["ticket", False]["server"].resumption_secret
    psk = ticket_secret if case["knows"] == "psk" else None
    hs = _hs_secret(alg, psk, shared)
    transcript = ch
    s_hs = _expand_label(alg, hs, b"s hs traffic", _hx(alg, ch + shm))
    obs = {"completed": False, "resumed": False, "stop": None, "state": None, "accepted": ["CH"], "keys": []}

    def feed(name, data):
        nonlocal transcript
        try:
            v.handle_message(data, c11._bufs())
        except tls.Alert as ex:
            obs["stop"] = {"at": name, "alert": int(type(ex).description)}
            return False
        except Exception as ex:  # noqa: BLE001
            obs["stop"] = {"at": name, "exception": type(ex).__name__}
            return False
        transcript += data
        obs["accepted"].append(name)
        return True

    st0 = v.state
    if feed("SH", shm):
        certs = e["certs"]
        for item in PSKCONF_FLIGHTS[case["flight"]]:
            name, _, var = item.partition(":")
            b = Buffer(capacity=4096)
            if name == "EE":
                tls.push_encrypted_extensions(b, tls.EncryptedExtensions(alpn_protocol=None, early_data=False, other_extensions=[]))
            elif name == "CR":
                tls.push_certificate_request(b, tls.CertificateRequest(request_context=b"", signature_algorithms=[0x0403]))
            elif name == "CERT":
                lst = [] if var == "empty" else [(certs[var][0].public_bytes(Encoding.DER), b"")]
                tls.push_certificate(b, tls.Certificate(request_context=b"", certificates=lst))
            elif name == "CV":
                data = b" " * 64 + b"TLS 1.3, server CertificateVerify" + b"\x00" + _hx(alg, transcript)
                sig = certs[var][1].sign(data, *tls.signature_algorithm_params(0x0403))
                tls.push_certificate_verify(b, tls.CertificateVerify(algorithm=0x0403, signature=sig))
            elif name == "FIN":
                tls.push_finished(b, tls.Finished(verify_data=_finished(alg, s_hs, transcript)))
            if not feed(item, bytes(b.data)):
                break
    obs["state"] = v.state.value
    obs["completed"] = v.state == tls.State.CLIENT_POST_HANDSHAKE
    obs["resumed"] = bool(v.session_resumed)
    obs["keys"] = keys
    return obs


def pskconf_server_run(case):
    from props import c11
    from aioquic import tls
    from aioquic.buffer import Buffer
    e = c11.env()
    early = bool(case["early"])
    tk = e["ticket", early]
    other = e["ticket", not early]
    # an honest client builds the hello (with the real ticket); the adversary re-writes the PSK parts
    c = c11._client_ctx(True)
    c.session_ticket = tk["client"]
    out = c11._bufs()
    c.handle_message(b"", out)
    hello = tls.pull_client_hello(Buffer(data=bytes(out[tls.Epoch.INITIAL].data)))
    suite = int(tk["client"].cipher_suite)
    alg = _HASH[suite]
    n = _hashlib.new(alg).digest_size
    ident = tk["client"].ticket if case["identity"] == "real" else b"\x5a" * len(tk["client"].ticket)
    hello.pre_shared_key = tls.OfferedPsks(identities=[(ident, hello.pre_shared_key.identities[0][1])], binders=[bytes(n)])
    if case["kex_modes"] == "missing":
        hello.psk_key_exchange_modes = None
    b = Buffer(capacity=4096)
    tls.push_client_hello(b, hello)
    raw = bytes(b.data)
    secret = {"real": tk["client"].resumption_secret, "other-ticket": other["client"].resumption_secret, "zeros": None}[case["binder"]]
    if secret is not None:
        early_secret = _extract(alg, bytes(n), secret)
        binder_key = _expand_label(alg, early_secret, b"res binder", _hx(alg))
        binder = _finished(alg, binder_key, raw[:len(raw) - n - 3])
        raw = raw[:len(raw) - n] + binder
    s = c11._server_ctx(early)
    if case["store"] == "same":
        s.get_session_ticket_cb = lambda label: tk["server"] if label == tk["server"].ticket else None
    keys = []
    s.update_traffic_key_cb = lambda d, ep, cs, sec: keys.append((d.value, ep.value))
    obs = {"stop": None}
    try:
        s.handle_message(raw, c11._bufs())
    except tls.Alert as ex:
        obs["stop"] = {"at": "CH", "alert": int(type(ex).description)}
    except Exception as ex:  # noqa: BLE001
        obs["stop"] = {"at": "CH", "exception": type(ex).__name__}
    obs["resumed"] = bool(s.session_resumed)
    obs["early_accepted"] = bool(s.early_data_accepted)
    obs["zero_rtt_key"] = any(ep == tls.Epoch.ZERO_RTT.value for _, ep in keys)
    obs["state"] = s.state.value
    obs["completed"] = s.state == tls.State.SERVER_POST_HANDSHAKE
    return obs


def pskconf_oracle(case, obs):
    """client reports completion only if a CertificateVerify verified under a trusted certificate, or a PSK it OFFERED was
    selected by a peer that holds the resumption secret; a server resumes / releases 0-RTT keys only for a binder made
    with the secret of the ticket it looked up"""
    sig = {"suite": "tls-pskconf", "kind": "unauthenticated-completion", "role": case["role"]}
    if case["role"] == "client":
        legit_cert = case["flight"] == "EE-CERTgood-CV-FIN" and case["sh_psk"] is None and case["knows"] == "none"
        legit_psk = case["client_psk"] >= 1 and case["sh_psk"] == 0 and case["knows"] == "psk" and case["sh_suite"] == "ticket"
        if obs["completed"] and not (legit_cert or legit_psk):
            return ("client (offered %s) reached POST_HANDSHAKE (session_resumed=%s) after ServerHello(pre_shared_key=%s, suite %s) + %s "
                    "from a peer holding neither a trusted certificate key nor %s" % (
                        ["no PSK", "a PSK", "a PSK with early data"][case["client_psk"]], obs["resumed"], case["sh_psk"],
                        case["sh_suite"], case["flight"], "the resumption secret" if case["knows"] == "none" else "a selectable PSK"),
                    dict(sig, client_psk=case["client_psk"], sh_psk=case["sh_psk"], flight=case["flight"]))
        if obs["resumed"] and obs["state"] not in (1,) and not (case["client_psk"] >= 1 and case["sh_psk"] == 0):
            return ("client reports session_resumed=True in state %s although it offered %s and the ServerHello carried "
                    "pre_shared_key=%s" % (obs["state"], ["no PSK", "a PSK", "a PSK"][case["client_psk"]], case["sh_psk"]),
                    dict(sig, kind="resumed-without-offered-psk", client_psk=case["client_psk"], sh_psk=case["sh_psk"]))
        if legit_cert and case["client_psk"] == 0 and not obs["completed"]:
            return ("control: the legitimate full flight did not complete (%s)" % (obs["stop"],), dict(sig, kind="honest-failed"))
        if legit_psk and case["flight"] == "EE-FIN" and not obs["completed"]:
            return ("control: the legitimate resumption flight did not complete (%s)" % (obs["stop"],), dict(sig, kind="honest-failed"))
        return None
    legit = case["identity"] == "real" and case["binder"] == "real" and case["kex_modes"] == "present" and case["store"] == "same"
    if (obs["resumed"] or obs["early_accepted"] or obs["zero_rtt_key"]) and not (
            case["identity"] == "real" and case["binder"] == "real" and case["store"] == "same"):
        return ("server selected the PSK (resumed=%s early=%s 0-RTT key=%s) for identity=%s binder=%s ticket store=%s"
                % (obs["resumed"], obs["early_accepted"], obs["zero_rtt_key"], case["identity"], case["binder"], case["store"]),
                dict(sig, kind="psk-accepted-unauthenticated", identity=case["identity"], binder=case["binder"]))
    if legit and not obs["resumed"]:
        return ("control: a genuine PSK hello was not resumed (%s)" % (obs["stop"],), dict(sig, kind="honest-failed"))
    return None


def run_pskconf(ctx):
    from props import c11
    t0 = time.time()
    c11.env()
    cases = pskconf_client_cases(ctx) + pskconf_server_cases(ctx)
    st = {"cases": 0, "completed": 0, "resumed": 0, "oracle_failures": 0, "stop_histogram": {}}
    reported, obs_list = 0, []
    for case in cases:
        obs = (pskconf_client_run if case["role"] == "client" else pskconf_server_run)(case)
        st["cases"] += 1
        st["completed"] += int(bool(obs.get("completed")))
        st["resumed"] += int(bool(obs.get("resumed")))
        k = "ok" if not obs["stop"] else ("alert_%s" % obs["stop"].get("alert") if "alert" in obs["stop"] else "exc_" + obs["stop"]["exception"])
        st["stop_histogram"][k] = st["stop_histogram"].get(k, 0) + 1
        bad = pskconf_oracle(case, obs)
        if bad:
            st["oracle_failures"] += 1
            if reported < 3:
                reported += 1
                ctx.violation("impl-violation", "tls-pskconf: " + bad[0], case, signature=bad[1])
        obs_list.append((case, dict(obs, skipped=False)))
    st["wall_s"] = round(time.time() - t0, 2)
    return {"tls_pskconf": st, "_obs": obs_list}


def run_adversary(ctx):
    from props import c11
    t0 = time.time()
    c11.env()
    cases = adv_cases(ctx)
    st = {"cases": 0, "completed": 0, "oracle_failures": 0, "final_state_histogram": {}}
    reported = 0
    obs = []
    for i, case in enumerate(cases):
        case = dict(case, suite="tls-adversary")
        tr = c11.trace_of(case)
        st["cases"] += 1
        fin = tr[-1][3] if tr else -1
        st["final_state_histogram"][str(fin)] = st["final_state_histogram"].get(str(fin), 0) + 1
        if fin in (c11.C_POST, c11.S_POST):
            st["completed"] += 1
        bad = adv_oracle(case)
        if bad:
            st["oracle_failures"] += 1
            if reported < 3:
                reported += 1
                ctx.violation("impl-violation", "tls-adversary: " + bad[0], case, signature=bad[1])
        obs.append((case, {"final_state": fin, "skipped": False}))
        if i % 2000 == 1999:
            c11._TRACE_CACHE.clear()
    c11._TRACE_CACHE.clear()
    st["wall_s"] = round(time.time() - t0, 2)
    return {"tls_adversary": st, "_obs": obs}


# ------------------------------------------------------------------------------------------
# model <-> code: the negotiation decisions of the Gallina model (exec_c03, extracted) against what the real
# endpoints did in the matrix runs
KEY_SIGALGS = {"rsa": [0x0804, 0x0401, 0x0805, 0x0501, 0x0201], "ec256": [0x0403], "ec384": [0x0503], "ed25519": [0x0807]}
V1, V2 = 1, 0x6B3343CF


def _lst(l):
    return [len(l)] + [int(x) for x in l]


def _optblist(l):
    if l is None:
        return [0]
    out = [1, len(l)]
    for a in l:
        b = a.encode("ascii") if isinstance(a, str) else bytes(a)
        out += [len(b)] + list(b)
    return out


def model_tie(ctx, tls_stats, quic_stats):
    st = {"cases": 0, "disagreements": 0, "tls_hello_cases": 0, "quic_version_cases": 0, "skipped_model_not_built": False,
          "model_outcomes": {}}
    if not ctx.proof_ok() or not os.path.exists(core.DRIVER):
        st["skipped_model_not_built"] = True      # stale / broken model: only the implementation oracles count
        return st
    toks, exps, cases = [], [], []
    for case, obs in tls_stats.get("_obs", []):
        if case.get("suite") != "tls-matrix" or obs.get("skipped") or obs.get("harness_error") or "eff" not in obs:
            continue
        cfg, eff = case["cfg"], obs["eff"]
        kt = cfg.get("cert", "ec256")
        if kt not in KEY_SIGALGS:
            kt = cfg.get("keytype", "ec256")
        t = ([5] + _lst(eff["s_suites"]) + _lst(KEY_SIGALGS[kt]) + _lst(eff["s_versions"]) + _optblist(eff["s_alpn"])
             + _lst(eff["c_suites"]) + [1] + _lst(eff["c_sigalgs"]) + [1] + _lst(eff["c_versions"]) + _optblist(eff["c_alpn"])
             + _lst(eff["c_groups"]))
        stop = obs.get("server_stop")
        if stop and stop.get("index") in (0, 1) and stop.get("at_msg") == 1:
            if stop.get("alert") is None:
                continue
            exp = [1, int(stop["alert"]), 0, 0]
        elif obs.get("suite_s") is None:
            continue
        else:
            a = obs.get("alpn_s")
            exp = [0, 0, int(obs["suite_s"])] + ([0] if a is None else [1, len(a)] + list(a.encode("ascii")))
        toks.append(t)
        exps.append(exp)
        cases.append(case)
        st["tls_hello_cases"] += 1
    # QUIC version: Version Negotiation (client) then the server's compatible choice
    q1, qcases = [], []
    for case, obs in quic_stats.get("_obs", []):
        if case.get("suite") != "quic-matrix" or not (obs.get("client_complete") and obs.get("server_complete")):
            continue
        cfg = case["cfg"]
        cv = [int(v) for v in (cfg.get("c_versions") or [V1, V2])]
        sv = [int(v) for v in (cfg.get("s_versions") or [V1, V2])]
        orig = int(cfg.get("c_original_version") or cv[0])
        q1.append([2, orig] + _lst(cv) + _lst(sv))
        qcases.append((case, obs, cv, sv, orig))
    r1 = core.run_model("exec_c03", q1) if q1 else []
    q2 = []
    for (case, obs, cv, sv, orig), r in zip(qcases, r1):
        cur = orig if orig in sv else (r[1] if r and r[0] == 2 else -1)
        q2.append([1, cur] + _lst(sv) + [1] + _lst(cv))
    r2 = core.run_model("exec_c03", q2) if q2 else []
    got = core.run_model("exec_c03", toks) if toks else []
    reported = 0
    for case, exp, g in zip(cases, exps, got):
        st["cases"] += 1
        k = "ok" if g[:1] == [0] else "alert_%s" % (g[1] if len(g) > 1 else "?")
        st["model_outcomes"][k] = st["model_outcomes"].get(k, 0) + 1
        if exp != g:
            st["disagreements"] += 1
            if reported < 3:
                reported += 1
                ctx.violation("correspondence", "model server_handle_hello and tls.Context disagree on the negotiation outcome "
                              "(outcome, alert, cipher suite, ALPN)", case,
                              signature={"suite": "model-negotiate", "kind": "correspondence"},
                              extra={"impl_output": exp, "model_output": g, "correspondence": "exec_c03/server_hello"}, no_input=True)
    for (case, obs, cv, sv, orig), r in zip(qcases, r2):
        st["cases"] += 1
        st["quic_version_cases"] += 1
        seen = (obs.get("client_version"), obs.get("server_version"))
        if not r or seen != (r[0], r[0]):
            st["disagreements"] += 1
            if reported < 6:
                reported += 1
                ctx.violation("correspondence", "model version choice (client_receive_vn ; server_negotiated_version) = %s, "
                              "endpoints ended with %s" % (r, seen), case,
                              signature={"suite": "model-version", "kind": "correspondence"},
                              extra={"impl_output": list(seen), "model_output": r, "correspondence": "exec_c03/version"}, no_input=True)
    return st


def _quic_suites(ctx):
    st = c03_quic.q_run(ctx)
    nq = c03_names.nq_run(ctx, _sub_rng(ctx, "quic-names"))
    st["quic_names"] = nq["quic_names"]
    st["_obs"] = list(st.get("_obs", [])) + nq["_obs"]
    return st


def _quic_part(ctx):
    """run the QUIC-level suites in a forked child while the parent runs the TLS-level ones (the two halves are
    independent; each has its own PRNG stream derived from the seed).  Falls back to running in-process."""
    import multiprocessing
    import traceback
    try:
        mp = multiprocessing.get_context("fork")
        rx, tx = mp.Pipe(duplex=False)
    except Exception:  # noqa: BLE001
        return None

    def child():
        code = 0
        try:
            rx.close()
            ctx.rng = _sub_rng(ctx, "quic")
            ctx.violations, ctx.known_hits = [], []
            st = _quic_suites(ctx)
            tx.send(("ok", st, ctx.violations, ctx.known_hits))
        except BaseException as e:  # noqa: BLE001
            try:
                tx.send(("err", repr(e), traceback.format_exc()[-2000:], []))
            except Exception:  # noqa: BLE001
                code = 1
        finally:
            try:
                tx.close()
            finally:
                os._exit(code)      # never run the parent's cleanup handlers (overlay removal) in the child

    proc = mp.Process(target=child)
    proc.start()
    tx.close()
    return proc, rx


def _quic_join(ctx, handle):
    if handle is None:
        ctx.rng = _sub_rng(ctx, "quic")
        return _quic_suites(ctx)
    proc, rx = handle
    try:
        msg = rx.recv()
    except EOFError:
        msg = ("err", "QUIC-level child process died without a result", "", [])
    proc.join(60)
    if msg[0] != "ok":
        raise RuntimeError("QUIC-level suites failed: %s\n%s" % (msg[1], msg[2]))
    _, st, viols, known = msg
    ctx.violations.extend(viols)
    for k in known:
        if k["id"] not in [x["id"] for x in ctx.known_hits]:
            ctx.known_hits.append(k)
    return st


def run(ctx):
    t0 = time.time()
    cov_extra = {}
    samples = []
    evaluations = 0
    distinct = 0
    # corpus first
    corpus_n = 0
    d = os.path.join(core.VERIF, "corpus", "C03")
    if os.path.isdir(d):
        for fn in sorted(os.listdir(d)):
            if not fn.endswith(".json"):
                continue
            j = json.load(open(os.path.join(d, fn)))
            case = dict(j["case"], suite=j.get("suite", j["case"].get("suite")))
            corpus_n += 1
            rep = replay(ctx, {"case": case})
            if rep.get("oracle"):
                what, sig = rep["oracle"]
                ctx.violation("impl-violation", "corpus %s: %s" % (fn, what), case, signature=sig)
    cov_extra["corpus_cases"] = corpus_n
    # implementation oracles
    quic_handle = _quic_part(ctx)
    tls_stats = c03_tls.t_run(ctx)
    adv_stats = run_adversary(ctx)
    psk_stats = run_pskconf(ctx)
    sched_stats = c03_sched.sched_suite(ctx, _sub_rng(ctx, "sched"))
    names_stats = c03_names.n_run(ctx, _sub_rng(ctx, "names"))
    quic_stats = _quic_join(ctx, quic_handle)
    cov_extra["model_tie"] = model_tie(ctx, tls_stats, quic_stats)
    cov_extra["model_tie_names"] = c03_names.model_tie(ctx, core, names_stats.get("_obs", []))
    seen = set()
    for stats in (tls_stats, adv_stats, psk_stats, sched_stats, names_stats, quic_stats):
        for name, st in stats.items():
            if name.startswith("_") or not isinstance(st, dict):
                continue
            cov_extra[name] = _strip(st)
            evaluations += int(st.get("cases", 0))
        for case, obs in stats.get("_obs", []):
            key = json.dumps(case, sort_keys=True, default=str)
            if key in seen:
                continue
            seen.add(key)
            if not obs.get("skipped"):
                distinct += 1
            if len(samples) < 4 and (case.get("tamper") or len(samples) < 2):
                samples.append({"case": case, "obs": {k: obs[k] for k in list(obs)[:12]}})
    cov = {
        "evaluations": evaluations,
        "distinct_nontrivial": distinct,
        "rule": "real tls.Context pairs and real QuicConnection pairs (harness/sim): one handshake per case; tamper cases alter one "
                "byte (position x mask in {0x01,0x80,0xFF}) of one handshake message in one direction (QUIC: inside correctly "
                "re-protected packets); matrix cases vary certificate key type, cipher-suite lists, ALPN lists, signature "
                "algorithms, groups, TLS / QUIC versions, resumption / 0-RTT, retry, client-certificate request, loss / "
                "reordering; bad-certificate cases; name matrix (configured server_name x subjectAltName shape x verify_mode x "
                "trust source, private CA made at run time). distinct = distinct case descriptions that were not skipped",
        "samples": samples,
        "wall_impl_s": round(time.time() - t0, 1),
    }
    cov.update(cov_extra)
    return cov


def replay(ctx, rep):
    case = rep["case"]
    suite = str(case.get("suite", ""))
    if suite in c03_names.RUNNERS:
        return c03_names.n_replay(ctx, case)
    if suite.startswith("quic"):
        return c03_quic.q_replay(ctx, case)
    if suite == "tls-sched":
        return c03_sched.sched_replay(ctx, case)
    if suite == "tls-pskconf":
        from props import c11
        c11.env()
        obs = (pskconf_client_run if case["role"] == "client" else pskconf_server_run)(case)
        return {"case": case, "obs": obs, "oracle": pskconf_oracle(case, obs)}
    if suite == "tls-adversary":
        from props import c11
        c11.env()
        return {"case": case, "trace": [(op, k, v, st) for (op, k, v, st, _keys, _sb, _f) in c11.trace_of(case)],
                "oracle": adv_oracle(case)}
    return c03_tls.t_replay(ctx, case)
