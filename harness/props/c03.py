"""C03  Handshake completes only with the authentic peer and both sides agree  (PARTIAL: symbolic proof).

Proof side: coq/props/C03.v over coq/model/TlsSymbolic.v (the handshake of tls.py over an oracle record for
cryptography / X.509 / codecs; transcript = the exact bytes given to update_hash).

Tie and implementation oracle, re-run on every check against the CURRENT tree:
  * tools/gen/c03_transcript.py re-extracts from tls.py / connection.py which bytes every handler gives to
    update_hash and in which order relative to its checks, the key-schedule labels, the cipher-suite / signature
    tables, negotiate() and the transport-parameter checks -> coq/gen/TlsTranscript.v; proofs/TlsSymbolicPGen.v
    proves they are the ones the model was written from (a dropped update_hash breaks the proof);
  * harness/props/c03_tls.py: real tls.Context PAIRS driven directly: every byte position x masks of every
    handshake message in both directions, configuration matrix, bad certificates;
  * harness/props/c03_quic.py: real QuicConnection pairs through harness/sim with a key-holding man in the middle
    that alters handshake bytes inside correctly re-protected packets; configuration matrix incl. versions, retry,
    resumption / 0-RTT, client certificates; loss and reordering;
  * the model's negotiate() / version choice / verdicts are compared with what the implementation did
    (exec_c03 through the extracted driver).
"""
import json
import os
import random
import time

from vlib import core, corr
from props import c03_tls, c03_quic

GENERATORS = ["c03_transcript"]
DEPENDS = ["TlsDispatch (generated, C11)", "TlsTranscript (generated)", "TlsSymbolic", "TlsSymbolicP*", "C03"]
TRUSTED_BASE = [
    "tools/gen/c03_transcript.py (Python-ast extraction of the update_hash / derive / check event order of every handshake "
    "handler, labels, tables, negotiate; fail closed) and tools/gen/c11_dispatch.py (dispatch table)",
    "extraction (ExtrOcamlBasic only) + coq/extract/driver.ml for running exec_c03",
    "harness/props/c03.py, c03_tls.py, c03_quic.py, harness/sim (virtual network, wire observer, re-protecting man in the middle)",
    "modelled, not verified: tls.Context handlers and the QUIC transport-parameter / version checks as Gallina functions over an "
    "oracle record; agreement with the code is established by the generated skeleton and on explored runs only",
    "idealised cryptography: hash / HMAC / HKDF injective, Finished provenance (a Finished accepted from the peer was computed "
    "by the honest peer) - premises of the theorems, NOT proved of the real primitives; X.509 path and name validation, "
    "signature verification and the message codecs are oracles (codecs: C17)",
]
ASSUMPTIONS = [
    "symbolic cryptography: o_hash, o_hmac, o_expand (HKDF-Expand-Label) injective; computational soundness of that idealisation is outside",
    "Finished provenance: the Finished message an endpoint accepts is one the honest peer computed (stands for MAC unforgeability "
    "under a key derived from the (EC)DHE / PSK secret the adversary does not hold)",
    "codec round trips parse(build v) = v and framed outputs (proved about the Gallina codecs in C17, here premises)",
    "cert_ok oracle = verify_certificate (chain, validity period, host name); o_sig_verify = public_key.verify",
    "one complete handshake message per handle_message call (reassembly exercised by the QUIC-level runs, not modelled)",
]


def _sub_rng(ctx, label):
    return random.Random("%s/%s/%d/%s" % (ctx.pid, ctx.tier, ctx.seed, label))


def _strip(stats):
    return {k: v for k, v in stats.items() if not k.startswith("_")}


def run(ctx):
    t0 = time.time()
    cov_extra = {}
    samples = []
    evaluations = 0
    distinct = 0
    # corpus first
    corpus_n = 0
    for suite_prefix, mod in (("tls-", c03_tls), ("quic-", c03_quic)):
        d = os.path.join(core.VERIF, "corpus", "C03")
        if os.path.isdir(d):
            for fn in sorted(os.listdir(d)):
                if not fn.endswith(".json"):
                    continue
                j = json.load(open(os.path.join(d, fn)))
                if not str(j.get("suite", "")).startswith(suite_prefix):
                    continue
                corpus_n += 1
                rep = (mod.t_replay if mod is c03_tls else mod.q_replay)(ctx, j["case"])
                if rep.get("oracle"):
                    what, sig = rep["oracle"]
                    ctx.violation("impl-violation", "corpus %s: %s" % (fn, what), j["case"], signature=sig)
    cov_extra["corpus_cases"] = corpus_n
    # implementation oracles
    tls_stats = c03_tls.t_run(ctx)
    quic_stats = c03_quic.q_run(ctx)
    seen = set()
    for stats in (tls_stats, quic_stats):
        for name, st in stats.items():
            if name.startswith("_") or not isinstance(st, dict):
                continue
            cov_extra[name] = _strip(st)
            evaluations += int(st.get("cases", 0))
        for case, obs in stats.get("_obs", []):
            key = json.dumps(case, sort_keys=True, default=str)
            if key in seen:
                continue
            seen.add(key)
            if not obs.get("skipped"):
                distinct += 1
            if len(samples) < 4 and (case.get("tamper") or len(samples) < 2):
                samples.append({"case": case, "obs": {k: obs[k] for k in list(obs)[:12]}})
    cov = {
        "evaluations": evaluations,
        "distinct_nontrivial": distinct,
        "rule": "real tls.Context pairs and real QuicConnection pairs (harness/sim): one handshake per case; tamper cases alter one "
                "byte (position x mask in {0x01,0x80,0xFF}) of one handshake message in one direction (QUIC: inside correctly "
                "re-protected packets); matrix cases vary certificate key type, cipher-suite lists, ALPN lists, signature "
                "algorithms, groups, TLS / QUIC versions, resumption / 0-RTT, retry, client-certificate request, loss / "
                "reordering; bad-certificate cases. distinct = distinct case descriptions that were not skipped",
        "samples": samples,
        "wall_impl_s": round(time.time() - t0, 1),
    }
    cov.update(cov_extra)
    return cov


def replay(ctx, rep):
    case = rep["case"]
    suite = str(case.get("suite", ""))
    if suite.startswith("quic"):
        return c03_quic.q_replay(ctx, case)
    return c03_tls.t_replay(ctx, case)
