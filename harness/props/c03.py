"""C03  Handshake completes only with the authentic peer and both sides agree  (PARTIAL: symbolic proof).

Proof side: coq/props/C03.v over coq/model/TlsSymbolic.v (the handshake of tls.py over an oracle record for
cryptography / X.509 / codecs; transcript = the exact bytes given to update_hash).

Tie and implementation oracle, re-run on every check against the CURRENT tree:
  * tools/gen/c03_transcript.py re-extracts from tls.py / connection.py which bytes every handler gives to
    update_hash and in which order relative to its checks, the key-schedule labels, the cipher-suite / signature
    tables, negotiate() and the transport-parameter checks -> coq/gen/TlsTranscript.v; proofs/TlsSymbolicPGen.v
    proves they are the ones the model was written from (a dropped update_hash breaks the proof);
  * harness/props/c03_tls.py: real tls.Context PAIRS driven directly: every byte position x masks of every
    handshake message in both directions, configuration matrix, bad certificates;
  * harness/props/c03_quic.py: real QuicConnection pairs through harness/sim with a key-holding man in the middle
    that alters handshake bytes inside correctly re-protected packets; configuration matrix incl. versions, retry,
    resumption / 0-RTT, client certificates; loss and reordering;
  * the model's negotiate() / version choice / verdicts are compared with what the implementation did
    (exec_c03 through the extracted driver).
"""
import json
import os
import random
import time

from vlib import core, corr
from props import c03_tls, c03_quic

GENERATORS = ["c03_transcript"]
DEPENDS = ["TlsDispatch (generated, C11)", "TlsTranscript (generated)", "TlsSymbolic", "TlsSymbolicP*", "C03"]
TRUSTED_BASE = [
    "tools/gen/c03_transcript.py (Python-ast extraction of the update_hash / derive / check event order of every handshake "
    "handler, labels, tables, negotiate; fail closed) and tools/gen/c11_dispatch.py (dispatch table)",
    "extraction (ExtrOcamlBasic only) + coq/extract/driver.ml for running exec_c03",
    "harness/props/c03.py, c03_tls.py, c03_quic.py, harness/sim (virtual network, wire observer, re-protecting man in the middle)",
    "modelled, not verified: tls.Context handlers and the QUIC transport-parameter / version checks as Gallina functions over an "
    "oracle record; agreement with the code is established by the generated skeleton and on explored runs only",
    "idealised cryptography: hash / HMAC / HKDF injective, Finished provenance (a Finished accepted from the peer was computed "
    "by the honest peer) - premises of the theorems, NOT proved of the real primitives; X.509 path and name validation, "
    "signature verification and the message codecs are oracles (codecs: C17)",
]
ASSUMPTIONS = [
    "symbolic cryptography: o_hash, o_hmac, o_expand (HKDF-Expand-Label) injective; computational soundness of that idealisation is outside",
    "Finished provenance: the Finished message an endpoint accepts is one the honest peer computed (stands for MAC unforgeability "
    "under a key derived from the (EC)DHE / PSK secret the adversary does not hold)",
    "codec round trips parse(build v) = v and framed outputs (proved about the Gallina codecs in C17, here premises)",
    "cert_ok oracle = verify_certificate (chain, validity period, host name); o_sig_verify = public_key.verify",
    "one complete handshake message per handle_message call (reassembly exercised by the QUIC-level runs, not modelled)",
]


def _sub_rng(ctx, label):
    return random.Random("%s/%s/%d/%s" % (ctx.pid, ctx.tier, ctx.seed, label))


def _strip(stats):
    return {k: v for k, v in stats.items() if not k.startswith("_")}


# ------------------------------------------------------------------------------------------
# key-holding adversary (the machinery of C11: real tls.Context victim, honest key exchange, adversary re-computes
# signatures / MACs over the victim's transcript) trying to make the victim complete WITHOUT authentication
ADV_ALPHA = [["EE"], ["CR"], ["CERT", "good"], ["CERT", "untrusted"], ["CERT", "expired"], ["CERT", "empty"],
             ["CV", "good"], ["CV", "badsig"], ["FIN", "good"], ["FIN", "badmac"]]


def adv_cases(ctx):
    import itertools
    from props import c11
    cases = []
    maxlen = 4 if ctx.thorough else 3
    for psk, verify in ((0, 1), (1, 1), (2, 1), (0, 0)):
        for n in range(1, maxlen + 1):
            for w in itertools.product(ADV_ALPHA, repeat=n):
                if psk and n == maxlen and any(x[0] == "CR" or x[-1] in ("expired", "badmac") for x in w):
                    continue
                cases.append(c11.client_case(psk, [["EE"]] + [list(x) for x in w], verify=verify))
    # the near-legal long flights with every check made to fail one at a time, and the skip attacks
    for psk in (0, 1, 2):
        for verify in (1, 0):
            for cert in ("good", "untrusted", "expired", "empty"):
                for cv in ("good", "badsig", None):
                    for cr in (False, True):
                        ops = [["EE"]] + ([["CR"]] if cr else []) + [["CERT", cert]] + ([["CV", cv]] if cv else []) + [["FIN", "good"]]
                        cases.append(c11.client_case(psk, ops, verify=verify))
    # server victim: client Finished forged / client certificate without proof
    for psk in (0, 1):
        for req in (0, 1):
            for w in ([["FIN", "badmac"]], [["FIN", "good"]], [["CERT", "client"], ["FIN", "good"]], [["CERT", "client"], ["CV", "badsig"], ["FIN", "good"]],
                      [["CERT", "client"], ["CV", "good"], ["FIN", "good"]], [["CERT", "empty"], ["FIN", "good"]],
                      [["CERT", "empty"], ["FIN", "badmac"]], [["CV", "good"], ["FIN", "good"]]):
                cases.append(c11.server_case(psk, req, [list(x) for x in w]))
    return cases


def adv_oracle(case):
    """C03 on one adversarial run: POST_HANDSHAKE only after the legal, fully verified flight (certificate trusted unless
    CERT_NONE, CertificateVerify good, Finished good) or the PSK flight with the PSK offered and honestly selected."""
    from props import c11
    bad = c11.oracle(case)
    if bad and bad[1].get("rule") in ("no_skip", "onertt_early"):
        what, sig = bad
        return ("unauthenticated completion: " + what, dict(sig, suite="tls-adversary", kind="unauthenticated-completion"))
    return None


def run_adversary(ctx):
    from props import c11
    t0 = time.time()
    c11.env()
    cases = adv_cases(ctx)
    st = {"cases": 0, "completed": 0, "oracle_failures": 0, "final_state_histogram": {}}
    reported = 0
    obs = []
    for i, case in enumerate(cases):
        case = dict(case, suite="tls-adversary")
        tr = c11.trace_of(case)
        st["cases"] += 1
        fin = tr[-1][3] if tr else -1
        st["final_state_histogram"][str(fin)] = st["final_state_histogram"].get(str(fin), 0) + 1
        if fin in (c11.C_POST, c11.S_POST):
            st["completed"] += 1
        bad = adv_oracle(case)
        if bad:
            st["oracle_failures"] += 1
            if reported < 3:
                reported += 1
                ctx.violation("impl-violation", "tls-adversary: " + bad[0], case, signature=bad[1])
        obs.append((case, {"final_state": fin, "skipped": False}))
        if i % 2000 == 1999:
            c11._TRACE_CACHE.clear()
    c11._TRACE_CACHE.clear()
    st["wall_s"] = round(time.time() - t0, 2)
    return {"tls_adversary": st, "_obs": obs}


# ------------------------------------------------------------------------------------------
# model <-> code: the negotiation decisions of the Gallina model (exec_c03, extracted) against what the real
# endpoints did in the matrix runs
KEY_SIGALGS = {"rsa": [0x0804, 0x0401, 0x0805, 0x0501, 0x0201], "ec256": [0x0403], "ec384": [0x0503], "ed25519": [0x0807]}
V1, V2 = 1, 0x6B3343CF


def _lst(l):
    return [len(l)] + [int(x) for x in l]


def _optblist(l):
    if l is None:
        return [0]
    out = [1, len(l)]
    for a in l:
        b = a.encode("ascii") if isinstance(a, str) else bytes(a)
        out += [len(b)] + list(b)
    return out


def model_tie(ctx, tls_stats, quic_stats):
    st = {"cases": 0, "disagreements": 0, "tls_hello_cases": 0, "quic_version_cases": 0, "skipped_model_not_built": False,
          "model_outcomes": {}}
    if not ctx.proof_ok() or not os.path.exists(core.DRIVER):
        st["skipped_model_not_built"] = True      # stale / broken model: only the implementation oracles count
        return st
    toks, exps, cases = [], [], []
    for case, obs in tls_stats.get("_obs", []):
        if case.get("suite") != "tls-matrix" or obs.get("skipped") or obs.get("harness_error") or "eff" not in obs:
            continue
        cfg, eff = case["cfg"], obs["eff"]
        kt = cfg.get("cert", "ec256")
        if kt not in KEY_SIGALGS:
            kt = cfg.get("keytype", "ec256")
        t = ([5] + _lst(eff["s_suites"]) + _lst(KEY_SIGALGS[kt]) + _lst(eff["s_versions"]) + _optblist(eff["s_alpn"])
             + _lst(eff["c_suites"]) + [1] + _lst(eff["c_sigalgs"]) + [1] + _lst(eff["c_versions"]) + _optblist(eff["c_alpn"])
             + _lst(eff["c_groups"]))
        stop = obs.get("server_stop")
        if stop and stop.get("index") in (0, 1) and stop.get("at_msg") == 1:
            if stop.get("alert") is None:
                continue
            exp = [1, int(stop["alert"]), 0, 0]
        elif obs.get("suite_s") is None:
            continue
        else:
            a = obs.get("alpn_s")
            exp = [0, 0, int(obs["suite_s"])] + ([0] if a is None else [1, len(a)] + list(a.encode("ascii")))
        toks.append(t)
        exps.append(exp)
        cases.append(case)
        st["tls_hello_cases"] += 1
    # QUIC version: Version Negotiation (client) then the server's compatible choice
    q1, qcases = [], []
    for case, obs in quic_stats.get("_obs", []):
        if case.get("suite") != "quic-matrix" or not (obs.get("client_complete") and obs.get("server_complete")):
            continue
        cfg = case["cfg"]
        cv = [int(v) for v in (cfg.get("c_versions") or [V1, V2])]
        sv = [int(v) for v in (cfg.get("s_versions") or [V1, V2])]
        orig = int(cfg.get("c_original_version") or cv[0])
        q1.append([2, orig] + _lst(cv) + _lst(sv))
        qcases.append((case, obs, cv, sv, orig))
    r1 = core.run_model("exec_c03", q1) if q1 else []
    q2 = []
    for (case, obs, cv, sv, orig), r in zip(qcases, r1):
        cur = orig if orig in sv else (r[1] if r and r[0] == 2 else -1)
        q2.append([1, cur] + _lst(sv) + [1] + _lst(cv))
    r2 = core.run_model("exec_c03", q2) if q2 else []
    got = core.run_model("exec_c03", toks) if toks else []
    reported = 0
    for case, exp, g in zip(cases, exps, got):
        st["cases"] += 1
        k = "ok" if g[:1] == [0] else "alert_%s" % (g[1] if len(g) > 1 else "?")
        st["model_outcomes"][k] = st["model_outcomes"].get(k, 0) + 1
        if exp != g:
            st["disagreements"] += 1
            if reported < 3:
                reported += 1
                ctx.violation("correspondence", "model server_handle_hello and tls.Context disagree on the negotiation outcome "
                              "(outcome, alert, cipher suite, ALPN)", case,
                              signature={"suite": "model-negotiate", "kind": "correspondence"},
                              extra={"impl_output": exp, "model_output": g, "correspondence": "exec_c03/server_hello"}, no_input=True)
    for (case, obs, cv, sv, orig), r in zip(qcases, r2):
        st["cases"] += 1
        st["quic_version_cases"] += 1
        seen = (obs.get("client_version"), obs.get("server_version"))
        if not r or seen != (r[0], r[0]):
            st["disagreements"] += 1
            if reported < 6:
                reported += 1
                ctx.violation("correspondence", "model version choice (client_receive_vn ; server_negotiated_version) = %s, "
                              "endpoints ended with %s" % (r, seen), case,
                              signature={"suite": "model-version", "kind": "correspondence"},
                              extra={"impl_output": list(seen), "model_output": r, "correspondence": "exec_c03/version"}, no_input=True)
    return st


def run(ctx):
    t0 = time.time()
    cov_extra = {}
    samples = []
    evaluations = 0
    distinct = 0
    # corpus first
    corpus_n = 0
    d = os.path.join(core.VERIF, "corpus", "C03")
    if os.path.isdir(d):
        for fn in sorted(os.listdir(d)):
            if not fn.endswith(".json"):
                continue
            j = json.load(open(os.path.join(d, fn)))
            case = dict(j["case"], suite=j.get("suite", j["case"].get("suite")))
            corpus_n += 1
            rep = replay(ctx, {"case": case})
            if rep.get("oracle"):
                what, sig = rep["oracle"]
                ctx.violation("impl-violation", "corpus %s: %s" % (fn, what), case, signature=sig)
    cov_extra["corpus_cases"] = corpus_n
    # implementation oracles
    tls_stats = c03_tls.t_run(ctx)
    adv_stats = run_adversary(ctx)
    quic_stats = c03_quic.q_run(ctx)
    cov_extra["model_tie"] = model_tie(ctx, tls_stats, quic_stats)
    seen = set()
    for stats in (tls_stats, adv_stats, quic_stats):
        for name, st in stats.items():
            if name.startswith("_") or not isinstance(st, dict):
                continue
            cov_extra[name] = _strip(st)
            evaluations += int(st.get("cases", 0))
        for case, obs in stats.get("_obs", []):
            key = json.dumps(case, sort_keys=True, default=str)
            if key in seen:
                continue
            seen.add(key)
            if not obs.get("skipped"):
                distinct += 1
            if len(samples) < 4 and (case.get("tamper") or len(samples) < 2):
                samples.append({"case": case, "obs": {k: obs[k] for k in list(obs)[:12]}})
    cov = {
        "evaluations": evaluations,
        "distinct_nontrivial": distinct,
        "rule": "real tls.Context pairs and real QuicConnection pairs (harness/sim): one handshake per case; tamper cases alter one "
                "byte (position x mask in {0x01,0x80,0xFF}) of one handshake message in one direction (QUIC: inside correctly "
                "re-protected packets); matrix cases vary certificate key type, cipher-suite lists, ALPN lists, signature "
                "algorithms, groups, TLS / QUIC versions, resumption / 0-RTT, retry, client-certificate request, loss / "
                "reordering; bad-certificate cases. distinct = distinct case descriptions that were not skipped",
        "samples": samples,
        "wall_impl_s": round(time.time() - t0, 1),
    }
    cov.update(cov_extra)
    return cov


def replay(ctx, rep):
    case = rep["case"]
    suite = str(case.get("suite", ""))
    if suite.startswith("quic"):
        return c03_quic.q_replay(ctx, case)
    if suite == "tls-adversary":
        from props import c11
        c11.env()
        return {"case": case, "trace": [(op, k, v, st) for (op, k, v, st, _keys, _sb, _f) in c11.trace_of(case)],
                "oracle": adv_oracle(case)}
    return c03_tls.t_replay(ctx, case)
